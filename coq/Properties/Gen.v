(* Statements that tie hand-written model functions to the Rust source text (DESIGN 11.7).
   gen/GenDecisions.v is regenerated from the working tree by harness/src/bin/decisions.rs on every run
   of the checks wired to it (lib/gen_tie.py); Proofs/GenBridge.v proves, for all inputs, that each
   generated function equals the model function the property theorems are about. Theorem names are
   <property>_source_<function>; lib/gen_tie.py attributes them to the properties by that name.
   Statements only. [G] is the generated module, [MR] Model/Result.v, [MD] Model/Dispatcher.v, [MJ]
   Model/Junit.v, [MU] Model/UnitTimers.v, [MF] Model/FilterFull.v, [MFl] Model/Filter.v; the conversion functions
   (stats_to_model, result_to_model, statuses_view, ...) are the small total maps between the
   generated types and the model types defined next to the lemmas in Proofs/GenBridge.v. *)
From Coq Require Import List NArith ZArith Bool.
From NextestModel Require Import Proofs.GenBridge.
Import ListNotations.
Open Scope N_scope.

(* C01 (and C10, C02 through the shared run model): [run_exit] in C01_exit_is_spec / C01_exit_zero_iff is
   [exit_code (summarize_final (d_stats d))]. With this theorem the verdict function those theorems
   speak about IS the text of RunStats::summarize_final as it stands in the working tree (for every
   counter vector, not only the ones corr:summarize-final samples): moving the `finished_count == 0`
   test to the front of the chain, or any other reordering that changes a verdict, makes this
   statement false and the build of this file fail. *)
Theorem C01_source_summarize_final :
  forall s, final_to_model (G.RunStats_summarize_final s) = MR.summarize_final (stats_to_model s).
Proof. exact gen_summarize_final_is_model. Qed.
Print Assumptions C01_source_summarize_final.

(* C01 / C10: the helper summarize_final and the fail-fast test (`failed_count() >= max_fail`) read. *)
Theorem C01_source_failed_count :
  forall s, G.RunStats_failed_count s = MR.failed_count (stats_to_model s).
Proof. exact gen_failed_count_is_model. Qed.
Print Assumptions C01_source_failed_count.

(* C01 / C10 / C18: the helper behind exit code 105 and the setup-script cancellation. *)
Theorem C01_source_failed_setup_script_count :
  forall s, G.RunStats_failed_setup_script_count s = MR.failed_setup_script_count (stats_to_model s).
Proof. exact gen_failed_setup_script_count_is_model. Qed.
Print Assumptions C01_source_failed_setup_script_count.

(* C01 (stats_partition, stats_are_ground_truth) and C17: the counter update for a finished test, for
   every statistics record and every non-empty vector of attempts [st] (seen by the Rust function
   through last_status() and len(), which is what [statuses_view] provides). Merging the Pass and Leak
   arms so that leaky and flaky exclude each other falsifies it. *)
Theorem C01_source_on_test_finished :
  forall s st,
    stats_to_model (G.RunStats_on_test_finished s (statuses_view st)) =
    MR.on_test_finished (stats_to_model s) st.
Proof. exact gen_on_test_finished_is_model. Qed.
Print Assumptions C01_source_on_test_finished.

(* C01 / C18: the counter update for a finished setup script. *)
Theorem C01_source_on_setup_script_finished :
  forall s v,
    stats_to_model (G.RunStats_on_setup_script_finished s v) =
    MR.on_script_finished (stats_to_model s) (result_to_model (G.SetupScriptExecuteStatus_result v)).
Proof. exact gen_on_setup_script_finished_is_model. Qed.
Print Assumptions C01_source_on_setup_script_finished.

(* C01 / C02 / C17: which results count as a pass (Pass and Leak). *)
Theorem C01_source_is_success :
  forall r, G.ExecutionResult_is_success r = MR.is_success (result_to_model r).
Proof. exact gen_is_success_is_model. Qed.
Print Assumptions C01_source_is_success.

(* C02 / C17: the Success / Flaky / Failure classification of a finished test (variant only). *)
Theorem C01_source_describe :
  forall st, desc_code (G.ExecutionStatuses_describe (statuses_view st)) = MR.describe st.
Proof. exact gen_describe_is_model. Qed.
Print Assumptions C01_source_describe.

(* C17 (C17_consumers_agree, C17_failure_counts) is stated over Model/Junit.v's own copy
   of the statistics; this ties that copy of summarize_final to the source text as well. *)
Theorem C17_source_junit_summarize_final :
  forall s, final_to_junit (G.RunStats_summarize_final s) = MJ.summarize_final (stats_to_junit s).
Proof. exact gen_summarize_final_is_junit_model. Qed.
Print Assumptions C17_source_junit_summarize_final.

(* C17: the statistics consumer of the event stream ([stats_step] for a TestFinished event) is the source
   text of RunStats::on_test_finished, for every first attempt + list of further attempts. *)
Theorem C17_source_junit_on_test_finished :
  forall s first rest,
    stats_to_junit (G.RunStats_on_test_finished s (jstatuses_view first rest)) =
    MJ.on_test_finished (stats_to_junit s) first rest.
Proof. exact gen_on_test_finished_is_junit_model. Qed.
Print Assumptions C17_source_junit_on_test_finished.

(* C17: [stats_step] for a SetupScriptFinished event. *)
Theorem C17_source_junit_on_setup_script_finished :
  forall s v,
    stats_to_junit (G.RunStats_on_setup_script_finished s v) =
    MJ.on_script_finished (stats_to_junit s) (result_to_junit (G.SetupScriptExecuteStatus_result v)).
Proof. exact gen_on_setup_script_finished_is_junit_model. Qed.
Print Assumptions C17_source_junit_on_setup_script_finished.

(* C17: the success test the JUnit aggregator and describe() use. *)
Theorem C17_source_junit_is_success :
  forall r, G.ExecutionResult_is_success r = MJ.jis_success (result_to_junit r).
Proof. exact gen_is_success_is_junit_model. Qed.
Print Assumptions C17_source_junit_is_success.

(* C17: the JUnit aggregator's case split (testcase / flaky testcase with reruns / failed testcase) follows
   describe(); this ties the variant describe() picks to the source text. *)
Theorem C17_source_junit_describe :
  forall first rest,
    gdesc_code (G.ExecutionStatuses_describe (jstatuses_view first rest)) =
    jdesc_code (MJ.describe first rest).
Proof. exact gen_describe_is_junit_model. Qed.
Print Assumptions C17_source_junit_describe.

(* C10 (C10_monotone, C10_never_resets, C10_announce_once): the order `self.cancel_state < Some(reason)` compares
   with is derive(Ord) on CancelReason, i.e. the declaration order of its variants. The rank function
   is regenerated from that declaration; reordering two variants falsifies this. *)
Theorem C10_source_cancel_reason_rank :
  forall c, G.CancelReason_rank c = MD.rank (reason_to_model c).
Proof. exact gen_cancel_reason_rank_is_model. Qed.
Print Assumptions C10_source_cancel_reason_rank.

(* C10 (C10_maxfail_exact, C10_maxfail_reach) / C01: the fail-fast threshold test. *)
Theorem C10_source_is_exceeded :
  forall m failed, G.MaxFail_is_exceeded m failed = MD.max_fail_exceeded (max_fail_to_model m) failed.
Proof. exact gen_is_exceeded_is_model. Qed.
Print Assumptions C10_source_is_exceeded.

(* C10 / C11: which cancel reason a shutdown signal maps to. *)
Theorem C10_source_event_to_cancel_reason :
  forall e, reason_to_model (G.event_to_cancel_reason e) = MD.event_to_cancel_reason (shutdown_event_to_model e).
Proof. exact gen_event_to_cancel_reason_is_model. Qed.
Print Assumptions C10_source_event_to_cancel_reason.

(* C10 / C11: first signal -> Once(event), second -> Twice. *)
Theorem C10_source_to_request :
  forall c e,
    shutdown_req_to_model (G.SignalCount_to_request c e) =
    MD.to_request (sigcount_to_model c) (shutdown_event_to_model e).
Proof. exact gen_to_request_is_model. Qed.
Print Assumptions C10_source_to_request.

(* C09 (C09_method, C09_escalate) / C03: SIGTERM at the deadline unless the grace period is
   zero, then SIGKILL at once. *)
Theorem C09_source_timeout_terminate_method :
  forall cfg, method_to_model (G.timeout_terminate_method (MU.grace cfg)) = MU.timeout_method cfg.
Proof. exact gen_timeout_terminate_method_is_model. Qed.
Print Assumptions C09_source_timeout_terminate_method.

(* C11 (C11_same_signal, C11_zero_grace_kills, C11_second_signal_method): the signal a unit forwards for a shutdown request --
   the same signal for the first request, SIGKILL for the second or when the grace period is zero. *)
Theorem C11_source_shutdown_terminate_method :
  forall cfg req,
    method_to_model (G.shutdown_terminate_method req (MU.grace cfg)) =
    MU.shutdown_method cfg (shutreq_to_model req).
Proof. exact gen_shutdown_terminate_method_is_model. Qed.
Print Assumptions C11_source_shutdown_terminate_method.

(* C04 (C04_binary_sound, C04_binary_verdict_meaning, C04_binary_sound_filtersets): the Kleene `or` over the -E filtersets. *)
Theorem C04_source_logic_or :
  forall a b, bmatch_to_model (G.FilterBinaryMatch_logic_or a b) = MF.logic_or (bmatch_to_model a) (bmatch_to_model b).
Proof. exact gen_logic_or_is_model. Qed.
Print Assumptions C04_source_logic_or.

(* C04: the Kleene `and` with the default-set verdict. *)
Theorem C04_source_logic_and :
  forall a b, bmatch_to_model (G.FilterBinaryMatch_logic_and a b) = MF.logic_and (bmatch_to_model a) (bmatch_to_model b).
Proof. exact gen_logic_and_is_model. Qed.
Print Assumptions C04_source_logic_and.

(* C04: which mismatch reason wins. *)
Theorem C04_source_prefer_expression :
  forall a b,
    breason_to_model (G.BinaryMismatchReason_prefer_expression a b) =
    MF.prefer_expression (breason_to_model a) (breason_to_model b).
Proof. exact gen_prefer_expression_is_model. Qed.
Print Assumptions C04_source_prefer_expression.

(* C04: Some(true) / None / Some(false) -> Definite / Possible / Mismatch. *)
Theorem C04_source_from_result :
  forall o r, bmatch_to_model (G.FilterBinaryMatch_from_result o r) = MF.from_result o (breason_to_model r).
Proof. exact gen_from_result_is_model. Qed.
Print Assumptions C04_source_from_result.

(* C04: Definite and Possible binaries are listed. *)
Theorem C04_source_is_match :
  forall m, G.FilterBinaryMatch_is_match m = MF.b_is_match (bmatch_to_model m).
Proof. exact gen_is_match_is_model. Qed.
Print Assumptions C04_source_is_match.

(* C01: the last step from the verdict to the process exit status. [G.exec_run_exit] is the final `match`
   of App::exec_run (cargo-nextest/src/dispatch.rs) as a function of the statistics and the --no-tests
   policy; [process_exit] is what main() does with its value (Ok(code) -> exit(code), Err(e) ->
   exit(e.process_exit_code())), with ExpectedError::process_exit_code and the NextestExitCode constants
   (nextest-metadata/src/exit_codes.rs) translated as well (restricted to the three errors that match
   can produce). With this, [exit_code (summarize_final s) p] in C01_exit_is_spec / C01_exit_zero_iff /
   C01_codes is the exit status the source text computes from the final statistics: 0 / 4 / 100 / 105. *)
Theorem C01_source_exec_run_exit :
  forall s p,
    process_exit (G.exec_run_exit s p) = MR.exit_code (MR.summarize_final (stats_to_model s)) (policy_to_model p).
Proof. exact gen_exec_run_exit_is_model. Qed.
Print Assumptions C01_source_exec_run_exit.

(* C04 (C04_selected_iff, C04_first_reason): the run-ignored stage. *)
Theorem C04_source_filter_ignored_mismatch :
  forall f ignored,
    option_map fmatch_to_model (G.TestFilter_filter_ignored_mismatch f ignored) =
    option_map MFl.Mismatch (MFl.filter_ignored (run_ignored_to_model (G.TestFilter_builder_run_ignored f)) ignored).
Proof. exact gen_filter_ignored_mismatch_is_model. Qed.
Print Assumptions C04_source_filter_ignored_mismatch.

(* C04 (C04_selected_iff, C04_first_reason) and C13 (count partitioning applies after every other filter):
   the ORDER of the stages of TestFilter::filter_match as written in the source -- ignored, then name and
   expression with the name reason first, then the partition, else Matches. The verdicts of
   filter_name_match / filter_expression_match / filter_partition_mismatch are inputs of the generated
   function (their bodies involve strings and filtersets and stay with the differential stages);
   [part_input] is the partition stage's answer for the model's partitioner state. *)
Theorem C04_source_filter_match :
  forall f bound ignored nm em pb cur name,
    fmatch_to_model (G.TestFilter_filter_match f bound ignored nm em (part_input pb cur name)) =
    fst (MFl.filter_match
           (match MFl.filter_ignored (run_ignored_to_model (G.TestFilter_builder_run_ignored f)) ignored with
            | Some r => Some r
            | None => MFl.combine_name_expr (name_match_to_model nm) (name_match_to_model em)
            end) pb cur name).
Proof. exact gen_filter_match_is_model. Qed.
Print Assumptions C04_source_filter_match.

(* ================================================================================================
   Second round (DESIGN 11.7): the small decisions OUTSIDE the classic decision functions -- the
   command-line plumbing of cargo-nextest/src/dispatch.rs and TestRunnerBuilder::build, the decision
   after each attempt, the platform guards, the spawn-time set-up, the threads-required argument.
   [MC] is Model/CliRun.v (written from the documented behaviour of the options), [PC] its facts.
   ================================================================================================ *)

(* ---- facts about Model/CliRun.v, at the level of the property texts *)

(* C08 "with --no-capture at most one test runs at a time": for EVERY message format and every other
   option the runner's thread count is 1 and nothing is captured ... *)
Theorem C08_cli_no_capture_any_format :
  forall o f pt pm ncpus s,
    MC.runner_of o true f pt pm ncpus = Some s -> MC.rs_capture s = MC.CapNone /\ MC.rs_test_threads s = 1.
Proof. exact PC.runner_no_capture. Qed.
Print Assumptions C08_cli_no_capture_any_format.

(* ... hence (C08_no_capture_serial) the queue built with that count never has two tests in progress. *)
Theorem C08_cli_no_capture_one_at_a_time :
  forall o f pt pm ncpus s grps items ops,
    MC.runner_of o true f pt pm ncpus = Some s ->
    Forall (fun it => 1 <= NextestModel.Model.FutureQueue.it_w it) items ->
    (length (NextestModel.Model.FutureQueue.running
               (fst (NextestModel.Model.FutureQueue.fq_run
                       (NextestModel.Model.FutureQueue.fq_new (MC.rs_test_threads s) grps items) ops))) <= 1)%nat.
Proof. exact PC.runner_no_capture_one_at_a_time. Qed.
Print Assumptions C08_cli_no_capture_one_at_a_time.

(* C08: --test-threads / NEXTEST_TEST_THREADS replaces the profile's value (when output is captured) *)
Theorem C08_cli_threads_beat_profile :
  forall nc f t prof ncpus,
    nc = false ->
    MC.effective_test_threads (MC.capture_strategy_of nc f) (Some t) prof ncpus = MC.threads_compute ncpus t.
Proof. exact PC.cli_threads_beat_profile. Qed.
Print Assumptions C08_cli_threads_beat_profile.

(* C10: --max-fail beats --no-fail-fast beats --fail-fast beats the profile *)
Theorem C10_cli_max_fail_flag_wins :
  forall m nff ff prof, MC.max_fail_of (Some m) nff ff prof = m.
Proof. exact PC.max_fail_flag_wins. Qed.
Print Assumptions C10_cli_max_fail_flag_wins.
Theorem C10_cli_no_fail_fast_is_all :
  forall ff prof, MC.max_fail_of None true ff prof = None.
Proof. exact PC.no_fail_fast_beats_fail_fast. Qed.
Print Assumptions C10_cli_no_fail_fast_is_all.
Theorem C10_cli_fail_fast_is_one :
  forall prof, MC.max_fail_of None false true prof = Some 1.
Proof. exact PC.fail_fast_is_one. Qed.
Print Assumptions C10_cli_fail_fast_is_one.
Theorem C10_cli_profile_by_default :
  forall prof, MC.max_fail_of None false false prof = prof.
Proof. exact PC.profile_max_fail_by_default. Qed.
Print Assumptions C10_cli_profile_by_default.

(* C07 / C06: the policy --retries N / NEXTEST_RETRIES builds is Model/RetryResolve.v's force_retries *)
Theorem C07_cli_forced_retries_is_resolve :
  forall cli env,
    NextestModel.Model.RetryResolve.force_retries cli env =
    MC.forced_retries (NextestModel.Model.RetryResolve.clap_retries cli env).
Proof. exact PC.forced_retries_is_resolve. Qed.
Print Assumptions C07_cli_forced_retries_is_resolve.

(* ---- the same, tied to the source text *)

(* C08 / C16: the capture strategy App::exec_run computes and hands to TestRunnerOpts::to_builder (the
   argument of that call, with the `let`s it depends on). Honouring --no-capture for the human format
   only falsifies it. *)
Theorem C08_source_cap_strat :
  forall nc f, cap_to_model (G.exec_run_cap_strat nc f) = MC.capture_strategy_of nc (fmt_to_model f).
Proof. exact gen_cap_strat_is_model. Qed.
Print Assumptions C08_source_cap_strat.

(* C08: the value TestRunnerBuilder::build stores in TestRunnerInner.test_threads *)
Theorem C08_source_build_test_threads :
  forall b pt ncpus,
    G.build_test_threads b pt ncpus =
    MC.effective_test_threads (cap_to_model (G.TestRunnerBuilder_capture_strategy b))
      (option_map threads_to_model (G.TestRunnerBuilder_test_threads b)) (threads_to_model pt) ncpus.
Proof. exact gen_build_test_threads_is_model. Qed.
Print Assumptions C08_source_build_test_threads.

(* C08 / C10 / C07: the whole path command line -> App::exec_run's capture strategy ->
   TestRunnerOpts::to_builder (with the TestRunnerBuilder setters and derive(Default)) ->
   TestRunnerBuilder::build: the capture strategy, thread count, max-fail and forced retry policy the
   runner is built with are [MC.runner_of] of the options, for every option combination. *)
Theorem C08_source_runner_settings :
  forall o nc f pt pm ncpus,
    option_map (settings_of_builder pt pm ncpus) (G.TestRunnerOpts_to_builder o (G.exec_run_cap_strat nc f)) =
    MC.runner_of (opts_to_model o) nc (fmt_to_model f) (threads_to_model pt) (mf_to_model pm) ncpus.
Proof. exact gen_runner_settings_is_model. Qed.
Print Assumptions C08_source_runner_settings.

(* C08, the property's own sentence on the source text: with --no-capture the thread count the runner is
   built with is 1 and nothing is captured, for EVERY message format and every other option. *)
Theorem C08_source_no_capture_serial :
  forall o f pt ncpus b,
    G.TestRunnerOpts_to_builder o (G.exec_run_cap_strat true f) = Some b ->
    G.build_test_threads b pt ncpus = 1 /\ G.build_capture_strategy b = G.CaptureStrategy_None.
Proof. exact gen_no_capture_serial. Qed.
Print Assumptions C08_source_no_capture_serial.

(* C01: the process exit status of BOTH entry points -- `cargo nextest run` (Command::Run arm of AppOpts::exec:
   `app.exec_run(..)?; Ok(0)`) and `cargo ntr` (NtrOpts::exec: the value of exec_run itself) -- composed with the
   final match of exec_run and with main(): exit_code (summarize_final s) p. Returning Ok(100) from exec_run, which
   the Command::Run arm discards, falsifies it. *)
Theorem C01_source_command_exit :
  forall e s p,
    process_exit (entry_gen_exit e (G.exec_run_exit s p)) =
    MC.entry_exit e (MR.summarize_final (stats_to_model s)) (policy_to_model p).
Proof. exact gen_command_exit_is_model. Qed.
Print Assumptions C01_source_command_exit.

(* ---- the decision after each attempt (C07) *)

(* C07 "run again after each failed attempt until an attempt passes or N+1 attempts have been made": the model
   decision retries exactly the non-passing attempts that have attempts left -- whatever KIND of failure *)
Theorem C07_attempt_retry_iff :
  forall passed a t, MA.after_attempt passed a t = MA.ARetry <-> passed = false /\ a < t.
Proof. exact PA.after_attempt_retry_iff. Qed.
Print Assumptions C07_attempt_retry_iff.

(* The `if`/`match` the loop body of ExecutorContext::run_test_instance ends in, branch by branch (does it `break`
   -- Finished follows the loop -- or go round again, and which ExecutorEvent does it send), as a function of the
   attempt's result and RetryData: it is [MA.after_attempt] of ExecutionResult::is_success. Retrying only
   ExecutionResult::Fail (so that a timed-out or exec-failed attempt is final) falsifies it. *)
Theorem C07_source_after_attempt :
  forall r attempt total,
    exit_to_model (G.run_test_instance_after_attempt r (G.mk_RetryData attempt total)) =
    Some (MA.after_attempt (MR.is_success (result_to_model r)) attempt total).
Proof. exact gen_after_attempt_is_model. Qed.
Print Assumptions C07_source_after_attempt.

(* One iteration of the loop C07's theorems are about (Model/Backoff.v [attempt_loop]: C07_attempts, C07_stop_on_success,
   C07_delays ...), instantiated with the generated result type and the generated is_success, IS that generated
   decision. *)
Theorem C07_source_attempt_loop :
  forall f attempt delay bs total outcome accept js,
    MB.attempt_loop G.ExecutionResult G.ExecutionResult_is_success (S f) attempt delay bs total outcome accept js =
    if (1 <? attempt) && negb (accept attempt) then (nil, MB.Refused)
    else
      let r := outcome attempt in
      let rec := MB.Build_attempt_rec G.ExecutionResult attempt delay r in
      match exit_to_model (G.run_test_instance_after_attempt r (G.mk_RetryData attempt total)) with
      | Some MA.AFinish => (rec :: nil, MB.Finished)
      | Some MA.ARetry =>
          match MB.b_next (js attempt) bs with
          | None => (rec :: nil, MB.Panicked)
          | Some (d, bs') =>
              let '(l, e) := MB.attempt_loop G.ExecutionResult G.ExecutionResult_is_success f (attempt + 1) d bs' total
                               outcome accept js in
              (rec :: l, e)
          end
      | None => (rec :: nil, MB.Panicked)
      end.
Proof. exact gen_attempt_loop_step. Qed.
Print Assumptions C07_source_attempt_loop.

(* The whole-life unit model (Model/UnitLife.v, C07 / C11 / C12 over real time) makes the same decision. *)
Theorem C07_unit_life_decision :
  forall c s u,
    NextestModel.Model.UnitLife.finish_attempt c s u =
    let r := NextestModel.Model.UnitLife.Build_arec (NextestModel.Model.UnitLife.l_k s)
               (NextestModel.Model.UnitTimers.uresult u) (NextestModel.Model.UnitTimers.slow u)
               (NextestModel.Model.UnitTimers.time_taken u) in
    match MA.after_attempt (NextestModel.Model.UnitLife.ures_success (NextestModel.Model.UnitTimers.uresult u))
            (NextestModel.Model.UnitLife.l_k s) (NextestModel.Model.UnitLife.lc_total c) with
    | MA.AFinish =>
        NextestModel.Model.Clocks.Ok
          (NextestModel.Model.UnitLife.mkl NextestModel.Model.UnitLife.LFinishedP (NextestModel.Model.UnitLife.l_k s)
             (NextestModel.Model.UnitLife.l_bs s) (NextestModel.Model.UnitLife.l_delay s)
             (r :: NextestModel.Model.UnitLife.l_done s),
           NextestModel.Model.UnitLife.LFinished (NextestModel.Model.UnitLife.l_k s) :: nil)
    | MA.ARetry =>
        match MB.b_next (NextestModel.Model.UnitLife.lc_js c (NextestModel.Model.UnitLife.l_k s))
                (NextestModel.Model.UnitLife.l_bs s) with
        | None => NextestModel.Model.Clocks.Panicked
        | Some (d, bs') =>
            NextestModel.Model.Clocks.Ok
              (NextestModel.Model.UnitLife.mkl
                 (NextestModel.Model.UnitLife.LDelay (NextestModel.Model.UnitTimers.dinit d))
                 (NextestModel.Model.UnitLife.l_k s) bs' d (r :: NextestModel.Model.UnitLife.l_done s),
               NextestModel.Model.UnitLife.LAttemptFailedWillRetry (NextestModel.Model.UnitLife.l_k s) d :: nil)
        end
    end.
Proof. exact PA.finish_attempt_decision. Qed.
Print Assumptions C07_unit_life_decision.

(* C07 / C06: `let retry_policy = self.force_retries.unwrap_or_else(|| settings.retries())` and `total_attempts =
   retry_policy.count() + 1` at the top of run_test_instance are effective_policy / p_count + 1 of Model/Backoff.v
   (run_test_instance) and Model/RetryResolve.v (resolved_policy). *)
Theorem C07_source_retry_policy :
  forall force own,
    retry_policy_to_model (G.run_test_instance_retry_policy force own) =
    MB.effective_policy (option_map retry_policy_to_model force) (retry_policy_to_model own) /\
    G.run_test_instance_total_attempts force own =
    MB.p_count (MB.effective_policy (option_map retry_policy_to_model force) (retry_policy_to_model own)) + 1.
Proof. exact gen_retry_policy_and_total. Qed.
Print Assumptions C07_source_retry_policy.

(* C07 "A --retries value given on the command line or in NEXTEST_RETRIES replaces every test's policy, delays
   included", on the source text end to end (to_builder -> build -> run_test_instance). *)
Theorem C07_source_forced_retries :
  forall o cs b n own,
    G.TestRunnerOpts_to_builder o cs = Some b ->
    G.TestRunnerOpts_retries o = Some n ->
    retry_policy_to_model (G.run_test_instance_retry_policy (G.build_force_retries b) own) = MB.new_without_delay n /\
    G.run_test_instance_total_attempts (G.build_force_retries b) own = n + 1.
Proof. exact gen_forced_retries. Qed.
Print Assumptions C07_source_forced_retries.

(* ---- platform guards (C06, C18) *)

(* C06: the platform `continue`s at the head of the loop over the overrides in TestSettings::new (the guards in front of
   the filterset test), as a function of the override's FinalConfig and the test binary's build platform:
   host_eval AND (host_test_eval for a host binary, target_eval for a target binary) -- [MO.platform_ok], the platform
   half of [MO.applies] (C06_winner_applies, C06_first_applicable ...). Dropping host_eval for host tests falsifies it. *)
Theorem C06_source_override_platform_guard :
  forall st p, G.override_platform_guard st p = MO.platform_ok (state_to_model st) (is_host p).
Proof. exact gen_override_platform_guard_is_model. Qed.
Print Assumptions C06_source_override_platform_guard.

(* ... and it is the platform part of [MO.skips], the function TestSettings::new's model folds over the overrides. *)
Theorem C06_source_override_skips :
  forall e t st o,
    MO.skips e t (state_to_model st, o) =
    negb (G.override_platform_guard st (platform_of (MO.t_host t)))
    || match MO.filter_of o with Some f => negb (MO.e_filter e f (MO.t_id t)) | None => false end.
Proof. exact gen_override_skips_is_model. Qed.
Print Assumptions C06_source_override_skips.

(* C18: CompiledProfileScripts::is_enabled -- [MSc.rule_matches], the function C18's "scripts run iff needed" theorems
   are about, is the source's three platform guards followed by the filterset. Dropping host_test_eval falsifies it. *)
Theorem C18_source_script_platform_guard :
  forall st p flt setup id,
    MSc.rule_matches
      (MSc.mkrule (G.FinalConfig_host_eval st) (G.FinalConfig_host_test_eval st) (G.FinalConfig_target_eval st) flt setup)
      (MSc.mkq id (is_host p)) =
    G.script_platform_guard st p && match flt with Some f => f (MSc.mkq id (is_host p)) | None => true end.
Proof. exact gen_script_platform_guard_is_model. Qed.
Print Assumptions C18_source_script_platform_guard.

(* ---- spawn-time set-up (C15; C09 / C11 for the process group; C16 / C08 for the streams) *)

(* what the model asks of the set-up gives the property's sentences, for EVERY capture strategy *)
Theorem C15_setup_ok_stdin_and_group :
  forall cap t, MSp.setup_ok cap t = true -> MSp.stdin_null t = true /\ MSp.own_process_group t = true.
Proof. exact PSp.setup_ok_stdin_and_group. Qed.
Print Assumptions C15_setup_ok_stdin_and_group.

(* its variable list is Model/Command.v's executor_layer, which [test_assignments] (C15_nextest_vars_win ...) puts after
   the make_command assignments (cargo [env] included) and before the setup-script variables *)
Theorem C15_setup_env_keys_are_executor_layer :
  forall r a, map NextestModel.Model.Command.K.s MSp.executor_env_keys =
              map fst (NextestModel.Model.Command.executor_layer r a).
Proof. exact PSp.executor_env_keys_are_executor_layer. Qed.
Print Assumptions C15_setup_env_keys_are_executor_layer.

(* C15 on the source text: the ordered list of calls ExecutorContext::run_test_inner makes on the Command --
   following os::set_process_group, TestCommand::spawn and test_command::imp::spawn, each call under the condition it
   is made -- regenerated from the source satisfies [MSp.setup_ok] for every capture strategy: the command comes from
   make_command, then exactly the five executor_layer variables in order, then the setup-script variables, stdin is the
   null device and the child leads its own process group whatever the capture strategy, stdout / stderr are left alone
   with --no-capture and piped otherwise, and the spawn comes last. Folding stdin into the capture-strategy match and
   forgetting the None arm, or making process_group(0) conditional on capture, falsifies it. *)
Theorem C15_source_spawn_setup :
  forall cap, MSp.setup_ok (cap_to_model cap) (G.run_test_inner_setup cap) = true.
Proof. exact gen_spawn_setup_is_model. Qed.
Print Assumptions C15_source_spawn_setup.

(* C09 / C11 (signals go to the test's process group) and C15: the two unconditional calls, spelled out *)
Theorem C15_source_spawn_stdin_and_group :
  forall cap,
    MSp.stdin_null (G.run_test_inner_setup cap) = true /\ MSp.own_process_group (G.run_test_inner_setup cap) = true.
Proof. exact gen_spawn_setup_stdin_and_group. Qed.
Print Assumptions C15_source_spawn_stdin_and_group.

(* ---- threads-required (C08) *)

(* C08 "the sum of their threads-required (each capped at the test-thread count) is at most the test-thread count":
   the weight TestRunnerInner::execute hands to the queue is ThreadsRequired::compute of the test's setting against
   `self.test_threads` -- the runner's count, i.e. (C08_source_build_test_threads) 1 under --no-capture and the
   command line's value over the profile's otherwise -- and the same `self.test_threads` is the queue's global limit.
   Resolving "num-test-threads" from the profile instead removes the call the request names (not translated) or
   changes its argument (lemma false). *)
Theorem C08_source_threads_required :
  forall r runner_threads ncpus,
    G.execute_threads_required r runner_threads ncpus = MC.threads_required_weight (tr_to_model r) runner_threads ncpus.
Proof. exact gen_threads_required_is_model. Qed.
Print Assumptions C08_source_threads_required.

Theorem C08_source_threads_required_fills_queue :
  forall runner_threads ncpus,
    G.execute_threads_required G.ThreadsRequired_NumTestThreads runner_threads ncpus =
    G.execute_queue_limit runner_threads.
Proof. exact gen_num_test_threads_fills_queue. Qed.
Print Assumptions C08_source_threads_required_fills_queue.

(* ---- exec_run's early return (C01; fifth round) *)

(* C01 "the exit code reflects the outcome of the run": the only `return Ok(..)` of App::exec_run is the else block of
   `let Some(runner_builder) = .. else { return Ok(0); }` (the translator checks that syntactically); the value that
   `let` tests, regenerated from the source, is None iff --no-run was given -- for every combination of the other runner
   options, --no-capture and the message format. The test list is not an input of the fragment: an empty list (or a
   build without test binaries) does not short-circuit the run; it reaches the runner and the final match
   (C01_source_exec_run_exit: NO_TESTS_RUN unless --no-tests says otherwise). Filtering the builder by the number of
   listed binaries makes the fragment depend on the test list (not translated). *)
Theorem C01_source_exec_run_early_return :
  forall o nc f n,
    match G.exec_run_early_return o nc f with None => true | Some _ => false end =
    MER.returns_before_running (opts_to_model o) n.
Proof. exact gen_exec_run_early_return_is_model. Qed.
Print Assumptions C01_source_exec_run_early_return.

(* the model's facts *)
Theorem C01_empty_list_does_not_short_circuit :
  forall o, MC.o_no_run o = false -> MER.returns_before_running o 0 = false.
Proof. exact PER.empty_list_does_not_short_circuit. Qed.
Print Assumptions C01_empty_list_does_not_short_circuit.

Theorem C01_runner_built_iff_no_early_return :
  forall o nc f pt pm ncpus n,
    MC.runner_of o nc f pt pm ncpus = None <-> MER.returns_before_running o n = true.
Proof. exact PER.runner_built_iff_no_early_return. Qed.
Print Assumptions C01_runner_built_iff_no_early_return.
