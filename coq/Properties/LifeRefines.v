(* The unit-life machine REFINES the executor protocol: [wf_history], the hypothesis of the
   dispatcher-family theorems (C01 exit status, C02 once / attempts, C10 cancellation), is derived
   from the unit model for its per-test part.  Statements only; the projection is
   Model/LifeProtocol.v, proofs are in Proofs/LifeProtocol.v and Proofs/LifeSystem.v.

   Model/Unit.v's protocol automaton ([ustep] / [urun]: Started handshake, attempts 1, 2, ...,
   AttemptFailedWillRetry k with k < total and a failed result, the RetryStarted handshake, one
   Finished, nothing after Finished or a refused handshake) was an ASSUMPTION about
   runner/executor.rs.  Model/UnitLife.v is the detailed machine of the same code
   ([lstep]: handshakes, the one-attempt timer machine, backoff, retry delay under stop / continue
   / shutdown / cancel requests), tied to the source by the regenerated pause table, the arm table
   (Properties/Arms.v) and the attempt decision (Proofs/AttemptDecision.v).  Here:
   * [project_life tbl fd t c es]: the InternalEvents of test t, with the handshake answers, that
     the dispatcher receives when the unit runs over the event sequence es;
   * every such projection is accepted by the protocol automaton, which ends in the phase that
     corresponds to the unit's state; conversely every SIMPLE protocol trace (no Slow event, no
     attempt marked slow or timed out) is the projection of a run the environment admits;
   * [life_history unicast tbl S mf dbg h]: a history h in which the events of every selected
     test are such a projection of an environment-valid run of its unit-life machine -- in any
     interleaving --, the setup-script / gate automaton accepts h, and tests that are not
     selected have at most one Skipped (and only if listed);
   * a life history is well-formed; C01 / C02 / C10 follow with [wf_history] replaced.
   All theorems are instantiated with the pause table read from the current source
   (gen/GenPauseTable.v); the proofs hold for every table. *)
From NextestModel Require Import Base.Str Model.Backoff Model.Clocks Model.UnitTimers Model.AbsTimers
  Model.UnitLife Proofs.UnitLife gen.GenPauseTable.
From NextestModel Require Import Model.Result Model.Dispatcher Model.Unit Model.LifeProtocol
  Proofs.Result Proofs.Dispatcher Proofs.Unit Proofs.LifeProtocol Proofs.LifeSystem.
From Coq Require Import ZArith.
Open Scope N_scope.

(* ================================================================ one unit *)

(* (1) Refinement.  For EVERY event sequence es of the life machine (environment-valid or not: the
   environment only restricts which runs exist; an internal failure would cut the projection
   short, and Properties/UnitLife.v's UnitLife_no_internal_failure says there is none), for every
   kind of failure the failed attempts had ([fd]), in every protocol configuration that selects t
   with the unit's total_attempts: the events the dispatcher receives form a protocol trace. *)
Theorem Life_refines_protocol :
  forall fd t c cf es,
    memb t (c_sel cf) = true -> c_total cf t = lc_total c ->
    urun cf t PIdle (project_life pause_table fd t c es) = true.
Proof. exact (life_refines_protocol pause_table). Qed.
Print Assumptions Life_refines_protocol.

(* ... and for a run the environment admits ([lsys_run ... = LOk y], the premise of every theorem
   of Properties/UnitLife.v) the automaton ends exactly where the unit is: LAwaitStart ~ PIdle,
   LAttempt (attempt k) ~ PRunning k, LDelay / LAwaitRetry ~ PDelay k, LFinishedP ~ PFinished,
   LRefusedP ~ PRefusedStart (k = 0) / PRefusedRetry k.  In particular: nothing follows Finished
   or a refused handshake; RetryStarted k+1 only follows AttemptFailedWillRetry k with k < total;
   attempts are numbered 1, 2, ... *)
Theorem Life_refines_protocol_phase :
  forall unicast fd t c cf es y,
    memb t (c_sel cf) = true -> c_total cf t = lc_total c ->
    lsys_run unicast pause_table c (lsys0 c) es = LOk y ->
    ufold cf t PIdle (project_life pause_table fd t c es) = Some (phase_of_lstate (y_s y)).
Proof. exact (fun unicast => life_refines_protocol_phase unicast pause_table). Qed.
Print Assumptions Life_refines_protocol_phase.

(* the single-unit protocol configuration *)
Theorem Life_refines_protocol_single :
  forall fd t c es,
    cfg_ok (cfg_of_lcfg t c) = true /\
    urun (cfg_of_lcfg t c) t PIdle (project_life pause_table fd t c es) = true.
Proof. exact (fun fd t c es => conj (cfg_of_lcfg_ok t c) (life_refines_protocol_single pause_table fd t c es)). Qed.
Print Assumptions Life_refines_protocol_single.

(* (2) The attempts the dispatcher is told about -- AttemptFailedWillRetry 1, 2, ..., then
   Finished -- are the attempts of the unit's own log (the monitor's RAttempt entries, oldest
   first; = the ExecuteStatus records pushed on l_done): same results, slow flags, numbers. *)
Theorem Life_projection_reports_life_log :
  forall unicast fd t c es y,
    lsys_run unicast pause_table c (lsys0 c) es = LOk y ->
    trace_attempts (project_life pause_table fd t c es) = log_attempts fd c (y_log y) /\
    log_attempts fd c (y_log y) = map (attempt_of fd c) (rev (l_done (y_s y))).
Proof. exact (fun unicast => projection_reports_life_log unicast pause_table). Qed.
Print Assumptions Life_projection_reports_life_log.

(* (3) Coverage.  Every simple protocol trace of one test (only that test's events; no Slow
   event; no attempt marked slow or timed out; HNone on events without a handshake) that the
   automaton accepts is the projection of a run of the unit-life machine which the environment
   admits -- for any slow-timeout configuration and any retry policy with that total: no request is
   delivered, every attempt's child exits at once with the reported result, every retry delay
   elapses in full.  (The restriction is necessary: see Protocol_is_coarser_on_slow below.) *)
Theorem Protocol_trace_is_life_projection :
  forall unicast t c cf h p,
    c_total cf t = lc_total c ->
    forallb (simple_event t) h = true -> ufold cf t PIdle h = Some p ->
    exists es y, lsys_run unicast pause_table c (lsys0 c) es = LOk y /\
                 project_life pause_table (fd_of_trace h) t c es = h /\
                 phase_of_lstate (y_s y) = p.
Proof. exact (fun unicast => protocol_trace_is_projection unicast pause_table). Qed.
Print Assumptions Protocol_trace_is_life_projection.

(* ... so on simple traces the protocol IS the set of projections of environment-valid runs *)
Theorem Simple_protocol_traces_are_exactly_the_projections :
  forall unicast t c cf h,
    memb t (c_sel cf) = true -> c_total cf t = lc_total c ->
    forallb (simple_event t) h = true ->
    (urun cf t PIdle h = true <->
     exists fd es y, lsys_run unicast pause_table c (lsys0 c) es = LOk y /\
                     project_life pause_table fd t c es = h).
Proof. exact (fun unicast => simple_protocol_traces_are_the_projections unicast pause_table). Qed.
Print Assumptions Simple_protocol_traces_are_exactly_the_projections.

(* ================================================================ N units + the gate *)

(* (4) A history whose per-test parts come from unit-life machines is well-formed. *)
Theorem Life_history_is_wf :
  forall unicast S mf dbg h,
    life_history unicast pause_table S mf dbg h -> wf_history (cfg_of_lsystem S) mf dbg h = true.
Proof. exact (fun unicast => life_history_wf unicast pause_table). Qed.
Print Assumptions Life_history_is_wf.

(* ... and conversely a well-formed history whose unit traces are simple is one *)
Theorem Wf_history_is_life_history_on_simple_traces :
  forall unicast S mf dbg h,
    let c := cfg_of_lsystem S in
    let ah := annotate (Live (init_for c mf dbg)) h in
    (forall t, In t (ls_sel S) -> forallb (simple_event t) (filter (of_test t) ah) = true) ->
    wf_history c mf dbg h = true ->
    life_history unicast pause_table (with_fd S (fun t => fd_of_trace (filter (of_test t) ah))) mf dbg h.
Proof. exact (fun unicast => wf_history_is_life_history unicast pause_table). Qed.
Print Assumptions Wf_history_is_life_history_on_simple_traces.

(* (5) The operational product ([yrun]: a label is a step of one unit, taken under that unit's own
   environment check, whose outputs the dispatcher handles at once and whose handshake answers are
   the dispatcher's own; or an event that does not come from a test unit, subject to the script /
   gate automaton and "Skipped at most once, unselected tests only") produces only life
   histories; the annotation the run records is the dispatcher model's; every unit has made an
   environment-valid run. *)
Theorem Product_run_is_life_history :
  forall unicast S mf dbg ls yf ah,
    cfg_ok (cfg_of_lsystem S) = true ->
    yrun unicast pause_table S (ystate0 S mf dbg) ls = Some (yf, ah) ->
    life_history unicast pause_table S mf dbg (map fst ah) /\
    annotate (Live (init_for (cfg_of_lsystem S) mf dbg)) (map fst ah) = ah /\
    ys_d yf = final_state (Live (init_for (cfg_of_lsystem S) mf dbg)) (map fst ah) /\
    forall t, In t (ls_sel S) ->
      lsys_run unicast pause_table (ls_cfg S t) (lsys0 (ls_cfg S t)) (unit_events t ls) = LOk (ys_u yf t).
Proof. exact (fun unicast => product_run_is_life_history unicast pause_table). Qed.
Print Assumptions Product_run_is_life_history.

(* ================================================================ C01 / C02 / C10 *)

(* C01_exit_is_spec with [wf_history] replaced *)
Theorem C01_exit_is_spec_for_unit_machines :
  forall unicast S mf dbg h p,
    life_history unicast pause_table S mf dbg h -> (shutdown_count h <= 2)%nat ->
    run_exit (cfg_of_lsystem S) mf dbg h p = Some (spec_exit (cfg_of_lsystem S) h p).
Proof. exact (fun unicast S mf dbg h p Hl Hs => life_exit_is_spec unicast pause_table S mf dbg h Hl Hs p). Qed.
Print Assumptions C01_exit_is_spec_for_unit_machines.

Theorem C01_exit_zero_iff_for_unit_machines :
  forall unicast S mf dbg h p,
    life_history unicast pause_table S mf dbg h -> (shutdown_count h <= 2)%nat ->
    (run_exit (cfg_of_lsystem S) mf dbg h p = Some 0%Z <->
     (forall r, In r (script_results h) -> is_success r = true) /\
     (forall t, In t (ls_sel S) -> exists a, final_of h t = Some a /\ is_success (a_res a) = true) /\
     (ls_sel S <> [] \/ p = Some NtPass \/ p = Some NtWarn)).
Proof. exact (fun unicast S mf dbg h p Hl Hs => life_exit_zero_iff unicast pause_table S mf dbg h Hl Hs p). Qed.
Print Assumptions C01_exit_zero_iff_for_unit_machines.

(* ... and for the operational product no hypothesis about the history is left *)
Theorem C01_exit_is_spec_for_product_runs :
  forall unicast S mf dbg ls yf ah p,
    cfg_ok (cfg_of_lsystem S) = true ->
    yrun unicast pause_table S (ystate0 S mf dbg) ls = Some (yf, ah) ->
    (shutdown_count (map fst ah) <= 2)%nat ->
    run_exit (cfg_of_lsystem S) mf dbg (map fst ah) p
    = Some (spec_exit (cfg_of_lsystem S) (map fst ah) p).
Proof. exact (fun unicast => product_exit_is_spec unicast pause_table). Qed.
Print Assumptions C01_exit_is_spec_for_product_runs.

(* C02_once with [wf_history] replaced *)
Theorem C02_once_for_unit_machines :
  forall unicast S mf dbg h,
    life_history unicast pause_table S mf dbg h -> (shutdown_count h <= 2)%nat ->
    let o := out (Live (init_for (cfg_of_lsystem S) mf dbg)) h in
    forall t,
      (count_if (is_started_of t) o <= 1)%nat /\
      (count_if (is_finished_of t) o <= 1)%nat /\
      (count_if (is_skipped_of t) o <= 1)%nat /\
      (forall pre e post, o = pre ++ e :: post -> is_finished_of t e = true ->
         exists x, In x pre /\ is_started_of t x = true) /\
      (forall e, In e o -> is_skipped_of t e = true -> In t (ls_unsel S) /\ ~ In t (ls_sel S)) /\
      (forall e, In e o -> event_tid e = Some t -> is_skipped_of t e = false -> In t (ls_sel S)).
Proof. exact (fun unicast => life_once unicast pause_table). Qed.
Print Assumptions C02_once_for_unit_machines.

(* C02_attempts with [wf_history] replaced; the total is the unit's own retries + 1 *)
Theorem C02_attempts_for_unit_machines :
  forall unicast S mf dbg h,
    life_history unicast pause_table S mf dbg h -> (shutdown_count h <= 2)%nat ->
    let o := out (Live (init_for (cfg_of_lsystem S) mf dbg)) h in
    forall t,
      (exists o', ocheck (lc_total (ls_cfg S t)) t ONone o = Some o') /\
      (forall pre sts s r cs post, o = pre ++ ETestFinished t sts s r cs :: post ->
         numbered_from 1 (st_all sts) = true /\ st_len sts <= lc_total (ls_cfg S t)) /\
      (forall pre e post k, o = pre ++ e :: post -> is_retry_of t (k + 1) e = true ->
         exists x, In x pre /\ is_failed_retry_of t k x = true).
Proof. exact (fun unicast => life_attempts unicast pause_table). Qed.
Print Assumptions C02_attempts_for_unit_machines.

(* "the attempt results carried by TestFinished are the unit's": the ExecutionStatuses the
   dispatcher reports in TestFinished for a test whose events come from a unit-life machine are that
   machine's own log of attempts, oldest first (= the records on l_done), and the machine has sent
   Finished.  (The dispatcher accumulates past_attempts from AttemptFailedWillRetry; no hypothesis
   on the rest of the history, nor on the number of signals.) *)
Theorem C02_finished_statuses_are_life_log_for_unit_machines :
  forall unicast S mf dbg h t es y sts st rn cs,
    let c := cfg_of_lsystem S in
    let ah := annotate (Live (init_for c mf dbg)) h in
    memb t (ls_sel S) = true ->
    lsys_run unicast pause_table (ls_cfg S t) (lsys0 (ls_cfg S t)) es = LOk y ->
    filter (of_test t) ah = project_life pause_table (ls_fd S t) t (ls_cfg S t) es ->
    In (ETestFinished t sts st rn cs) (out (Live (init_for c mf dbg)) h) ->
    st_all sts = log_attempts (ls_fd S t) (ls_cfg S t) (y_log y) /\
    st_all sts = map (attempt_of (ls_fd S t) (ls_cfg S t)) (rev (l_done (y_s y))) /\
    l_ph (y_s y) = LFinishedP.
Proof. exact (fun unicast => finished_statuses_are_life_log unicast pause_table). Qed.
Print Assumptions C02_finished_statuses_are_life_log_for_unit_machines.

(* dispatcher_never_panics_on_wf with [wf_history] replaced: duplicate new_test / missing
   finish_test are unreachable when the units are unit-life machines *)
Theorem dispatcher_never_panics_for_unit_machines :
  forall unicast S mf dbg h,
    life_history unicast pause_table S mf dbg h -> (shutdown_count h <= 2)%nat ->
    exists d, final_state (Live (init_for (cfg_of_lsystem S) mf dbg)) h = Live d.
Proof. exact (fun unicast => life_never_panics unicast pause_table). Qed.
Print Assumptions dispatcher_never_panics_for_unit_machines.

Theorem dispatcher_never_panics_for_product_runs :
  forall unicast S mf dbg ls yf ah,
    cfg_ok (cfg_of_lsystem S) = true ->
    yrun unicast pause_table S (ystate0 S mf dbg) ls = Some (yf, ah) ->
    (shutdown_count (map fst ah) <= 2)%nat ->
    exists d, ys_d yf = Live d.
Proof. exact (fun unicast => product_never_panics unicast pause_table). Qed.
Print Assumptions dispatcher_never_panics_for_product_runs.

(* C10 ("after cancellation begins nothing new starts") down to the unit: once the dispatcher has
   announced cancellation (RunBeginCancel / RunBeginKill in the step x), a unit-life machine that
   asks to start anything afterwards -- its first attempt or a retry -- is refused
   (C10_no_new_units) and, being a unit-life machine, returns: its life ends in LRefusedP, without
   another attempt and without Finished.  (No hypothesis on the history other than that t's
   events are the projection of the run es.) *)
Theorem C10_refused_unit_returns_for_unit_machines :
  forall unicast S mf dbg h tr1 x tr2 t es y,
    let c := cfg_of_lsystem S in
    let ah := annotate (Live (init_for c mf dbg)) h in
    trace (Live (init_for c mf dbg)) h = tr1 ++ x :: tr2 ->
    existsb is_ann (step_events x) = true ->
    memb t (ls_sel S) = true ->
    lsys_run unicast pause_table (ls_cfg S t) (lsys0 (ls_cfg S t)) es = LOk y ->
    filter (of_test t) ah = project_life pause_table (ls_fd S t) t (ls_cfg S t) es ->
    (exists z, In z tr2 /\ is_start_request (step_input z) = true /\
               event_test (step_input z) = Some t) ->
    l_ph (y_s y) = LRefusedP.
Proof. exact (fun unicast => unit_refused_after_announcement unicast pause_table). Qed.
Print Assumptions C10_refused_unit_returns_for_unit_machines.

(* C10 ("... rather than sitting out retry delays"), the unit-machine counterpart of
   C10_ends_promptly: in every run of the product with the dispatcher's repeat of the cancel
   request (unicast = true, the F10 repair) no unit has spent any time in a retry delay after a
   cancel request had been delivered to it. *)
Theorem C10_no_delay_after_cancel_for_unit_machines :
  forall S mf dbg ls yf ah,
    cfg_ok (cfg_of_lsystem S) = true ->
    yrun true pause_table S (ystate0 S mf dbg) ls = Some (yf, ah) ->
    forall t, In t (ls_sel S) -> y_dc (ys_u yf t) = 0.
Proof. exact (product_no_delay_after_cancel pause_table). Qed.
Print Assumptions C10_no_delay_after_cancel_for_unit_machines.

(* ================================================================ witnesses (vm_compute) *)

(* two selected tests and one unselected, one setup script, fail-fast (max-fail 1):
   test 0 has no retries, test 1 has two (fixed delay 100) *)
Definition lr_unit : ucfg := {| period := 50; terminate_after := None; grace := 7; leak_timeout := 1 |}.
Definition lr_sys : lsystem :=
  {| ls_sel := [0; 1]; ls_unsel := [2];
     ls_cfg := fun t => {| lc_unit := lr_unit;
                           lc_policy := if t =? 1 then Fixed 2 100 false else Fixed 0 0 false;
                           lc_js := fun _ => no_jitter_sample |};
     ls_fd := fun _ _ => FdFail (Some 6) false;
     ls_scripts := 1 |}.

(* the script passes; both tests start; test 2 is skipped; test 1's first attempt fails after 10,
   it waits out the delay of 100 and its retry is accepted; test 0 fails: the failure limit is
   reached, the dispatcher announces cancellation and broadcasts OtherCancel, which unit 1's
   running attempt consumes and ignores; attempt 2 of test 1 fails as well, with a retry left:
   AttemptFailedWillRetry 2; the dispatcher repeats OtherCancel to it, the delay ends at once, and
   the RetryStarted handshake is refused *)
Definition lr_run : list ylabel :=
  [YOther (ScriptStarted 0); YOther (ScriptFinished 0 Pass);
   YUnit 0 (LAnswer true); YUnit 1 (LAnswer true); YOther (Skipped 2);
   YUnit 1 (LU (Tick 60)); YUnit 1 (LU FireInterval);
   YUnit 1 (LU (ChildExit false)); YUnit 1 (LU FdsDone);
   YUnit 1 (LU (Tick 100)); YUnit 1 LDelayFire; YUnit 1 (LAnswer true);
   YUnit 0 (LU (ChildExit false)); YUnit 0 (LU FdsDone);
   YUnit 1 (LU (Req ROtherCancel));
   YUnit 1 (LU (ChildExit false)); YUnit 1 (LU FdsDone);
   YUnit 1 (LU (Req ROtherCancel)); YUnit 1 (LAnswer false)].

Definition lr_history : list devent :=
  [ScriptStarted 0; ScriptFinished 0 Pass; Started 0; Started 1; Skipped 2;
   Slow 1 1 3 false;
   AttemptFailedWillRetry 1 (mk_attempt (Fail (Some 6) false) true 1 3);
   RetryStarted 1 2 3;
   Finished 0 (mk_attempt (Fail (Some 6) false) false 1 1);
   AttemptFailedWillRetry 1 (mk_attempt (Fail (Some 6) false) false 2 3);
   RetryStarted 1 3 3].

Definition yrun_summary (r : option (ystate * list (devent * handshake)))
  : option (list devent * list handshake * list (N * N * N)) :=
  match r with
  | Some (y, ah) =>
      Some (map fst ah, map snd ah,
            map (fun t => (match l_ph (y_s (ys_u y t)) with
                           | LAwaitStart => 0 | LAttempt _ => 1 | LDelay _ => 2 | LAwaitRetry => 3
                           | LFinishedP => 4 | LRefusedP => 5 end,
                           l_k (y_s (ys_u y t)), y_dc (ys_u y t))) [0; 1])
  | None => None
  end.

(* non-vacuity of the product theorems: the run is accepted; the dispatcher has seen lr_history
   with these handshake answers; unit 0 has finished after 1 attempt, unit 1 was refused after 2,
   with no time in a delay after the cancel request *)
Example LifeRefines_product_run :
  cfg_ok (cfg_of_lsystem lr_sys) = true /\
  yrun_summary (yrun true pause_table lr_sys (ystate0 lr_sys (Some 1) true) lr_run)
  = Some (lr_history,
          [HAccepted; HNone; HAccepted; HAccepted; HNone; HNone; HNone; HAccepted; HNone; HNone; HRefused],
          [(4, 1, 0); (5, 2, 0)]).
Proof. split; vm_compute; reflexivity. Qed.

(* ... so its history is a life history, hence well-formed (also directly by evaluation), exits
   100, and announces TestFailure once *)
Example LifeRefines_product_history :
  life_history true pause_table lr_sys (Some 1) true lr_history /\
  wf_history (cfg_of_lsystem lr_sys) (Some 1) true lr_history = true /\
  run_exit (cfg_of_lsystem lr_sys) (Some 1) true lr_history None = Some 100%Z /\
  reasons (out (Live (init_for (cfg_of_lsystem lr_sys) (Some 1) true)) lr_history) = [TestFailure].
Proof.
  split; [|repeat split; vm_compute; reflexivity].
  destruct (yrun true pause_table lr_sys (ystate0 lr_sys (Some 1) true) lr_run) as [[yf ah]|] eqn:E;
    [|vm_compute in E; discriminate].
  assert (Hh : map fst ah = lr_history) by (vm_compute in E; injection E as _ <-; reflexivity).
  rewrite <- Hh.
  exact (proj1 (Product_run_is_life_history true lr_sys (Some 1) true lr_run yf ah
                  (proj1 LifeRefines_product_run) E)).
Qed.

(* the TestFinished of test 0 in that stream carries exactly the one attempt of unit 0's log *)
Example LifeRefines_finished_statuses :
  filter (is_finished_of 0) (out (Live (init_for (cfg_of_lsystem lr_sys) (Some 1) true)) lr_history)
  = [ETestFinished 0 (mk_statuses [] (mk_attempt (Fail (Some 6) false) false 1 1))
                   (mk_stats 2 1 0 1 1 0 0 0 0 0 0 1 0 0 0 0 1) 1 None] /\
  match lsys_run true pause_table (ls_cfg lr_sys 0) (lsys0 (ls_cfg lr_sys 0)) (unit_events 0 lr_run) with
  | LOk y => log_attempts (ls_fd lr_sys 0) (ls_cfg lr_sys 0) (y_log y)
  | _ => []
  end = [mk_attempt (Fail (Some 6) false) false 1 1].
Proof. split; vm_compute; reflexivity. Qed.

(* the hypothesis is not idle: the same run with the last handshake ACCEPTED is not a run of the
   product (the dispatcher refuses once cancel_state is set, and so does the unit's environment),
   and a unit cannot send Started before the scripts are done *)
Example LifeRefines_product_rejects :
  yrun true pause_table lr_sys (ystate0 lr_sys (Some 1) true)
       (removelast lr_run ++ [YUnit 1 (LAnswer true)]) = None /\
  yrun true pause_table lr_sys (ystate0 lr_sys (Some 1) true)
       [YOther (ScriptStarted 0); YUnit 0 (LAnswer true)] = None /\
  wf_history (cfg_of_lsystem lr_sys) (Some 1) true
             (removelast lr_history ++ [RetryStarted 1 3 3; Finished 1 (mk_attempt Pass false 3 3)]) = false.
Proof. repeat split; vm_compute; reflexivity. Qed.

(* the projection of one unit, and the witness of the coverage theorem for a simple trace: the
   run constructed for [Started; AttemptFailedWillRetry 1; RetryStarted 2; Finished 2 (leak)] *)
Example LifeRefines_projection_of_unit_1 :
  project_life pause_table (ls_fd lr_sys 1) 1 (ls_cfg lr_sys 1) (unit_events 1 lr_run)
  = [(Started 1, HAccepted); (Slow 1 1 3 false, HNone);
     (AttemptFailedWillRetry 1 (mk_attempt (Fail (Some 6) false) true 1 3), HNone);
     (RetryStarted 1 2 3, HAccepted);
     (AttemptFailedWillRetry 1 (mk_attempt (Fail (Some 6) false) false 2 3), HNone);
     (RetryStarted 1 3 3, HRefused)].
Proof. vm_compute. reflexivity. Qed.

Example LifeRefines_coverage_witness :
  let h := [(Started 1, HAccepted);
            (AttemptFailedWillRetry 1 (mk_attempt ExecFail false 1 3), HNone);
            (RetryStarted 1 2 3, HAccepted);
            (Finished 1 (mk_attempt Leak false 2 3), HNone)] in
  let es := [LAnswer true; LU (ChildExit false); LU FdsDone; LU (Tick 100); LDelayFire; LAnswer true;
             LU (ChildExit true); LU (Tick 1); LU FireLeak] in
  forallb (simple_event 1) h = true /\
  ufold (cfg_of_lsystem lr_sys) 1 PIdle h = Some PFinished /\
  project_life pause_table (fd_of_trace h) 1 (ls_cfg lr_sys 1) es = h /\
  (exists y, lsys_run true pause_table (ls_cfg lr_sys 1) (lsys0 (ls_cfg lr_sys 1)) es = LOk y /\
             l_ph (y_s y) = LFinishedP).
Proof.
  cbv zeta. split; [vm_compute; reflexivity|]. split; [vm_compute; reflexivity|].
  split; [vm_compute; reflexivity|]. eexists. split; [vm_compute; reflexivity|reflexivity].
Qed.

(* the restriction of the coverage theorem is necessary: the protocol automaton accepts a trace
   in which a passing attempt is marked slow although no Slow event was sent and the slow-timeout
   grace period is not zero -- no run of the unit-life machine does that (is_slow is set by the
   interval expiry that also sends the Slow event).  The protocol is coarser than the unit; the
   dispatcher-family theorems do not depend on the difference. *)
Example Protocol_is_coarser_on_slow :
  urun (cfg_of_lsystem lr_sys) 0 PIdle
       [(Started 0, HAccepted); (Finished 0 (mk_attempt Pass true 1 1), HNone)] = true /\
  forallb (simple_event 0) [(Started 0, HAccepted); (Finished 0 (mk_attempt Pass true 1 1), HNone)] = false.
Proof. split; vm_compute; reflexivity. Qed.

(* ================================================================ closed over the request channels
   Model/LifeClosed.v: the same product, but the units are bare life machines (no environment
   check) and every request a unit consumes is one the dispatcher model has put into that unit's
   FIFO channel: the broadcast DispatcherContext::run makes for the response of a step, to every
   unit registered in running_tests after the step, and handle_event's own repeat of OtherCancel
   (F10 repair).  A unit reads its channel only in a wait loop; in the delay between attempts no
   time passes while a cancel request is waiting in the channel.
   Every run of this machine is a run of the open product with the environment check on: the
   premise [lenv_ok] of Model/UnitLife.v -- Stop / Continue alternate, Once before Twice,
   RetryStarted refused after a cancel delivery, no time in a retry delay after one -- is DERIVED
   from the dispatcher model (Proofs/DispatcherEnv.v's step lemma, cancel_state monotone, "a cancel
   request is only sent when cancel_state is set", the unicast of the AttemptFailedWillRetry arm). *)
From NextestModel Require Import Model.LifeClosed Proofs.LifeClosed.

Theorem Closed_run_is_product_run :
  forall S mf dbg ls zf ah,
    cfg_ok (cfg_of_lsystem S) = true ->
    zrun pause_table S (zstate0 S mf dbg) ls = Some (zf, ah) ->
    exists yf, yrun true pause_table S (ystate0 S mf dbg) ls = Some (yf, ah) /\
               ys_d yf = Live (zs_d zf) /\
               forall t, memb t (ls_sel S) = true -> y_s (ys_u yf t) = zs_u zf t.
Proof. exact (closed_run_is_product_run pause_table). Qed.
Print Assumptions Closed_run_is_product_run.

(* the premise of every theorem of Properties/UnitLife.v holds of every unit of a closed run *)
Theorem Closed_run_units_are_environment_valid :
  forall S mf dbg ls zf ah,
    cfg_ok (cfg_of_lsystem S) = true ->
    zrun pause_table S (zstate0 S mf dbg) ls = Some (zf, ah) ->
    forall t, In t (ls_sel S) ->
      exists y, lsys_run true pause_table (ls_cfg S t) (lsys0 (ls_cfg S t)) (unit_events t ls) = LOk y /\
                y_s y = zs_u zf t.
Proof. exact (closed_run_units_valid pause_table). Qed.
Print Assumptions Closed_run_units_are_environment_valid.

Theorem Closed_run_history_is_wf :
  forall S mf dbg ls zf ah,
    cfg_ok (cfg_of_lsystem S) = true ->
    zrun pause_table S (zstate0 S mf dbg) ls = Some (zf, ah) ->
    life_history true pause_table S mf dbg (map fst ah) /\
    wf_history (cfg_of_lsystem S) mf dbg (map fst ah) = true /\
    final_state (Live (init_for (cfg_of_lsystem S) mf dbg)) (map fst ah) = Live (zs_d zf).
Proof. exact (closed_run_life_history pause_table). Qed.
Print Assumptions Closed_run_history_is_wf.

Theorem C01_exit_is_spec_for_closed_runs :
  forall S mf dbg ls zf ah p,
    cfg_ok (cfg_of_lsystem S) = true ->
    zrun pause_table S (zstate0 S mf dbg) ls = Some (zf, ah) ->
    (shutdown_count (map fst ah) <= 2)%nat ->
    run_exit (cfg_of_lsystem S) mf dbg (map fst ah) p
    = Some (spec_exit (cfg_of_lsystem S) (map fst ah) p).
Proof. exact (closed_exit_is_spec pause_table). Qed.
Print Assumptions C01_exit_is_spec_for_closed_runs.

(* C10 "... rather than sitting out retry delays", with nothing assumed about deliveries *)
Theorem C10_no_delay_after_cancel_for_closed_runs :
  forall S mf dbg ls zf ah,
    cfg_ok (cfg_of_lsystem S) = true ->
    zrun pause_table S (zstate0 S mf dbg) ls = Some (zf, ah) ->
    forall t, In t (ls_sel S) ->
      exists y, lsys_run true pause_table (ls_cfg S t) (lsys0 (ls_cfg S t)) (unit_events t ls) = LOk y /\
                y_dc y = 0.
Proof. exact (closed_no_delay_after_cancel pause_table). Qed.
Print Assumptions C10_no_delay_after_cancel_for_closed_runs.

Definition zrun_summary (r : option (zstate * list (devent * handshake)))
  : option (list devent * list (list ureq)) :=
  match r with
  | Some (z, ah) => Some (map fst ah, map (zs_mail z) [0; 1])
  | None => None
  end.

(* the witness run of above is a run of the closed machine: the two OtherCancel requests unit 1
   consumes are the broadcast made when test 0's failure reached the limit and the dispatcher's
   repeat after AttemptFailedWillRetry 2; both channels are empty at the end *)
Example LifeRefines_closed_run :
  zrun_summary (zrun pause_table lr_sys (zstate0 lr_sys (Some 1) true) lr_run) = Some (lr_history, [[]; []]).
Proof. vm_compute. reflexivity. Qed.

(* the channel discipline is not idle: a request that was not sent cannot be consumed; Stop twice
   in a row cannot be consumed because the dispatcher never sends it (SIGTSTP twice: one broadcast);
   and with a cancel request waiting no time passes in the retry delay *)
Example LifeRefines_closed_rejects :
  zrun pause_table lr_sys (zstate0 lr_sys (Some 1) true)
       [YOther (ScriptStarted 0); YOther (ScriptFinished 0 Pass); YUnit 1 (LAnswer true);
        YUnit 1 (LU (Req ROtherCancel))] = None /\
  zrun pause_table lr_sys (zstate0 lr_sys (Some 1) true)
       [YOther (ScriptStarted 0); YOther (ScriptFinished 0 Pass); YUnit 1 (LAnswer true);
        YOther SigStop; YOther SigStop; YUnit 1 (LU (Req RStop)); YUnit 1 (LU (Req RStop))] = None /\
  zrun_summary (zrun pause_table lr_sys (zstate0 lr_sys (Some 1) true)
       [YOther (ScriptStarted 0); YOther (ScriptFinished 0 Pass); YUnit 1 (LAnswer true);
        YOther SigStop; YOther SigStop; YUnit 1 (LU (Req RStop))])
  = Some ([ScriptStarted 0; ScriptFinished 0 Pass; Started 1; SigStop; SigStop], [[]; []]) /\
  zrun pause_table lr_sys (zstate0 lr_sys (Some 1) true)
       (firstn 17 lr_run ++ [YUnit 1 (LU (Tick 5))]) = None /\
  zrun_summary (zrun pause_table lr_sys (zstate0 lr_sys (Some 1) true) (firstn 17 lr_run))
  = Some (removelast lr_history, [[]; [ROtherCancel]]).
Proof. repeat split; vm_compute; reflexivity. Qed.
