(* The request arms of every wait loop, read from the Rust source (DESIGN 11.2e).
   Statements only; proofs are in Proofs/ArmBridge.v.

   [arm_table] (gen/GenArmTable.v) is regenerated from nextest-runner/src/runner/{executor,unix}.rs
   by harness/src/bin/arm_table.rs on every run of the checks C09 - C12: for each wait loop and each
   kind of request the match arm that handles it, as a list of abstract actions. [interp_unit],
   [interp_delay], [interp_expiry], [run_entry] (Model/ArmTable.v) give those lists their meaning
   over the states of the unit model; a kill carries its target explicitly ([SKill TGroup s] is
   libc::kill(-pid, s), [SKill TLeader s] is libc::kill(pid, s) or child.start_kill()).
   [script = true]: the unit is a setup script (run_setup_script_inner), else a test.

   The file is cut into blocks like Proofs/ArmBridge.v: a check whose own block still holds is not
   failed by a change to an arm that belongs to another property. *)
(* == block preamble == *)
From NextestModel Require Import Base.Str Model.Backoff Model.Clocks Model.UnitTimers Model.AbsTimers
  Model.UnitLife Model.ArmTable Proofs.Timers Proofs.UnitProps Proofs.ArmBridge
  gen.GenPauseTable gen.GenArmTable.
Open Scope N_scope.

(* == block all == *)
(* The bridge: for every state and every request, what the source's arm does is what the model's
   hand-written request handling does -- one-attempt machine (running loops of tests and scripts,
   terminate_child's loop, the leak-drain loop; nothing is read in the synchronous wait and after
   the end), the retry-delay loop, and a unit's whole life. *)
Theorem Arms_bridge_unit :
  forall script cfg s r,
    interp_unit arm_table script cfg s r = Some (lift_u (ucore pause_table cfg s (AReq r))).
Proof. exact arm_bridge_unit. Qed.
Print Assumptions Arms_bridge_unit.

Theorem Arms_bridge_delay :
  forall d r, dwf d -> interp_delay arm_table d r = Some (lift_d (dstep pause_table d (DReq r))).
Proof. exact arm_bridge_delay. Qed.
Print Assumptions Arms_bridge_delay.

(* [lwf] (the delay state's "cancelled" flag is only set together with "done") holds of the initial
   state and is preserved by every step: it holds of every state of every run *)
Theorem Arms_bridge_life :
  forall c s e, lwf s -> lstep_src pause_table arm_table c s e = Some (lstep pause_table c s e).
Proof. exact arm_bridge_life. Qed.
Print Assumptions Arms_bridge_life.

Theorem Arms_life_states_well_formed :
  forall c, lwf (linit c) /\
  forall tbl s e r, lwf s -> lstep tbl c s e = Ok r -> lwf (fst r).
Proof. exact life_states_well_formed. Qed.
Print Assumptions Arms_life_states_well_formed.

(* terminate_child before its loop is [enter_terminate], for a request and for a slow timeout *)
Theorem Arms_bridge_terminate_entry :
  forall cfg s,
    (forall q, entry_model cfg TSignal (run_entry arm_table cfg s TSignal (Some q)) =
               Some (let r := enter_terminate cfg s TSignal (shutdown_method cfg q) in
                     (fst r, map sout_of (snd r)))) /\
    entry_model cfg TTimeout (run_entry arm_table cfg s TTimeout None) =
    Some (let r := enter_terminate cfg s TTimeout (timeout_method cfg) in (fst r, map sout_of (snd r))).
Proof. exact bridge_term_entry. Qed.
Print Assumptions Arms_bridge_terminate_entry.

(* non-vacuity: an arm the translator could not read, and a kill addressed to the leader only, have
   no counterpart in the model -- a table containing one is not bridged *)
Example Arms_leader_kill_is_not_bridged :
  let t := {| a_test := a_test arm_table; a_script := a_script arm_table;
              a_term := {| on_stop := on_stop (a_term arm_table); on_cont := on_cont (a_term arm_table);
                           on_shutdown := [AKill TLeader (SX SigKill); ABreak (BResult TcKilled)];
                           on_cancel := []; on_info := on_info (a_term arm_table) |};
              a_leak := a_leak arm_table; a_delay := a_delay arm_table;
              a_entry_timeout := a_entry_timeout arm_table; a_entry_signal := a_entry_signal arm_table;
              a_term_expiry := a_term_expiry arm_table |} in
  arm_diff_codes pause_table arm_table = [] /\
  arm_diff_codes pause_table t = [[2; 2; 100; 10]].     (* terminate_child, Shutdown, after [Shutdown(INT)] *)
Proof. split; vm_compute; reflexivity. Qed.

(* == block C10 == *)
(* A unit that is running, being terminated, or draining leaked handles takes no action on
   OtherCancel: no signal to anyone, no change of state -- the request is consumed and that is
   all. For every state of every such loop, tests and setup scripts. *)
Theorem C10_source_running_ignores_other_cancel :
  forall script cfg s,
    ph s = PRunning \/ (exists x, ph s = PTerminating x) \/ ph s = PExiting ->
    interp_unit arm_table script cfg s ROtherCancel = Some (Ok (s, [])).
Proof. exact source_other_cancel_ignored. Qed.
Print Assumptions C10_source_running_ignores_other_cancel.

(* ... because those arms are empty in the source *)
Theorem C10_source_other_cancel_arms_empty :
  on_cancel (a_test arm_table) = [] /\ on_cancel (a_script arm_table) = [] /\
  on_cancel (a_term arm_table) = [] /\ on_cancel (a_leak arm_table) = [].
Proof. exact source_other_cancel_arms_empty. Qed.
Print Assumptions C10_source_other_cancel_arms_empty.

(* whereas in the delay between attempts it ends the delay at once *)
Theorem C10_source_other_cancel_ends_delay :
  forall d, dwf d -> d_done d = false ->
    interp_delay arm_table d ROtherCancel =
    Some (Ok ({| d_ck := d_ck d; d_done := true; d_cancelled := true |}, [])).
Proof. exact source_other_cancel_ends_delay. Qed.
Print Assumptions C10_source_other_cancel_ends_delay.

(* == block C11 == *)
(* A shutdown request in a running loop: terminate_child with reason Signal(that request); one
   signal, the one shutdown_terminate_method computes from it, to the whole process GROUP; the unit
   is then in the grace loop with a fresh grace-period sleep, unless the signal was SIGKILL. *)
Theorem C11_source_shutdown_running :
  forall script cfg s q, ph s = PRunning -> reaped s = false ->
  exists s', interp_unit arm_table script cfg s (RShutdown q)
             = Some (Ok (s', [SKill TGroup (shutdown_method cfg q)])) /\
             (is_kill (shutdown_method cfg q) = false -> ph s' = PTerminating TSignal /\
                k_gsl (ck s') = slc_new (grace cfg)) /\
             (is_kill (shutdown_method cfg q) = true -> ph s' = PRunning).
Proof. exact source_shutdown_running. Qed.
Print Assumptions C11_source_shutdown_running.

(* In the grace loop (termination for a timeout or for an earlier signal): SIGKILL to the group, at
   once, and the loop is left. *)
Theorem C11_source_shutdown_grace :
  forall script cfg s x q, ph s = PTerminating x ->
  interp_unit arm_table script cfg s (RShutdown q) = Some (Ok (leave_terminate s x, [SKill TGroup SigKill])).
Proof. exact source_shutdown_grace. Qed.
Print Assumptions C11_source_shutdown_grace.

(* The end of the grace period: SIGKILL to the group. *)
Theorem C11_source_grace_expiry_kills_group :
  forall cfg s x, ph s = PTerminating x ->
  interp_expiry arm_table cfg s x = Some (Ok (leave_terminate s x, [SKill TGroup SigKill])).
Proof. exact source_grace_expiry. Qed.
Print Assumptions C11_source_grace_expiry_kills_group.

(* While leaked handles are drained the child is gone: nothing is done. *)
Theorem C11_source_shutdown_leak_drain :
  forall script cfg s q, ph s = PExiting ->
  interp_unit arm_table script cfg s (RShutdown q) = Some (Ok (s, [])).
Proof. exact source_shutdown_leak. Qed.
Print Assumptions C11_source_shutdown_leak_drain.

(* In the delay between attempts it ends the delay at once. *)
Theorem C11_source_shutdown_ends_delay :
  forall d q, dwf d -> d_done d = false ->
    interp_delay arm_table d (RShutdown q) =
    Some (Ok ({| d_ck := d_ck d; d_done := true; d_cancelled := true |}, [])).
Proof. exact source_shutdown_ends_delay. Qed.
Print Assumptions C11_source_shutdown_ends_delay.

(* Both cancel arms of the retry-delay loop (handle_delay_between_attempts) end the wait: Shutdown(_) and OtherCancel
   -- the request the dispatcher sends to a unit that reports a failed attempt after the run was cancelled, because the
   unit's own shutdown request was consumed while its process was still being run, terminated or drained. No clock
   moves, nothing is sent. Turning either arm into "ignore" falsifies it. *)
Theorem C11_source_delay_cancel_arms :
  forall d r, dwf d -> d_done d = false -> (r = ROtherCancel \/ exists q, r = RShutdown q) ->
    interp_delay arm_table d r =
    Some (Ok ({| d_ck := d_ck d; d_done := true; d_cancelled := true |}, [])).
Proof. exact source_delay_cancel_arms. Qed.
Print Assumptions C11_source_delay_cancel_arms.

(* ... hence a unit that is waiting out a retry delay when the run is shut down leaves the delay at once and asks the
   dispatcher whether the next attempt may start: nextest does not stay alive for the rest of the delay with nothing
   running ("nextest then exits on its own as soon as every running unit has exited or been killed"). *)
Theorem C11_source_delay_cancel_leaves_delay :
  forall c s d r, l_ph s = LDelay d -> dwf d -> d_done d = false ->
    (r = ROtherCancel \/ exists q, r = RShutdown q) ->
    lstep_src pause_table arm_table c s (LU (Req r)) =
    Some (Ok (with_lph s LAwaitRetry, [LRetryStarted (l_k s + 1)])).
Proof. exact source_delay_cancel_leaves_delay. Qed.
Print Assumptions C11_source_delay_cancel_leaves_delay.

(* the same fact of the model (whatever the pause table) *)
Theorem C11_delay_cancel_ends_wait :
  forall tbl c s d r, l_ph s = LDelay d -> d_done d = false ->
    (r = ROtherCancel \/ exists q, r = RShutdown q) ->
    lstep tbl c s (LU (Req r)) = Ok (with_lph s LAwaitRetry, [LRetryStarted (l_k s + 1)]).
Proof. exact model_delay_cancel_leaves_delay. Qed.
Print Assumptions C11_delay_cancel_ends_wait.

(* == block C12 == *)
(* An information request: exactly one response, tagged with the loop the unit is in (running,
   terminating, exiting), nothing else -- no signal, no change of state. *)
Theorem C12_source_info_once :
  forall script cfg s,
    interp_unit arm_table script cfg s RGetInfo =
    Some (Ok (s, match info_tag (ph s) with Some i => [SOut (OInfo i)] | None => [] end)).
Proof. exact source_info_once. Qed.
Print Assumptions C12_source_info_once.

Theorem C12_source_info_once_delay :
  forall d, dwf d -> d_done d = false ->
    interp_delay arm_table d RGetInfo = Some (Ok (d, [SOut (OInfo IDelay)])).
Proof. exact source_info_once_delay. Qed.
Print Assumptions C12_source_info_once_delay.

(* The Stop / Continue arms read by this translator mean what the pause table read by
   harness/src/bin/pause_table.rs means: the theorems of Properties/C12.v about [pause_table] are
   theorems about these arms (SIGTSTP / SIGCONT go to the group, [SKill TGroup]). *)
Theorem C12_source_job_control_is_pause_table :
  forall script cfg s r, r = RStop \/ r = RContinue ->
    interp_unit arm_table script cfg s r = Some (lift_u (ucore pause_table cfg s (AReq r))).
Proof. exact source_job_control_is_pause_table. Qed.
Print Assumptions C12_source_job_control_is_pause_table.

Theorem C12_source_job_control_is_pause_table_delay :
  forall d r, dwf d -> r = RStop \/ r = RContinue ->
    interp_delay arm_table d r = Some (lift_d (dstep pause_table d (DReq r))).
Proof. exact source_job_control_is_pause_table_delay. Qed.
Print Assumptions C12_source_job_control_is_pause_table_delay.

(* == block C09 == *)
(* A slow-timeout termination sends the signal timeout_terminate_method computes to the group ... *)
Theorem C09_source_timeout_signal_to_group :
  forall cfg s, reaped s = false ->
  eres_out (run_entry arm_table cfg s TTimeout None) = Some [SKill TGroup (timeout_method cfg)].
Proof. exact source_timeout_signal_to_group. Qed.
Print Assumptions C09_source_timeout_signal_to_group.

(* ... and the end of its grace period SIGKILL, to the group. *)
Theorem C09_source_timeout_escalation_kills_group :
  forall cfg s, ph s = PTerminating TTimeout ->
  interp_expiry arm_table cfg s TTimeout = Some (Ok (leave_terminate s TTimeout, [SKill TGroup SigKill])).
Proof. exact source_timeout_escalation. Qed.
Print Assumptions C09_source_timeout_escalation_kills_group.
