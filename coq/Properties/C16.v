(* C16 -- Captured output is complete, ordered and attributed to the right attempt.
   Statements only; proofs are in Proofs/Capture.v; the model is Model/Capture.v
   (FusedBufReader / ChildFds / ChildAccumulator polled from the wait loops; the pipe is an
   assumption of the model, see the header of Model/Capture.v). [cap] is CHUNK_SIZE (4096). *)
From NextestModel Require Import Base.Str Model.Capture Proofs.Capture.
Open Scope N_scope.

(* Split capture. For every history of writes, closes, polls (any stream picked by select!, any
   short read), read errors, other loop events and the stop of polling, in any interleaving: if
   the reader of stream s reached EOF ([done] without a recorded read error) then what is stored
   for the attempt is exactly the concatenation, in order, of everything written to s. *)
Theorem C16_complete_in_order :
  forall (cap : N) (evs : list ev) (s : stream),
    r_done (sd_rd (side_of s (srun cap evs sst0))) = true ->
    sd_err (side_of s (srun cap evs sst0)) = false ->
    captured s (srun cap evs sst0) = written s evs.
Proof. exact complete_in_order. Qed.
Print Assumptions C16_complete_in_order.

(* [written] is simply every write, when nothing is written through a closed descriptor *)
Theorem C16_written_is_all_writes :
  forall (s : stream) (evs : list ev), wf_writes true true evs = true -> written s evs = all_writes s evs.
Proof. exact written_all_writes. Qed.
Print Assumptions C16_written_is_all_writes.

(* a read error is recorded only by a failing read of that stream *)
Theorem C16_no_error_without_failed_read :
  forall cap evs s,
    existsb (fun e => match e with EFail s' => stream_eqb s s' | _ => false end) evs = false ->
    sd_err (side_of s (srun cap evs sst0)) = false.
Proof. exact error_free. Qed.
Print Assumptions C16_no_error_without_failed_read.

(* At any moment -- in particular when the leak verdict stops the polling, or after a read error --
   the accumulated bytes are a prefix of what was written: nothing invented, reordered or
   duplicated; the remainder is exactly what is still in the pipe. *)
Theorem C16_prefix_on_leak :
  forall cap evs s, exists rest, written s evs = captured s (srun cap evs sst0) ++ rest.
Proof. exact prefix_on_leak. Qed.
Print Assumptions C16_prefix_on_leak.

Theorem C16_prefix_remainder_is_pipe :
  forall cap evs s,
    written s evs = captured s (srun cap evs sst0) ++ sd_buf (side_of s (srun cap evs sst0)).
Proof. exact prefix_always. Qed.
Print Assumptions C16_prefix_remainder_is_pipe.

(* after the verdict the stored bytes never change, whatever a descendant still writes *)
Theorem C16_frozen_after_verdict :
  forall cap evs1 evs2 s,
    captured s (srun cap (evs1 ++ EStop :: evs2) sst0) = captured s (srun cap evs1 sst0).
Proof. exact frozen_after_verdict. Qed.
Print Assumptions C16_frozen_after_verdict.

(* Liveness of the drain ([detect_fd_leaks] keeps polling until EOF): once every holder of the
   descriptor has exited, |pipe| + 1 further reads of at least one byte each reach EOF, and the
   stored bytes are everything that was written -- a burst written immediately before exit is
   not lost. *)
Theorem C16_drained_after_exit :
  forall cap, 0 < cap -> forall evs s ns,
    let x := side_of s (srun cap evs sst0) in
    sd_open x = false -> sd_stopped x = false -> r_done (sd_rd x) = false ->
    Forall (fun n => 1 <= n) ns -> (length (sd_buf x) < length ns)%nat ->
    let y := side_of s (srun cap (evs ++ map (EPoll s) ns) sst0) in
    r_done (sd_rd y) = true /\
    captured s (srun cap (evs ++ map (EPoll s) ns) sst0) = written s evs /\
    sd_err y = sd_err x.
Proof. exact drained_after_exit. Qed.
Print Assumptions C16_drained_after_exit.

(* The same on every result path, the timeout paths included: whatever tentative result
   [detect_fd_leaks] is handed (none, pass, fail, exec-fail, timeout), once every holder has exited
   its reads -- interleaved over both readers in any order -- reach EOF on a stream after |pipe| + 1
   reads of it, and the stored bytes are everything written. In particular a test killed for a
   timeout with a zero grace period ([child.wait()] awaited without reading) loses nothing of what
   it had written before it died. *)
Theorem C16_drained_on_every_result_path :
  forall cap, 0 < cap -> forall (t : tentative) evs sched s,
    let x := side_of s (srun cap evs sst0) in
    sd_open x = false -> sd_stopped x = false -> r_done (sd_rd x) = false ->
    Forall (fun n => 1 <= n) (polls_for s sched) ->
    (length (sd_buf x) < length (polls_for s sched))%nat ->
    let y := side_of s (srun cap (evs ++ leak_phase t sched) sst0) in
    r_done (sd_rd y) = true /\
    captured s (srun cap (evs ++ leak_phase t sched) sst0) = written s evs /\
    sd_err y = sd_err x.
Proof. exact drained_on_every_path. Qed.
Print Assumptions C16_drained_on_every_result_path.

(* Split mode: what happens to one stream does not depend on the other stream's events nor on
   the other events of the wait loops. *)
Theorem C16_streams_independent :
  forall cap evs evs' s,
    proj_list s evs = proj_list s evs' ->
    side_of s (srun cap evs sst0) = side_of s (srun cap evs' sst0).
Proof. exact streams_independent. Qed.
Print Assumptions C16_streams_independent.

Theorem C16_other_events_irrelevant :
  forall cap evs s,
    side_of s (srun cap (filter (concerns s) evs) sst0) = side_of s (srun cap evs sst0).
Proof. exact other_events_irrelevant. Qed.
Print Assumptions C16_other_events_irrelevant.

(* Combined capture (one pipe for both descriptors): the buffer is a prefix of the bytes in the
   order they were written, all of them once EOF was reached, and that order is an interleaving
   of the two streams that keeps each stream's own order. *)
Theorem C16_combined_order :
  forall cap evs,
    let x := c_side (crun cap evs cst0) in
    let tg := tagged true true evs in
    map snd tg = r_acc (sd_rd x) ++ sd_buf x /\
    (r_done (sd_rd x) = true -> sd_err x = false -> r_acc (sd_rd x) = map snd tg) /\
    (forall s, only s tg = written s evs).
Proof. exact combined_order. Qed.
Print Assumptions C16_combined_order.

(* Attribution: with any number of attempts of any tests running concurrently, their events
   interleaved in any way, the accumulator of attempt k is what attempt k's own events alone
   produce from a fresh accumulator ... *)
Theorem C16_attribution :
  forall cap (evs : list (key * ev)) (k : key),
    gget k (grun cap evs) = srun cap (events_of k evs) sst0.
Proof. exact attribution. Qed.
Print Assumptions C16_attribution.

(* ... hence it holds the bytes attempt k wrote and nothing of any other attempt. *)
Theorem C16_attribution_complete :
  forall cap evs k s,
    r_done (sd_rd (side_of s (gget k (grun cap evs)))) = true ->
    sd_err (side_of s (gget k (grun cap evs))) = false ->
    captured s (gget k (grun cap evs)) = written s (events_of k evs).
Proof. exact attribution_complete. Qed.
Print Assumptions C16_attribution_complete.

Theorem C16_attribution_prefix :
  forall cap evs k s,
    exists rest, written s (events_of k evs) = captured s (gget k (grun cap evs)) ++ rest.
Proof. exact attribution_prefix. Qed.
Print Assumptions C16_attribution_prefix.

(* The reader alone, over any scripted AsyncRead (chunks, Pending, zero-length reads, errors):
   it accumulates a prefix of the data offered before the first zero-length read or error, and
   all of it once it is done and no call failed. *)
Theorem C16_fused_reader_prefix :
  forall cap, 0 < cap -> forall calls s r, r_done r = false ->
    exists d rest, r_acc (snd (fused_trace cap calls s r)) = r_acc r ++ d /\ script_data s = d ++ rest.
Proof. exact fused_prefix. Qed.
Print Assumptions C16_fused_reader_prefix.

Theorem C16_fused_reader_complete :
  forall cap, 0 < cap -> forall calls s,
    let '(tr, r) := fused_trace cap calls s reader0 in
    r_done r = true -> existsb (fun o => snd o) tr = false -> r_acc r = script_data s.
Proof. exact fused_complete. Qed.
Print Assumptions C16_fused_reader_complete.

(* ------------------------------------------------------------------------------------------ *)
(* Non-vacuity witnesses (closed computations; cap = 4 to keep them small). *)

Definition ex_evs : list ev :=
  [ EWrite SOut [1; 2; 3; 4; 5; 6]; EOther; EWrite SErrS [9]; EPoll SErrS 4096; EPoll SOut 4096;
    EWrite SOut [7]; EOther; EClose SErrS; EPoll SOut 2; EPoll SErrS 4096; EPoll SOut 4096;
    EClose SOut; EPoll SOut 4096 ].

(* both readers reach EOF, no error, and both streams are complete: the hypotheses of
   C16_complete_in_order are met by a history with interleaving, capped and short reads *)
Example C16_complete_example :
  let x := srun 4 ex_evs sst0 in
  fds_done x = true /\ sd_err (st_out x) = false /\ sd_err (st_err x) = false /\
  captured SOut x = [1; 2; 3; 4; 5; 6; 7] /\ captured SErrS x = [9] /\
  written SOut ex_evs = [1; 2; 3; 4; 5; 6; 7] /\ wf_writes true true ex_evs = true.
Proof. vm_compute. repeat split; reflexivity. Qed.

(* a descendant keeps stdout open: the verdict stops the polling, the stored bytes are a strict
   prefix, and later writes do not show *)
Example C16_leak_example :
  let evs := [EWrite SOut [1; 2; 3; 4; 5]; EPoll SOut 4096; EClose SErrS; EPoll SErrS 1; EStop;
              EWrite SOut [6]; EPoll SOut 4096] in
  let x := srun 4 evs sst0 in
  fds_done x = false /\ captured SOut x = [1; 2; 3; 4] /\ written SOut evs = [1; 2; 3; 4; 5; 6].
Proof. vm_compute. repeat split; reflexivity. Qed.

(* a read error: done, error recorded, prefix kept *)
Example C16_error_example :
  let evs := [EWrite SOut [1; 2]; EPoll SOut 1; EFail SOut; EPoll SOut 4096] in
  let x := srun 4 evs sst0 in
  r_done (sd_rd (st_out x)) = true /\ sd_err (st_out x) = true /\ captured SOut x = [1].
Proof. vm_compute. repeat split; reflexivity. Qed.

Example C16_combined_example :
  let evs := [EWrite SOut [1; 2]; EWrite SErrS [8]; EPoll SOut 4096; EWrite SOut [3]; EClose SOut;
              EPoll SOut 4096; EWrite SErrS [9]; EClose SErrS; EPoll SOut 4096; EPoll SOut 4096] in
  let x := c_side (crun 4 evs cst0) in
  r_done (sd_rd x) = true /\ sd_err x = false /\ r_acc (sd_rd x) = [1; 2; 8; 3; 9] /\
  only SOut (tagged true true evs) = [1; 2; 3] /\ only SErrS (tagged true true evs) = [8; 9].
Proof. vm_compute. repeat split; reflexivity. Qed.

(* two tests, the first with two attempts, all interleaved *)
Example C16_attribution_example :
  let evs := [((0, 1), EWrite SOut [1]); ((1, 1), EWrite SOut [5]); ((0, 1), EClose SOut);
              ((1, 1), EPoll SOut 4096); ((0, 1), EPoll SOut 4096); ((0, 2), EWrite SOut [2]);
              ((0, 1), EPoll SOut 4096); ((1, 1), EWrite SOut [6]); ((0, 2), EClose SOut);
              ((0, 2), EPoll SOut 4096); ((1, 1), EClose SOut); ((0, 2), EPoll SOut 4096);
              ((1, 1), EPoll SOut 4096); ((1, 1), EPoll SOut 4096)] in
  let g := grun 4 evs in
  captured SOut (gget (0, 1) g) = [1] /\ captured SOut (gget (0, 2) g) = [2] /\
  captured SOut (gget (1, 1) g) = [5; 6] /\
  r_done (sd_rd (st_out (gget (0, 1) g))) = true /\ r_done (sd_rd (st_out (gget (0, 2) g))) = true /\
  r_done (sd_rd (st_out (gget (1, 1) g))) = true.
Proof. vm_compute. repeat split; reflexivity. Qed.

(* the scripted reader: a chunk longer than the buffer is taken in pieces, Pending is skipped, the
   reader is fused after the zero-length read *)
Example C16_fused_example :
  let s := [SChunk [1; 2; 3; 4; 5; 6]; SPending; SChunk [7]; SEof; SChunk [8]] in
  fused_trace 4 5 s reader0 =
  ([(4, false, false); (6, false, false); (7, false, false); (7, true, false); (7, true, false)],
   mkReader true [1; 2; 3; 4; 5; 6; 7]) /\ script_data s = [1; 2; 3; 4; 5; 6; 7].
Proof. vm_compute. split; reflexivity. Qed.

(* ------------------------------------------------------------------------------------------ *)
(* What is shown and stored (Model/CaptureNorm.v: ESC-free text only; the normalisations are
   otherwise compared end to end). The crates nextest uses do not implement exactly the
   documented normal form: known findings F13 and F14. *)
From NextestModel Require Import Model.CaptureNorm Proofs.CaptureNorm.

(* F13: the full statement fails ... *)
Theorem C16_shown_is_documented_refuted : exists s, display_impl s <> display_doc s.
Proof. exists [97; 9; 98; 13; 10]. vm_compute. discriminate. Qed.
Print Assumptions C16_shown_is_documented_refuted.

(* ... exactly on text with a control character other than LF *)
Theorem C16_shown_is_documented_outside_known :
  forall s, known_F13_display s = false -> display_impl s = display_doc s.
Proof. exact display_outside_known. Qed.
Print Assumptions C16_shown_is_documented_outside_known.

(* F13 in the report (TAB and CR are valid XML characters and are removed): the full statement
   fails ... *)
Theorem C16_stored_is_documented_refuted : exists s, junit_impl s <> junit_doc s.
Proof. exists [97; 9; 98]. vm_compute. discriminate. Qed.
Print Assumptions C16_stored_is_documented_refuted.

(* ... and holds outside the listed class *)
Theorem C16_stored_is_documented_outside_known :
  forall s, known_F13_junit s = false -> junit_impl s = junit_doc s.
Proof. exact junit_outside_known. Qed.
Print Assumptions C16_stored_is_documented_outside_known.

(* F14 (repaired): whatever the test printed, the stored text consists of characters that are
   valid in XML 1.0 *)
Theorem C16_stored_is_valid_xml : forall s, xml_text_ok (junit_impl s) = true.
Proof. exact junit_valid. Qed.
Print Assumptions C16_stored_is_valid_xml.

(* before the repair U+FFFE / U+FFFF reached the report (regression witness) *)
Example C16_F14_unfixed_witness :
  xml_text_ok (junit_impl_unfixed [120; 65535; 121]) = false /\ junit_impl [120; 65535; 121] = [120; 121].
Proof. split; vm_compute; reflexivity. Qed.

(* the timeout path with a zero grace period: the test is still writing when the timer fires; SIGKILL
   ([EOther]), every holder dead ([EClose]), [child.wait()] awaited without reading ([EOther]), then
   detect_fd_leaks with the tentative result Timeout: the three bytes left in the pipe are stored *)
Example C16_timeout_path_example :
  let pre := [EWrite SOut [1; 2]; EPoll SOut 4096; EWrite SErrS [7]; EWrite SOut [3; 4; 5];
              EOther; EClose SOut; EClose SErrS; EOther] in
  let sched := [(SErrS, 4096); (SOut, 2); (SOut, 4096); (SErrS, 4096); (SOut, 4096)] in
  let x := srun 4 (pre ++ leak_phase TnTimeout sched) sst0 in
  fds_done x = true /\ captured SOut x = [1; 2; 3; 4; 5] /\ captured SErrS x = [7] /\
  written SOut pre = [1; 2; 3; 4; 5] /\
  (* hypotheses of C16_drained_on_every_result_path for stdout *)
  sd_open (st_out (srun 4 pre sst0)) = false /\ sd_buf (st_out (srun 4 pre sst0)) = [3; 4; 5] /\
  polls_for SOut sched = [2; 4096; 4096] /\
  (* what a drain that is skipped for timed-out units would store: a strict prefix *)
  captured SOut (srun 4 (pre ++ leak_phase_skipping_timeout TnTimeout sched) sst0) = [1; 2] /\
  leak_phase_skipping_timeout TnPass sched = leak_phase TnPass sched.
Proof. vm_compute. repeat split; reflexivity. Qed.
