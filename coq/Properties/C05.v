(* C05 -- Filterset expressions denote the documented sets under the documented precedence.
   Statements only; proofs are in Proofs/Filterset.v, Proofs/FiltersetRoundtrip.v and
   Proofs/FiltersetSpec.v. All statements hold for every regex / glob engine [E], every package
   graph [W], every evaluation context and every syntax oracle [SO]. *)
From NextestModel Require Import Base.Str Model.FiltersetAst Model.Filterset Model.FiltersetParse.
From NextestModel Require Import Proofs.Filterset Proofs.FiltersetRoundtrip Proofs.FiltersetSpec.
Open Scope N_scope.

(* Evaluating the compiled filterset on a test answers exactly membership in the set the
   expression denotes (complement, union, intersection, difference of the predicate sets). *)
Theorem C05_eval_is_membership :
  forall E W dt e q, eval_test E dt (compile E W e) q = true <-> denote E W dt e q.
Proof. exact eval_is_membership. Qed.
Print Assumptions C05_eval_is_membership.

(* ... identically for every spelling of each operator: two expressions that differ only in
   operator spellings compile to the same tree, denote the same set, and evaluate alike on
   tests and on binaries. *)
Theorem C05_spelling_irrelevant :
  forall E W dt e1 e2, normalize_ops e1 = normalize_ops e2 ->
    compile E W e1 = compile E W e2 /\
    (forall q, denote E W dt e1 q <-> denote E W dt e2 q) /\
    (forall q, eval_test E dt (compile E W e1) q = eval_test E dt (compile E W e2) q) /\
    (forall db bq, eval_binary E db (compile E W e1) bq = eval_binary E db (compile E W e2) bq).
Proof. exact spelling_irrelevant. Qed.
Print Assumptions C05_spelling_irrelevant.

(* Kleene soundness of matches_binary (shared with C04): a definite verdict for a binary is the
   verdict of every test in it. [ctx_sound] is the same statement for the default filter. *)
Theorem kleene_sound :
  forall E dt db, ctx_sound dt db ->
  forall e bq v, eval_binary E db e bq = Some v -> forall name, eval_test E dt e (bq, name) = v.
Proof. exact kleene_sound_lemma. Qed.
Print Assumptions kleene_sound.

Theorem kleene_ctx_of_filter : forall E d, ctx_sound (ctx_test E d) (ctx_binary E d).
Proof. exact ctx_of_filter_sound. Qed.
Print Assumptions kleene_ctx_of_filter.

Theorem C05_binary_verdict_is_membership :
  forall E W dt db e bq, ctx_sound dt db ->
    (eval_binary E db (compile E W e) bq = Some true -> forall name, denote E W dt e (bq, name)) /\
    (eval_binary E db (compile E W e) bq = Some false -> forall name, ~ denote E W dt e (bq, name)).
Proof. exact binary_verdict_membership. Qed.
Print Assumptions C05_binary_verdict_is_membership.

(* The documented default matcher of each predicate, on the character-level parser: for every
   text free of metacharacters, test(x) is a contains matcher, kind(x) an equality matcher and
   package / deps / rdeps / binary / binary_id (x) glob matchers. *)
Theorem C05_default_matchers :
  forall SO x, plain_text x = true ->
    parse SO (s_test ++ [40] ++ x ++ [41]) = POk (PSet (STest (MContains x true))) /\
    parse SO (s_kind ++ [40] ++ x ++ [41]) = POk (PSet (SKind (MEqual x true))) /\
    (glob_ok SO x = true ->
     parse SO (s_package ++ [40] ++ x ++ [41]) = POk (PSet (SPackage (MGlob x true))) /\
     parse SO (s_deps ++ [40] ++ x ++ [41]) = POk (PSet (SDeps (MGlob x true))) /\
     parse SO (s_rdeps ++ [40] ++ x ++ [41]) = POk (PSet (SRdeps (MGlob x true))) /\
     parse SO (s_binary ++ [40] ++ x ++ [41]) = POk (PSet (SBinary (MGlob x true))) /\
     parse SO (s_binary_id ++ [40] ++ x ++ [41]) = POk (PSet (SBinaryId (MGlob x true)))).
Proof. exact default_matchers. Qed.
Print Assumptions C05_default_matchers.

(* Precedence, on the character-level parser. [print_min] writes a tree with parentheses only
   where the documented table demands them (not < and,&,- < or,|,+; equal levels associate to
   the left). The parser reads that text back as the same tree with exactly those parentheses,
   which compiles and denotes like the tree itself: so `not` binds tighter than and/&/-, these
   bind tighter than or/|/+, equal levels associate to the left, and parentheses override. *)
Theorem C05_precedence :
  forall SO e, printable SO e = true ->
    parse SO (print_min e) = POk (paren e) /\
    (forall E W, compile E W (paren e) = compile E W e) /\
    (forall E W dt q, denote E W dt (paren e) q <-> denote E W dt e q).
Proof. exact precedence. Qed.
Print Assumptions C05_precedence.

(* ---- non-vacuity and worked instances *)
Definition t_ (c : N) : pexpr := PSet (STest (MContains [c] true)).   (* test(<c>) *)
Definition any_engine : syntax_oracle := mksyn (fun _ => true) (fun _ => RxOk).

(* "test(a) - test(b) & test(c)" is ((a - b) & c): equal levels associate to the left *)
Example ex_left_assoc :
  parse any_engine [116;101;115;116;40;97;41;32;45;32;116;101;115;116;40;98;41;32;38;32;116;101;115;116;40;99;41]
  = POk (PInter AndAmp (PDiff DiffMinus (t_ 97) (t_ 98)) (t_ 99)).
Proof. vm_compute. reflexivity. Qed.

(* "!test(a) + test(b) and test(c)" is ((!a) + (b and c)) *)
Example ex_levels :
  parse any_engine [33;116;101;115;116;40;97;41;32;43;32;116;101;115;116;40;98;41;32;97;110;100;32;116;101;115;116;40;99;41]
  = POk (PUnion OrPlus (PNot NotBang (t_ 97)) (PInter AndLiteral (t_ 98) (t_ 99))).
Proof. vm_compute. reflexivity. Qed.

(* print_min puts parentheses exactly where needed: a & (b | c), and none for (a & b) | c *)
Example ex_print_min_needed :
  print_min (PInter AndAmp (t_ 97) (PUnion OrPipe (t_ 98) (t_ 99)))
  = [116;101;115;116;40;97;41;32;38;32;40;116;101;115;116;40;98;41;32;124;32;116;101;115;116;40;99;41;41].
Proof. vm_compute. reflexivity. Qed.
Example ex_print_min_not_needed :
  print_min (PUnion OrPipe (PInter AndAmp (t_ 97) (t_ 98)) (t_ 99))
  = [116;101;115;116;40;97;41;32;38;32;116;101;115;116;40;98;41;32;124;32;116;101;115;116;40;99;41].
Proof. vm_compute. reflexivity. Qed.

(* a context that satisfies ctx_sound, and a definite binary verdict *)
Example ex_ctx : ctx_sound (fun _ => true) (fun _ => Some true).
Proof. exact ctx_all_sound. Qed.
Example ex_kleene_definite :
  eval_binary (mkengines (fun _ _ => false) (fun _ _ => false)) (fun _ => Some true)
    (CInter (CSet (LKind (MEqual [108;105;98] true))) (CNot (CSet (LTest (MContains [97] true)))))
    (mkbq 0 [] [] [98;105;110] PTarget) = Some false.
Proof. vm_compute. reflexivity. Qed.

(* ---- additions: an independent specification ------------------------------------------------
   [denote] above shares with the evaluator the two definitions a slip would hide in: the matcher
   test [matcher_match] and the argument order of the [w_depends_on] oracle.  [spec_member]
   (Model/Filterset.v, end) is written from site/src/docs/filtersets/reference.md alone:
   equality is [=], contains is "some text before ++ pattern ++ some text after", deps / rdeps are
   stated over the reflexive-transitive closure of a direct-dependency relation [direct] (deps(m):
   the test's crate is a matching crate or one of its possibly transitive dependencies; rdeps(m):
   the test's crate is a matching crate or possibly transitively depends on one).  Only the two
   external engines and the workspace package list are shared.  The oracle table is tied to the
   graph by the explicit hypothesis [graph_ok]: on workspace packages, depends_on a b = true iff
   a = b or a reaches b along [direct].  [query_ok]: the test's package is a workspace package. *)
From Coq Require Import Relations.Relation_Operators.

Theorem C05_eval_is_documented_set :
  forall direct E W dt e q,
    graph_ok direct W -> query_ok W q ->
    (eval_test E dt (compile E W e) q = true <-> spec_member direct E W dt e q).
Proof. exact eval_is_documented_set. Qed.
Print Assumptions C05_eval_is_documented_set.

(* the matcher kinds read independently: `=` is equality of the whole name, `~` is containment *)
Theorem C05_matchers_documented :
  forall E m s, matcher_match E m s = true <->
    match m with
    | MEqual x _ => s = x
    | MContains x _ => exists before after, s = before ++ x ++ after
    | MGlob g _ => glob_match E g s = true
    | MRegex r => regex_match E r s = true
    end.
Proof. exact matcher_match_doc. Qed.
Print Assumptions C05_matchers_documented.

(* The orientation, pinned on a graph a reader can check against the documentation: packages
   a -> b -> c (a depends on b, b depends on c).  IN THE SPECIFICATION deps(=b) is the tests of
   {b, c} and rdeps(=b) the tests of {a, b}; guppy's table for this graph satisfies [graph_ok],
   the same table with its arguments swapped does not; and the model evaluates accordingly. *)
Example C05_chain_spec_deps : forall E dt p,
  spec_member chain_direct E chain_world dt deps_b (chain_q p) <-> p = 1 \/ p = 2.
Proof. exact chain_spec_deps. Qed.

Example C05_chain_spec_rdeps : forall E dt p,
  spec_member chain_direct E chain_world dt rdeps_b (chain_q p) <-> p = 0 \/ p = 1.
Proof. exact chain_spec_rdeps. Qed.

Example C05_chain_graph_ok :
  graph_ok chain_direct chain_world /\ ~ graph_ok chain_direct chain_world_swapped.
Proof. split; [exact chain_graph_ok|exact chain_swapped_not_ok]. Qed.

Definition no_engine : engines := mkengines (fun _ _ => false) (fun _ _ => false).

Example C05_chain_model_agrees :
  map (fun p => eval_test no_engine (fun _ => true) (compile no_engine chain_world deps_b) (chain_q p))
      [0; 1; 2] = [false; true; true]
  /\ map (fun p => eval_test no_engine (fun _ => true) (compile no_engine chain_world rdeps_b) (chain_q p))
         [0; 1; 2] = [true; true; false]
  (* with the swapped table the evaluator gives the mirror image, which the specification
     (C05_chain_spec_deps) contradicts: the theorem's hypothesis is what excludes it *)
  /\ map (fun p => eval_test no_engine (fun _ => true) (compile no_engine chain_world_swapped deps_b) (chain_q p))
         [0; 1; 2] = [true; true; false].
Proof. repeat split; vm_compute; reflexivity. Qed.

(* equality vs contains on the name "xaby": test(=ab) no, test(~ab) yes, test(=xaby) yes *)
Example C05_equal_vs_contains :
  let q : tquery := (mkbq 0 [] [] [] PTarget, [120; 97; 98; 121]) in
  ~ spec_member chain_direct no_engine chain_world (fun _ => true) (PSet (STest (MEqual [97; 98] false))) q
  /\ spec_member chain_direct no_engine chain_world (fun _ => true) (PSet (STest (MContains [97; 98] false))) q
  /\ spec_member chain_direct no_engine chain_world (fun _ => true) (PSet (STest (MEqual [120; 97; 98; 121] false))) q
  /\ eval_test no_engine (fun _ => true) (compile no_engine chain_world (PSet (STest (MEqual [97; 98] false)))) q = false
  /\ eval_test no_engine (fun _ => true) (compile no_engine chain_world (PSet (STest (MContains [97; 98] false)))) q = true.
Proof.
  cbn. repeat split; try discriminate.
  exists [120], [121]. reflexivity.
Qed.
