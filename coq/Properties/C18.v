(* C18 — Setup scripts run iff needed, serially, first; env reaches matching tests only.
   Statements only; proofs are in Proofs/Scripts.v. *)
From NextestModel Require Import Base.Str Model.Scripts Proofs.Scripts.
From Coq Require Import ZArith.
Open Scope N_scope.

(* ---- which scripts are enabled *)

(* A defined script is enabled (returned by SetupScripts::new_with_queries) iff some rule of the
   profile lists it and matches -- by platform and filter, [rule_matches] = CompiledProfileScripts
   ::is_enabled -- at least one selected test. *)
Theorem C18_enabled_iff :
  forall defs rules sel s,
    In s (enabled_ids defs rules sel) <->
    In s defs /\ exists r, In r rules /\ In s (r_setup r) /\
                           exists t, In t sel /\ rule_matches r t = true.
Proof. exact enabled_iff. Qed.
Print Assumptions C18_enabled_iff.

(* The order is the definition order (the enabled scripts are the sub-list of the definitions
   that are needed), without duplicates. *)
Theorem C18_order :
  forall defs rules sel,
    enabled_ids defs rules sel = filter (script_needed rules sel) defs
    /\ subseq (enabled_ids defs rules sel) defs
    /\ (NoDup defs -> NoDup (enabled_ids defs rules sel)).
Proof. exact enabled_order. Qed.
Print Assumptions C18_order.

(* Neither the order of the rules, nor the order in which a rule lists its scripts, nor the
   order or multiplicity of the selected tests, nor the iteration order of the HashMap used by
   new_with_queries has any influence. *)
Theorem C18_order_independent :
  forall defs rules rules' sel sel',
    (forall r, In r rules <-> In r rules') -> (forall t, In t sel <-> In t sel') ->
    enabled_ids defs rules sel = enabled_ids defs rules' sel'.
Proof. exact enabled_ids_ext. Qed.
Print Assumptions C18_order_independent.

Theorem C18_any_hashmap_order :
  forall keys defs rules sel,
    covers_listed keys rules ->
    map ss_id (enabled_with keys defs rules sel) = enabled_ids defs rules sel.
Proof. exact enabled_with_any_order. Qed.
Print Assumptions C18_any_hashmap_order.

(* ---- the run: serial, before the tests *)

(* For every dispatcher (no law needed): the events of a run are the script events followed by
   the test events; the script events are Started/Finished pairs, one script at a time, for a
   sub-sequence (in definition order) of the enabled scripts. *)
Theorem C18_before_tests :
  forall D d0 defs rules sel outs reqs,
    exists evs1 evs2,
      snd (run D d0 defs rules sel outs reqs) = evs1 ++ evs2
      /\ forallb is_script_event evs1 = true
      /\ forallb (fun e => negb (is_script_event e)) evs2 = true
      /\ evs1 = flat_map (script_events outs) (run_scripts_ran D d0 defs rules sel outs).
Proof. exact run_before_tests. Qed.
Print Assumptions C18_before_tests.

Theorem C18_serial_in_definition_order :
  forall D d0 defs rules sel outs,
    subseq (map ss_id (run_scripts_ran D d0 defs rules sel outs)) (enabled_ids defs rules sel).
Proof. exact run_serial. Qed.
Print Assumptions C18_serial_in_definition_order.

(* With a dispatcher that obeys the laws and is live and not cancelled at the beginning, the
   scripts that are executed are exactly the enabled ones up to and including the first that
   does not succeed ... *)
Theorem C18_executed :
  forall D, disp_laws D -> disp_live D ->
  forall d0 defs rules sel outs,
    d_cancelled D d0 = false ->
    run_scripts_ran D d0 defs rules sel outs = executed outs (enabled defs rules sel).
Proof. exact run_executed. Qed.
Print Assumptions C18_executed.

(* ... and if all of them succeed, all of them run, then every requested test starts with the
   variables of the scripts enabled for it. *)
Theorem C18_all_succeed :
  forall D, disp_live D ->
  forall d0 defs rules sel outs reqs,
    d_cancelled D d0 = false ->
    (forall ss, In ss (enabled defs rules sel) -> is_success (script_result outs ss) = true) ->
    snd (run D d0 defs rules sel outs reqs) =
    flat_map (script_events outs) (enabled defs rules sel)
    ++ map (fun t => EvTestStarted t
                       (apply_env (flat_map (env_entry outs) (enabled defs rules sel)) t []))
           reqs.
Proof. exact run_all_succeed. Qed.
Print Assumptions C18_all_succeed.

(* ---- failure *)

(* If a script finishes without success then (for every dispatcher obeying the laws) no test is
   started at all, the exit status is 105, and that script is the last one that ran. *)
Theorem C18_failure :
  forall D, disp_laws D ->
  forall d0 defs rules sel outs reqs s r,
    In (EvScriptFinished s r) (snd (run D d0 defs rules sel outs reqs)) ->
    is_success r = false ->
    (forall t env, ~ In (EvTestStarted t env) (snd (run D d0 defs rules sel outs reqs)))
    /\ d_exit D (fst (run D d0 defs rules sel outs reqs)) = 105%Z
    /\ exists pre ss, run_scripts_ran D d0 defs rules sel outs = pre ++ [ss] /\ ss_id ss = s.
Proof. exact run_failure. Qed.
Print Assumptions C18_failure.

(* In terms of what the scripts do rather than of the trace: if any enabled script's outcome is
   not a success (non-zero exit, timeout, start failure, or -- since the F5 repair -- an
   unreadable / malformed environment file), no test starts and the exit status is 105. *)
Theorem C18_failure_any_script :
  forall D, disp_laws D -> disp_live D ->
  forall d0 defs rules sel outs reqs,
    d_cancelled D d0 = false ->
    (exists ss, In ss (enabled defs rules sel) /\ is_success (script_result outs ss) = false) ->
    (forall t env, ~ In (EvTestStarted t env) (snd (run D d0 defs rules sel outs reqs)))
    /\ d_exit D (fst (run D d0 defs rules sel outs reqs)) = 105%Z.
Proof. exact run_failure_live. Qed.
Print Assumptions C18_failure_any_script.

(* ---- the environment file *)

(* parse_env_file's loop: the file is rejected iff some line is not of the form key=value with
   a key not beginning with NEXTEST; otherwise the result is the key-sorted map binding every
   key to the value of its last line. *)
Theorem C18_parse_env_spec :
  forall ls,
    (parse_env ls = None <-> exists l, In l ls /\ line_ok l = false)
    /\ (forall m, parse_env ls = Some m ->
          env_sorted m /\ forall k, env_lookup k m = last_binding k ls).
Proof. exact parse_env_spec. Qed.
Print Assumptions C18_parse_env_spec.

(* an accepted line: split at the FIRST '=' (the value may contain more), key without the
   reserved prefix; the key may be empty *)
Theorem C18_line_ok :
  forall l, line_ok l = true <->
            exists k v, l = k ++ EQ :: v /\ ~ In EQ k /\ is_prefix NEXTEST k = false.
Proof. exact line_ok_spec. Qed.
Print Assumptions C18_line_ok.

Theorem C18_reserved_key_rejected :
  forall ls k v, In (k ++ EQ :: v) ls -> ~ In EQ k -> is_prefix NEXTEST k = true ->
                 parse_env ls = None.
Proof. exact parse_env_rejects_reserved. Qed.
Print Assumptions C18_reserved_key_rejected.

Theorem C18_line_without_eq_rejected :
  forall ls l, In l ls -> ~ In EQ l -> parse_env ls = None.
Proof. exact parse_env_rejects_no_eq. Qed.
Print Assumptions C18_line_without_eq_rejected.

(* the map is canonical: two sorted maps with the same bindings are equal *)
Theorem C18_env_map_canonical :
  forall m1 m2, env_sorted m1 -> env_sorted m2 ->
                (forall k, env_lookup k m1 = env_lookup k m2) -> m1 = m2.
Proof. exact env_sorted_ext. Qed.
Print Assumptions C18_env_map_canonical.

(* lines: LF-terminated (a final unterminated line counts if non-empty), or CRLF-terminated;
   an empty line rejects the file *)
Theorem C18_lines_lf :
  forall ls last,
    (forall l, In l ls -> ~ In NL l /\ ends_with_cr l = false) -> ~ In NL last ->
    split_lines (concat (map (fun l => l ++ [NL]) ls) ++ last) = ls ++ last_line last.
Proof. exact split_lines_lf. Qed.
Print Assumptions C18_lines_lf.

Theorem C18_lines_crlf :
  forall ls last,
    (forall l, In l ls -> ~ In NL l) -> ~ In NL last ->
    split_lines (concat (map (fun l => l ++ [CR; NL]) ls) ++ last) = ls ++ last_line last.
Proof. exact split_lines_crlf. Qed.
Print Assumptions C18_lines_crlf.

Theorem C18_blank_line_rejected :
  forall pre post, ~ In NL pre -> parse_env_file (pre ++ NL :: NL :: post) = None.
Proof. exact blank_line_rejects_file. Qed.
Print Assumptions C18_blank_line_rejected.

(* ---- which tests receive which variables *)

(* SetupScriptExecuteData::apply: the value of k in the script-provided environment of t is the
   one given by the last script (in run order) that is enabled for t and defines k. *)
Theorem C18_apply_env :
  forall data base t k,
    data_sorted data ->
    env_lookup k (apply_env data t base) =
    match scripted_value data t k with Some v => Some v | None => env_lookup k base end.
Proof. exact apply_env_lookup. Qed.
Print Assumptions C18_apply_env.

(* The data handed to the tests has one entry per script that ran and succeeded, holding the
   parsed content of its environment file ... *)
Theorem C18_run_data :
  forall D d0 defs rules sel outs ss m,
    In (ss, m) (run_data_of D d0 defs rules sel outs) <->
    In ss (run_scripts_ran D d0 defs rules sel outs)
    /\ is_success (o_result (outs (ss_id ss))) = true /\ read_env (outs (ss_id ss)) = Some m.
Proof. exact run_data_entries. Qed.
Print Assumptions C18_run_data.

(* ... and a started test t has k=v in its script-provided environment iff some script that
   succeeded wrote k=v, a rule listing that script matches t, and no later (in run = definition
   order) successful script listed by a rule matching t wrote k. *)
Theorem C18_env_scope :
  forall D d0 defs rules sel outs reqs t env,
    In (EvTestStarted t env) (snd (run D d0 defs rules sel outs reqs)) ->
    forall k v,
      env_lookup k env = Some v <->
      exists pre ss m post,
        run_data_of D d0 defs rules sel outs = pre ++ (ss, m) :: post
        /\ rule_lists_and_matches rules (ss_id ss) t
        /\ env_lookup k m = Some v
        /\ forall ss' m', In (ss', m') post -> rule_lists_and_matches rules (ss_id ss') t ->
                          env_lookup k m' = None.
Proof. exact run_env_scope. Qed.
Print Assumptions C18_env_scope.

(* ---- F5 (repaired): a script whose environment file is unreadable or malformed fails *)

Theorem C18_bad_env_file_fails :
  forall o, is_success (o_result o) = true -> read_env o = None ->
            finish_script o = (RExecFail, None).
Proof. exact finish_script_bad_env. Qed.
Print Assumptions C18_bad_env_file_fails.

(* a script reported as successful never loses a variable *)
Theorem C18_pass_keeps_env :
  forall o r em, finish_script o = (r, em) -> is_success r = true ->
                 r = o_result o /\ exists m, em = Some m /\ read_env o = Some m.
Proof. exact finish_script_pass. Qed.
Print Assumptions C18_pass_keeps_env.

(* success means Pass or Leak (exit 0 with a descendant still holding a captured pipe): the
   variables of a script are kept iff its reported result is a success ... *)
Theorem C18_env_kept_iff_success :
  forall o r em, finish_script o = (r, em) ->
                 ((exists m, em = Some m) <-> (r = RPass \/ r = RLeak)).
Proof. exact finish_script_env_iff_pass_or_leak. Qed.
Print Assumptions C18_env_kept_iff_success.

Theorem C18_leaky_pass_keeps_env :
  forall o m, o_result o = RLeak -> read_env o = Some m -> finish_script o = (RLeak, Some m).
Proof. exact finish_script_leak. Qed.
Print Assumptions C18_leaky_pass_keeps_env.

(* ... and in a run a script that ran contributes its variables to the tests (C18_env_scope) iff
   its result is Pass or Leak. *)
Theorem C18_env_scope_successes :
  forall D d0 defs rules sel outs ss,
    In ss (run_scripts_ran D d0 defs rules sel outs) ->
    ((exists m, In (ss, m) (run_data_of D d0 defs rules sel outs)) <->
     (script_result outs ss = RPass \/ script_result outs ss = RLeak)).
Proof. exact run_data_iff_success. Qed.
Print Assumptions C18_env_scope_successes.

Theorem C18_mini_dispatcher_obeys_laws : disp_laws mini_disp /\ disp_live mini_disp.
Proof. exact (conj mini_laws mini_live). Qed.
Print Assumptions C18_mini_dispatcher_obeys_laws.

(* ------------------------------------------------------------------ closed examples *)

(* three scripts 0,1,2 defined in this order; tests 0 (target) and 1 (host) *)
Definition t0 := mkq 0 false.
Definition t1 := mkq 1 true.
Definition f_only (n : N) : tquery -> bool := fun t => q_id t =? n.
(* rule A: filter = test 0, lists [2; 0]; rule B: target platform mismatch, lists [1];
   rule C: no filter, host-only spec true, lists [1] but only matches host tests *)
Definition rA := mkrule true true true (Some (f_only 0)) [2; 0].
Definition rB := mkrule true true false (Some (f_only 0)) [1].
Definition rC := mkrule true true false None [1].

Example C18_enabled_example :
  enabled_ids [0; 1; 2] [rA; rB] [t0] = [0; 2]           (* definition order, not rule order *)
  /\ enabled_ids [0; 1; 2] [rA; rB; rC] [t0; t1] = [0; 1; 2]
  /\ enabled_ids [0; 1; 2] [rA; rB; rC] [t1] = [1]
  /\ enabled_ids [0; 1; 2] [rA; rB; rC] [] = []
  /\ enabled_ids [0; 1; 2] [] [t0; t1] = [].
Proof. repeat split; vm_compute; reflexivity. Qed.

(* "FOO=bar\nB=a=b\r\n=x\nFOO=baz" *)
Definition file_ok : str :=
  [70;79;79;61;98;97;114;10; 66;61;97;61;98;13;10; 61;120;10; 70;79;79;61;98;97;122].
(* "FOO=bar\nNEXTEST_BAD=1\n" *)
Definition file_reserved : str :=
  [70;79;79;61;98;97;114;10; 78;69;88;84;69;83;84;95;66;65;68;61;49;10].

Example C18_parse_example :
  parse_env_file file_ok
  = Some [ ([], [120]); ([66], [97;61;98]); ([70;79;79], [98;97;122]) ]
  /\ parse_env_file file_reserved = None
  /\ parse_env_file [70;79;79;10] = None            (* no '=' *)
  /\ parse_env_file [65;61;49;10;10] = None         (* blank line *)
  /\ parse_env_file [65;61;49;13] = Some [([65], [49;13])]   (* unterminated CR is kept *)
  /\ parse_env_file [] = Some [].
Proof. repeat split; vm_compute; reflexivity. Qed.

(* a run with the mini dispatcher: scripts 0 and 2 enabled for t0; 0 writes A=1, K=0; 2 writes
   K=2; t1 is matched by no rule listing them *)
Definition outs_ok : sid -> outcome := fun x =>
  if x =? 0 then mkout RPass (Some [65;61;49;10;75;61;48;10])
  else mkout RPass (Some [75;61;50;10]).
Definition d_init := mkmini false 0.

Example C18_run_example :
  snd (run mini_disp d_init [0; 1; 2] [rA; rB] [t0] outs_ok [t1; t0])
  = [EvScriptStarted 0; EvScriptFinished 0 RPass; EvScriptStarted 2; EvScriptFinished 2 RPass;
     EvTestStarted t1 []; EvTestStarted t0 [([65], [49]); ([75], [50])]]
  /\ d_exit mini_disp (fst (run mini_disp d_init [0; 1; 2] [rA; rB] [t0] outs_ok [t1; t0])) = 0%Z.
Proof. split; vm_compute; reflexivity. Qed.

(* script 0 exits 0 but writes a reserved key: since the repair it is an execution failure, script
   2 is not started, no test starts, exit status 105 *)
Definition outs_f5 : sid -> outcome := fun x =>
  if x =? 0 then mkout RPass (Some file_reserved) else mkout RPass (Some [75;61;50;10]).

Example C18_failure_example :
  snd (run mini_disp d_init [0; 1; 2] [rA; rB] [t0] outs_f5 [t1; t0])
  = [EvScriptStarted 0; EvScriptFinished 0 RExecFail]
  /\ d_exit mini_disp (fst (run mini_disp d_init [0; 1; 2] [rA; rB] [t0] outs_f5 [t1; t0])) = 105%Z.
Proof. split; vm_compute; reflexivity. Qed.

(* F5, the behaviour before the repair (regression witness): the same script is reported as a
   pass and loses every variable, FOO=bar included *)
Example C18_F5_unrepaired_witness :
  finish_script_unrepaired (mkout RPass (Some file_reserved)) = (RPass, None)
  /\ finish_script (mkout RPass (Some file_reserved)) = (RExecFail, None)
  /\ finish_script (mkout RPass (Some [70;79;79;61;98;97;114;10]))
     = (RPass, Some [([70;79;79], [98;97;114])]).
Proof. repeat split; vm_compute; reflexivity. Qed.

(* a leaky pass: script 0 is classified Leak; the run goes on and the matched test t0 receives
   its variables, the unmatched t1 does not *)
Definition outs_leak : sid -> outcome := fun x =>
  if x =? 0 then mkout RLeak (Some [65;61;49;10]) else mkout RPass (Some [75;61;50;10]).

Example C18_leaky_pass_example :
  snd (run mini_disp d_init [0; 1; 2] [rA; rB] [t0] outs_leak [t1; t0])
  = [EvScriptStarted 0; EvScriptFinished 0 RLeak; EvScriptStarted 2; EvScriptFinished 2 RPass;
     EvTestStarted t1 []; EvTestStarted t0 [([65], [49]); ([75], [50])]]
  /\ d_exit mini_disp (fst (run mini_disp d_init [0; 1; 2] [rA; rB] [t0] outs_leak [t1; t0])) = 0%Z.
Proof. split; vm_compute; reflexivity. Qed.

Example C18_summarize_example :
  summarize_scripts 2 2 0 1 0 = 1 /\ summarize_scripts 2 1 0 0 0 = 2
  /\ summarize_scripts 2 2 0 0 0 = 0.
Proof. repeat split; vm_compute; reflexivity. Qed.
