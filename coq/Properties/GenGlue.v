(* Statements that tie hand-written model functions to the Rust source text of the GLUE code (DESIGN 11.7, third round):
   the JUnit writer, the displayer's choice of the output setting, the loop of TestSettings::new, the stream
   TestRunnerInner::execute builds, TestList::run_count and the priority queue, the Cancel arm of the dispatcher's run
   loop with broadcast_request, and signal_str. gen/GenGlue.v is regenerated from the working tree by
   harness/src/bin/decisions.rs (spec harness/decisions_glue.json) on every run of the checks wired to it
   (lib/gen_tie.py, family "glue"); Proofs/GlueBridge.v proves the lemmas. Theorem names are <property>_source_<target>;
   lib/gen_tie.py attributes them to the properties by that name. Statements only. [G] is the generated module. *)
From Coq Require Import List NArith ZArith Bool.
From Coq Require Strings.String.
From NextestModel Require Import Proofs.GlueBridge.
Import ListNotations.
Open Scope N_scope.

(* ---- the JUnit writer (C17; C16 for the attribution of captured output) *)

(* C17: MetadataJunit::write_event, TestFinished arm. For every test (first attempt + any number of further ones), every
   pair of store flags and every value the code could produce at its unreachable!() position: whenever the model's
   [convert_test] -- the function C17's report theorems are about -- yields a <testcase>, that element is the one
   assembled from the fragments regenerated from the source: the status built from describe() (success for Success /
   Flaky, the kind of the FIRST attempt's result for an always-failing test), the list the rerun loop iterates over
   (the attempts before the last for a flaky test, those after the first for a failing one) with each rerun's kind, the
   attempt whose output it carries and the flag that governs its stored output (junit_store_failure_output, whatever the
   final outcome), the attempt whose output and time the <testcase> itself carries (the last for success / flaky, the
   first for a failure), and its stored-output flag (the success flag iff that attempt passed). Building the <testcase>
   from the last status, or letting the reruns' storage follow the passing attempt's flag, falsifies it. *)
Theorem C17_source_junit_test_case :
  forall bin name first rest ss sf k tc o,
    MJ.convert_test bin name first rest ss sf = MJ.CCase k tc ->
    tc = gen_testcase bin name ss sf (desc_view first rest) o /\
    G.junit_test_time (desc_view first rest) o = MJ.tc_main_attempt tc.
Proof. exact gen_junit_test_case. Qed.
Print Assumptions C17_source_junit_test_case.

(* C16 "attributed to the right attempt", in the report: the output the <testcase> stores is that of the model's main
   attempt, and each flakyFailure / rerunFailure element stores the output of the attempt the model says it reports. *)
Theorem C16_source_junit_test_case :
  forall bin name first rest ss sf k tc o,
    MJ.convert_test bin name first rest ss sf = MJ.CCase k tc ->
    G.junit_test_output (desc_view first rest) o = MJ.tc_main_attempt tc /\
    map (fun r => G.junit_rerun_output (G.ExecuteStatus_output r)) (G.junit_test_reruns (desc_view first rest) o) =
    map MJ.rr_attempt (MJ.tc_reruns tc).
Proof. exact gen_junit_test_outputs. Qed.
Print Assumptions C16_source_junit_test_case.

(* C17: SetupScriptFinished arm: the script's <testcase> is a success iff ExecutionResult::is_success() (Pass or Leak) and
   otherwise carries the kind of its result; its output is stored iff the flag for that outcome is set. Mapping Leak to
   <error> falsifies it. *)
Theorem C17_source_junit_script_case :
  forall id r ss sf k tc o,
    MJ.convert_script id r ss sf = MJ.CCase k tc ->
    MJ.tc_status tc = status_to_model (G.junit_script_status (result_of_junit r) o) [] /\
    MJ.tc_stored tc = G.junit_script_store ss sf (result_of_junit r).
Proof. exact gen_junit_script_case. Qed.
Print Assumptions C17_source_junit_script_case.

(* non-vacuity: a flaky test (fail, fail, pass) and an always-failing one (timeout, fail) do yield elements *)
Example C17_source_junit_test_case_witness :
  exists k tc, MJ.convert_test [98] [116] (MJ.mk_att (MJ.JFail false false) false)
                 [MJ.mk_att MJ.JTimeout false; MJ.mk_att MJ.JPass false] true false = MJ.CCase k tc
               /\ MJ.tc_main_attempt tc = 3 /\ map MJ.rr_attempt (MJ.tc_reruns tc) = [1; 2].
Proof. eexists. eexists. vm_compute. repeat split. Qed.
Example C17_source_junit_test_case_witness_failure :
  exists k tc, MJ.convert_test [98] [116] (MJ.mk_att MJ.JTimeout false) [MJ.mk_att (MJ.JFail false false) false] true true
               = MJ.CCase k tc
               /\ MJ.tc_main_attempt tc = 1 /\ map MJ.rr_attempt (MJ.tc_reruns tc) = [2].
Proof. eexists. eexists. vm_compute. repeat split. Qed.
Example C17_source_junit_script_case_witness :
  exists k tc, MJ.convert_script [115] MJ.JLeak true false = MJ.CCase k tc /\ MJ.tc_status tc = MJ.TSuccess [].
Proof. eexists. eexists. vm_compute. repeat split. Qed.

(* ---- from the test list to the run count and the priority queue (C01 / C02) *)

(* C01 "exit status zero exactly when every selected test passed" and C02 "every selected test runs once" count against
   initial_run_count. That number is TestList::run_count() = test_count - skip_counts().skipped_tests, and skipped_tests
   is the number of listed tests whose filter match is a Mismatch -- for EVERY reason, Partition included. With
   test_count the number of listed tests (the view [list_view]) the source's run count IS the number of selected tests
   of Model/ExecuteStream.v. Leaving partition mismatches out of the skipped count makes initial_run_count too large
   (an all-passing shard then ends "cancelled", exit 100) and falsifies it. *)
Theorem C01_source_run_count :
  forall ls,
    G.run_count (G.TestList_test_count (list_view ls)) (G.skip_counts_skipped_tests (list_view ls)) = ME.run_count ls.
Proof. exact gen_run_count_is_model. Qed.
Print Assumptions C01_source_run_count.

(* ... and that is the number of selected tests [c_sel] of the protocol configuration the run-level theorems
   (Properties/Run.v, the C02 theorems) are stated for, when the stream is built from the same listed tests *)
Theorem C02_source_run_count :
  forall rt nc ls total scripts grps,
    G.run_count (G.TestList_test_count (list_view ls)) (G.skip_counts_skipped_tests (list_view ls)) =
    N.of_nat (length (MUn.c_sel (MRun.rc_cfg (MRun.mk_rcfg (ME.queue_src rt nc ls) total scripts rt grps)))).
Proof. exact gen_run_count_is_selected. Qed.
Print Assumptions C02_source_run_count.

(* the model's side: a mismatch of any kind is not counted; selected / unselected split the list *)
Theorem C01_run_count_ignores_every_mismatch :
  forall ls l r, ME.l_match l = MFl.Mismatch r -> ME.run_count (l :: ls) = ME.run_count ls.
Proof. exact PE.mismatch_not_counted. Qed.
Print Assumptions C01_run_count_ignores_every_mismatch.

Theorem C02_stream_is_run_configuration :
  forall rt nc ls total scripts grps,
    let c := MRun.rc_cfg (MRun.mk_rcfg (ME.queue_src rt nc ls) total scripts rt grps) in
    MUn.c_sel c = map ME.l_id (ME.selected ls) /\ MUn.c_unsel c = map ME.l_id (ME.unselected ls) /\
    ME.run_count ls = N.of_nat (length (MUn.c_sel c)).
Proof. exact PE.run_count_is_selected. Qed.
Print Assumptions C02_stream_is_run_configuration.

(* C02 "unselected tests never run" needs them to be SEEN: TestPriorityQueue::new keeps every test iter_tests() yields,
   selected or not (they are reported Skipped by the stream, C14_source_execute_filter_stage), also when nothing is
   selected. The queue before its stable sort by priority is the list itself; the sort permutes it. An early return of
   an empty queue makes the request ambiguous (two `Self { tests }` literals: not translated). *)
Theorem C02_source_priority_queue :
  forall ls prof st,
    map G.TestInstanceWithSettings_instance (G.priority_queue_tests (list_view ls) prof st) =
    G.TestList_iter_tests (list_view ls) /\
    length (G.priority_queue_tests (list_view ls) prof st) = length ls.
Proof. intros; split; [apply gen_priority_queue_is_model | apply gen_priority_queue_keeps_all]. Qed.
Print Assumptions C02_source_priority_queue.

Example C01_source_run_count_witness :
  ME.run_count [ME.mk_listed 1 MFl.Matches (MC.RCount 1) None; ME.mk_listed 2 (MFl.Mismatch MFl.MPartition) (MC.RCount 1) None;
                ME.mk_listed 3 (MFl.Mismatch MFl.MDefaultFilter) (MC.RCount 1) None] = 1.
Proof. vm_compute. reflexivity. Qed.

(* ---- the stream TestRunnerInner::execute puts in front of the scheduler (C02 / C14 / C08) *)

(* C02 "unselected tests never run" / C14 (a slot is handed out with the scheduler's context): the filter_map stage in
   front of future_queue_grouped. For every entry of the priority queue: a test whose filter match is a Mismatch makes
   the closure send ExecutorEvent::Skipped and return None -- the scheduler never sees it, so it gets neither a
   FutureQueueContext (slot) nor an attempt --, a matching test is handed on unchanged with no event. This is the
   [SrcUnsel] / [SrcSel] distinction of Model/Run.v's source stream. Dropping the stage (skipped tests then reach the
   scheduler) removes the closure the request names. *)
Theorem C14_source_execute_filter_stage :
  forall rt nc l tok,
    G.execute_filter_stage (entry_view l tok) =
    ((if ME.entry_skipped (ME.stream_entry rt nc l) then [SLs.skipped] else []),
     (match ME.entry_item (ME.stream_entry rt nc l) with Some _ => Some (entry_view l tok) | None => None end)).
Proof. exact gen_execute_filter_stage_is_model. Qed.
Print Assumptions C14_source_execute_filter_stage.

Theorem C02_source_execute_filter_stage :
  forall l tok,
    snd (G.execute_filter_stage (entry_view l tok)) = None <-> ME.is_selected l = false.
Proof.
  intros l tok. rewrite (gen_execute_filter_stage_is_model 1 1 l tok). cbn [snd].
  unfold ME.stream_entry. destruct (ME.is_selected l); cbn [ME.entry_item]; split; intros; congruence.
Qed.
Print Assumptions C02_source_execute_filter_stage.

(* C08 "the sum of their threads-required (each capped at the test-thread count)": the item handed to
   future_queue_grouped for a selected test has weight = ThreadsRequired::compute(test_threads) -- NOT capped by the
   test group's max-threads; capping (and the group accounting) is the queue's, Model/FutureQueue.v -- and the test's own
   group. Pre-capping the weight at the group's max-threads falsifies it. *)
Theorem C08_source_execute_item :
  forall rt nc l it,
    ME.entry_item (ME.stream_entry rt nc l) = Some it ->
    MQ.it_w it = G.execute_weight (tr_of_model (ME.l_threads l)) rt (group_of_model (ME.l_group l)) nc /\
    MQ.it_grp it = G.execute_group (tr_of_model (ME.l_threads l)) rt (group_of_model (ME.l_group l)).
Proof. exact gen_execute_item_is_model. Qed.
Print Assumptions C08_source_execute_item.

Theorem C08_stream_weight_uncapped :
  forall rt nc l it,
    ME.entry_item (ME.stream_entry rt nc l) = Some it ->
    MQ.it_w it = MC.threads_required_weight (ME.l_threads l) rt nc /\ MQ.it_grp it = ME.l_group l /\
    MQ.it_id it = ME.l_id l.
Proof. exact PE.stream_weight_uncapped. Qed.
Print Assumptions C08_stream_weight_uncapped.

Example C08_source_execute_item_witness :
  exists it, ME.entry_item (ME.stream_entry 4 8 (ME.mk_listed 7 MFl.Matches (MC.RCount 3) (Some 1))) = Some it /\
             MQ.it_w it = 3.
Proof. eexists. vm_compute. split; reflexivity. Qed.

(* ---- the dispatcher's run loop (C10; C11 / C12 for the delivery) *)

(* C10 "after cancellation begins ... running units are told": the arm of DispatcherContext::run that acts on
   HandleEventResponse::Cancel(..) makes exactly the broadcast [MD.broadcast_of] names -- the function the run-level
   theorems (C10_cancel_request_reaches_units, Properties/Run.v) use for what the units receive: OtherCancel for
   CancelEvent::Report (a reporter error) and CancelEvent::TestFailure (a test or setup-script failure under fail-fast),
   Signal(Shutdown(req)) for a signal. Dropping the broadcast of the Report arm falsifies it. *)
Theorem C10_source_run_cancel_broadcasts :
  forall c,
    map request_to_model (G.run_cancel_broadcasts c) =
    match MD.broadcast_of (MD.RCancel (cancel_event_to_model c)) with Some b => [b] | None => [] end.
Proof. exact gen_run_cancel_broadcasts_is_model. Qed.
Print Assumptions C10_source_run_cancel_broadcasts.

(* C10 / C11 / C12: broadcast_request returns the number of running units (the setup script, then the tests) whose
   channel took the request, for every set of running units and every pattern of closed channels: it visits EVERY unit
   and skips the closed ones. Stopping at the first closed channel (map_while) gives a smaller count and falsifies it. *)
Theorem C10_source_broadcast_request :
  forall script tests req,
    G.DispatcherContext_broadcast_request (ctx_view script tests) req =
    MBc.delivered_count (MBc.running_units script tests).
Proof. exact gen_broadcast_request_is_model. Qed.
Print Assumptions C10_source_broadcast_request.

(* C12 "stop/continue pauses tests": SIGTSTP / SIGCONT are broadcast through the same function *)
Theorem C12_source_broadcast_request :
  forall script tests req u,
    In u (MBc.running_units script tests) -> MBc.u_open u = true ->
    In (MBc.u_id u) (MBc.delivered (MBc.running_units script tests)) /\
    G.DispatcherContext_broadcast_request (ctx_view script tests) req =
    N.of_nat (length (MBc.delivered (MBc.running_units script tests))).
Proof.
  intros script tests req u Hin Hop. split; [exact (PBc.delivered_every_open_unit _ u Hin Hop)|].
  exact (gen_broadcast_request_is_model script tests req).
Qed.
Print Assumptions C12_source_broadcast_request.

(* the model's side: every open unit gets it, only open units get it, a closed unit does not cut the rest off *)
Theorem C10_broadcast_reaches_every_open_unit :
  forall units u, In u units -> MBc.u_open u = true -> In (MBc.u_id u) (MBc.delivered units).
Proof. exact PBc.delivered_every_open_unit. Qed.
Print Assumptions C10_broadcast_reaches_every_open_unit.

Theorem C10_broadcast_skips_closed_units :
  forall a b, MBc.delivered (a ++ b) = MBc.delivered a ++ MBc.delivered b.
Proof. exact PBc.delivered_app. Qed.
Print Assumptions C10_broadcast_skips_closed_units.

Example C10_source_broadcast_request_witness :
  MBc.delivered (MBc.running_units None [MBc.mk_unit_chan 1 true; MBc.mk_unit_chan 2 false; MBc.mk_unit_chan 3 true]) = [1; 3].
Proof. vm_compute. reflexivity. Qed.

(* ---- the loop of TestSettings::new (C06) *)

(* C06 "per-test settings resolve by the documented precedence, setting by setting": the body of the loop over the
   profile's overrides -- the platform guards, the filter guard and the eleven `if x.is_none() { if let Some(v) =
   override_.data.x { x = Some(..) } }` blocks -- regenerated from the source is, for EVERY setting (priority, threads-
   required, run-extra-args, retries, slow-timeout, leak-timeout, test-group, success-output, failure-output and the two
   junit store flags), [first_wins] with the model's [skips]: a skipped override changes nothing, a considered one fills
   exactly the accumulators that are still empty with its own value of that setting. Treating `priority = 0` as unset
   (the accumulator is then no Option any more: not translated), or skipping an override through a has_unresolved test
   that looks at the wrong field, falsifies it. *)
Theorem C06_source_override_loop_body :
  forall e t st o d acc,
    gen_loop_body (state_of st) (platform_of (MO.t_host t)) (option_map (fun _ => 0) (MO.filter_of o))
      (match MO.filter_of o with Some f => MO.e_filter e f (MO.t_id t) | None => true end) d acc =
    settings_tuple (fun s => first_wins (MO.skips e t (st, o)) (acc s) (d s)).
Proof. exact gen_override_loop_body_is_model. Qed.
Print Assumptions C06_source_override_loop_body.

(* ... and [first_wins] is Model/Overrides.v [step], the function the precedence theorems of C06 fold over the overrides *)
Theorem C06_step_is_first_wins :
  forall e t acc co s,
    MO.step e t acc co s = first_wins (MO.skips e t co) (acc s) (MO.data_get s (MO.ov_data (snd co))).
Proof. exact step_is_first_wins. Qed.
Print Assumptions C06_step_is_first_wins.

Example C06_source_override_loop_body_witness :
  first_wins false (@None N) (Some 0) = Some 0 /\ first_wins false (Some 5) (Some 0) = Some 5 /\
  first_wins true (@None N) (Some 0) = None.
Proof. repeat split. Qed.

(* ---- signal_str (C03) *)

(* C03 "an attempt's reported result reflects what the test process actually did": when a test is killed by signal n,
   nextest prints SIGxxx where xxx = signal_str(n), and the bare number when signal_str gives nothing. Every name the
   source's table gives is the name Linux (x86_64 numbering, Model/SignalNames.v) gives to that number -- for every n,
   named or not. Naming 10 BUS and 12 SYS (they are USR1 and USR2 there; BUS is 7, SYS 31) falsifies it. *)
Theorem C03_source_signal_str :
  forall n s, G.signal_str n = Some s -> MSig.linux_signal_name n = Some s.
Proof. exact gen_signal_str_is_model. Qed.
Print Assumptions C03_source_signal_str.

(* the reference table itself: exactly the standard signals 1..31, pairwise distinct names *)
Theorem C03_signal_table_defined :
  forall n, (exists s, MSig.linux_signal_name n = Some s) <-> (1 <= n <= 31)%Z.
Proof. exact NextestModel.Proofs.SignalNames.linux_signal_name_defined. Qed.
Print Assumptions C03_signal_table_defined.

Theorem C03_signal_table_names_distinct : NoDup (map snd MSig.linux_signal_table).
Proof. exact NextestModel.Proofs.SignalNames.linux_signal_names_distinct. Qed.
Print Assumptions C03_signal_table_names_distinct.

Example C03_source_signal_str_witness :
  G.signal_str 9 = MSig.linux_signal_name 9 /\ G.signal_str 9 <> None /\ G.signal_str 10 = None.
Proof. vm_compute. repeat split. discriminate. Qed.

(* ---- the displayer's choice of the output setting (C06) *)

(* C06: the value forced on the command line / through the environment governs over the per-test resolved one at BOTH
   places the displayer decides whether to show a test's output: a finished test ([EkFinished]: success-output iff the
   last attempt passed) and a failed attempt that will be retried ([EkAttemptWillRetry]: failure-output). The receiver
   of `.is_immediate()` in the TestAttemptFailedWillRetry arm and the `let test_output_display` of the TestFinished arm,
   regenerated from the source, are [MDs.setting_for]. Reading the per-test value directly in the retry arm falsifies it. *)
Theorem C06_source_display_setting :
  forall r u s f,
    display_to_model (G.display_finished_setting (result_of_junit r) u s f) =
    MDs.setting_for (MDs.EkFinished (MJ.jis_success r))
      (option_map display_to_model (G.UnitOutputReporter_force_success_output u))
      (option_map display_to_model (G.UnitOutputReporter_force_failure_output u))
      (display_to_model s) (display_to_model f) /\
    display_to_model (G.display_retry_setting u f) =
    MDs.setting_for MDs.EkAttemptWillRetry
      (option_map display_to_model (G.UnitOutputReporter_force_success_output u))
      (option_map display_to_model (G.UnitOutputReporter_force_failure_output u))
      (display_to_model s) (display_to_model f) /\
    (forall d, G.TestOutputDisplay_is_immediate d = MDs.is_immediate (display_to_model d)).
Proof.
  intros; split; [apply gen_display_finished_setting_is_model | split; [apply gen_display_retry_setting_is_model |
                  apply gen_display_is_immediate_is_model]].
Qed.
Print Assumptions C06_source_display_setting.

(* the model's fact, from the property text: a forced value wins for every event kind *)
Theorem C06_forced_display_setting_wins :
  forall k fs ff s f v,
    (if MDs.governs_success k then fs else ff) = Some v -> MDs.setting_for k fs ff s f = v.
Proof. exact PDs.forced_wins. Qed.
Print Assumptions C06_forced_display_setting_wins.

Example C06_source_display_setting_witness :
  MDs.setting_for MDs.EkAttemptWillRetry None (Some MDs.DNever) MDs.DImmediate MDs.DImmediate = MDs.DNever.
Proof. reflexivity. Qed.

(* ================================================================ fourth round (docs/notes/Gen.md, fourth part) *)

(* ---- the whole of TestFilter::filter_match (C13, C04) *)

(* C13 "shards partition the tests that pass all other filters": TestFilter::filter_match, regenerated from the source
   as a whole -- filter_ignored_mismatch, then ResolvedFilterPatterns::name_match (skip patterns override; SkipOnly with
   patterns answers MatchWithPatterns; Patterns needs a positive match) and filter_expression_match (no filtersets:
   MatchEmptyPatterns; some filterset matches: MatchWithPatterns, none: Mismatch(Expression); then the default-set bound)
   combined with the name reason first, then filter_partition_mismatch, else Matches -- is Model/FilterFull.v's
   [filter_match_full], the function C13's and C04's listing theorems are about, for every filter, partitioner state,
   test name and ignored flag. The answers of the matchers (HashSet::contains, AhoCorasick::is_match,
   Filterset::matches_test, Partitioner::test_matches) are inputs of the generated function; the lemma instantiates them
   with the model's answers ([d]: any value at a position the source does not ask). Letting an arm of the (name,
   expression) match answer Some(Matches), so that the partition stage is skipped, falsifies it. *)
Theorem C13_source_filter_match :
  forall (f : MFF.tfilter) cur name ign tb tn ecx d,
    gfmatch_to_model
      (G.TestFilter_filter_match (filter_view f) tb tn ecx (bound_of_model (MFF.tf_bound f)) ign
         (skip_exact_of d (MFF.tf_pats f) name) (skip_match_of d (MFF.tf_pats f) name)
         (exact_of d (MFF.tf_pats f) name) (pattern_match_of d (MFF.tf_pats f) name)
         (set_matches_of_model (MFF.tf_ets f) name) (MFF.tf_dt f name)
         (partition_matches_of d (MFF.tf_pb f) cur name)) =
    fst (MFF.filter_match_full f cur name ign).
Proof. exact gen_filter_match_is_model. Qed.
Print Assumptions C13_source_filter_match.

(* C04 "a test is selected iff it passes every stage": the same tie, for the stages before the partition: what the
   source answers when no partitioner is configured is [Mismatch r] when the model's first four stages ([pre_full]:
   ignored, name, expression / default set) reject with reason [r], and [Matches] otherwise. (Properties/Gen.v
   C04_source_filter_match ties the stage ORDER with the three sub-stage verdicts as inputs; here the sub-stages are
   translated too.) *)
Theorem C04_glue_source_filter_match :
  forall (f : MFF.tfilter) name ign tb tn ecx d,
    MFF.tf_pb f = None ->
    gfmatch_to_model
      (G.TestFilter_filter_match (filter_view f) tb tn ecx (bound_of_model (MFF.tf_bound f)) ign
         (skip_exact_of d (MFF.tf_pats f) name) (skip_match_of d (MFF.tf_pats f) name)
         (exact_of d (MFF.tf_pats f) name) (pattern_match_of d (MFF.tf_pats f) name)
         (set_matches_of_model (MFF.tf_ets f) name) (MFF.tf_dt f name) d) =
    match MFF.pre_full f name ign with Some r => MFl.Mismatch r | None => MFl.Matches end.
Proof.
  intros f name ign tb tn ecx d Hpb.
  pose proof (gen_filter_match_is_model f 0 name ign tb tn ecx d) as H.
  unfold partition_matches_of in H. rewrite Hpb in H. rewrite H.
  unfold MFF.filter_match_full, MFl.filter_match. rewrite Hpb. destruct (MFF.pre_full f name ign); reflexivity.
Qed.
Print Assumptions C04_glue_source_filter_match.

(* C13, read off the generated function alone (no model): when a partitioner is configured, the source selects nothing
   the partitioner did not accept -- whichever of MatchEmptyPatterns / MatchWithPatterns the name and expression stages
   answered, for every value of every other input. *)
Theorem C13_partition_gates_source_filter_match :
  forall self tb tn ecx bd ign p1 p2 p3 p4 pm pd pp tok,
    G.TestFilter_partitioner self = Some tok ->
    G.TestFilter_filter_match self tb tn ecx bd ign p1 p2 p3 p4 pm pd pp = G.FilterMatch_Matches -> pp = true.
Proof. exact gen_filter_match_needs_partition. Qed.
Print Assumptions C13_partition_gates_source_filter_match.

(* the model's facts, from the property text: a test that passes all other filters is partition-matched whatever kind
   of match accepted it; a rejected test does not reach the partitioner (the counter does not move); two hash shards
   never both select a test *)
Theorem C13_accepted_test_is_partitioned :
  forall f cur name ign b,
    MFF.tf_pb f = Some b ->
    MFl.filter_ignored (MFF.tf_ri f) ign = None ->
    MNF.nm_accepts (MNF.rname_match (MFF.tf_pats f) name) = true ->
    MNF.nm_accepts (MFF.filter_expression_match (MFF.tf_ets f) (MFF.tf_dt f) (MFF.tf_bound f) name) = true ->
    fst (MFF.filter_match_full f cur name ign) =
    if fst (MFl.part_match b cur name) then MFl.Matches else MFl.Mismatch MFl.MPartition.
Proof. exact PFG.accepted_test_is_partitioned. Qed.
Print Assumptions C13_accepted_test_is_partitioned.

Theorem C13_rejected_test_skips_partition :
  forall f cur name ign r,
    MFF.pre_full f name ign = Some r -> MFF.filter_match_full f cur name ign = (MFl.Mismatch r, cur).
Proof. exact PFG.rejected_test_skips_partition. Qed.
Print Assumptions C13_rejected_test_skips_partition.

Theorem C13_hash_shards_disjoint_for_accepted :
  forall f f' cur cur' name ign b b',
    MFF.tf_pb f = Some b -> MFF.tf_pb f' = Some b' ->
    MFl.pb_kind b = MFl.PHash -> MFl.pb_kind b' = MFl.PHash -> MFl.pb_total b = MFl.pb_total b' ->
    MFl.pb_shard b <> MFl.pb_shard b' -> 1 <= MFl.pb_shard b -> 1 <= MFl.pb_shard b' ->
    fst (MFF.filter_match_full f cur name ign) = MFl.Matches ->
    fst (MFF.filter_match_full f' cur' name ign) = MFl.Matches -> False.
Proof. exact PFG.hash_shards_disjoint_for_accepted. Qed.
Print Assumptions C13_hash_shards_disjoint_for_accepted.

(* non-vacuity: with a positional pattern AND a filterset that both match, shard 2 of 2 (count) rejects the first test *)
Example C13_source_filter_match_witness :
  let f := MFF.builder_new MFl.RIDefault (Some {| MFl.pb_kind := MFl.PCount; MFl.pb_shard := 2; MFl.pb_total := 2 |})
             (MNF.Patterns [[97]] [] [] []) [fun _ => true] (fun _ => true) MFF.BAll in
  fst (MFF.filter_match_full f 0 [97] false) = MFl.Mismatch MFl.MPartition /\
  G.TestFilter_filter_match (filter_view f) 0 String.EmptyString 0 G.FilterBound_All false false false false true
    (fun _ => true) true false = G.FilterMatch_Mismatch G.MismatchReason_Partition.
Proof. vm_compute. split; reflexivity. Qed.

(* ---- one line of a setup script's environment file (C18) *)

(* C18 "the environment file is accepted iff every line has '=' and no key before the first '=' begins with NEXTEST":
   one turn of the loop of parse_env_file (runner/script_helpers.rs), from `let Some(line) = line` to the end of the loop
   body, regenerated from the source -- split the line at the first '='; no '=': EnvFileParse; a key that starts with
   "NEXTEST": EnvFileReservedKey; else insert (key, value) -- is Model/EnvFileLine.v's [line_step] on the bytes of the
   line, for every line. Reserving only NEXTEST itself and NEXTEST_... falsifies it (NEXTESTX=1). How the lines are read
   (tokio's Lines) and the BTreeMap stay with C18's differential stage (hook H6). *)
Theorem C18_source_env_file_line :
  forall line, line_result_to_model (G.env_file_line line) = Some (MEL.line_step (bytes_of_string line)).
Proof. exact gen_env_file_line_is_model. Qed.
Print Assumptions C18_source_env_file_line.

(* ... and the loop of Model/Scripts.v, the function C18's environment-file theorems are about, makes exactly the
   regenerated step for every line *)
Theorem C18_loop_source_env_file_line :
  forall line rest acc,
    MSc.parse_lines (bytes_of_string line :: rest) acc =
    match G.env_file_line line with
    | inl (k, v) => MSc.parse_lines rest (MSc.env_insert (bytes_of_string k) (bytes_of_string v) acc)
    | inr _ => None
    end.
Proof. exact gen_env_file_loop_is_model. Qed.
Print Assumptions C18_loop_source_env_file_line.

(* the model's facts, from the property text: one reserved line makes the whole file unacceptable wherever it stands;
   an accepted file has only lines `k=v` whose key does not begin with NEXTEST *)
Theorem C18_reserved_line_rejects_file :
  forall ls1 l ls2, MEL.line_step l = inr MEL.LineReservedKey -> MSc.parse_env (ls1 ++ l :: ls2) = None.
Proof. exact PEL.reserved_line_rejects_file. Qed.
Print Assumptions C18_reserved_line_rejects_file.

Theorem C18_accepted_file_lines :
  forall ls m l, MSc.parse_env ls = Some m -> In l ls ->
                 exists k v, MEL.line_step l = inl (k, v) /\ BS.is_prefix MSc.NEXTEST k = false.
Proof. exact PEL.accepted_file_lines. Qed.
Print Assumptions C18_accepted_file_lines.

(* non-vacuity: NEXTESTX=1 is reserved, NEXT=1 is not, a line without '=' is a parse error -- on the generated step *)
Module C18Lit.
  Import Strings.String.
  Definition reserved : string := "NEXTESTX=1".
  Definition plain : string := "NEXT=1=2".
  Definition plain_key : string := "NEXT".
  Definition plain_value : string := "1=2".
  Definition no_equals : string := "NEXTEST".
End C18Lit.
Example C18_source_env_file_line_witness :
  G.env_file_line C18Lit.reserved = inr G.SetupScriptOutputError_EnvFileReservedKey /\
  G.env_file_line C18Lit.plain = inl (C18Lit.plain_key, C18Lit.plain_value) /\
  G.env_file_line C18Lit.no_equals = inr G.SetupScriptOutputError_EnvFileParse.
Proof. vm_compute. repeat split. Qed.

(* ---- the sections of a unit's captured output (C16) *)

(* C16 "with split capture standard output and standard error are shown as two sections, each when it is non-empty (or
   when empty streams are displayed)": the streams UnitOutputReporter::write_child_output hands to
   write_test_single_output_with_description and the headers it writes with writeln!, in order, each under the condition
   it is written, regenerated from the source, are the streams and the headers of Model/DisplaySections.v's sections --
   for every reporter, every output (a stream is its buffer and whether it is empty) and every triple of headers.
   Folding the two blocks into one loop that stops at the first stream that is not shown (map_while), or nesting the
   stderr block inside the stdout block, falsifies it. What is written INSIDE a section (indentation, highlighting,
   ANSI stripping) stays with C16's differential and real-run stages. *)
Theorem C16_source_display_sections :
  forall u o ho he hc,
    G.display_sections u o = map fst (model_sections u o ho he hc) /\
    G.display_section_headers u o ho he hc = map snd (model_sections u o ho he hc).
Proof. exact gen_display_sections_is_model. Qed.
Print Assumptions C16_source_display_sections.

(* the model's facts, from the property text: standard error is shown on its own account -- a non-empty standard error
   is a section whatever standard output is (missing, empty and skipped, or shown); likewise standard output; an empty
   stream is hidden unless empty streams are displayed; at most two sections, standard output first *)
Theorem C16_nonempty_stderr_shown :
  forall (stream header : Type) (is_empty : stream -> bool) de out e ho he,
    is_empty e = false -> In (e, he) (MSe.split_sections stream header is_empty de out (Some e) ho he).
Proof. exact PSe.nonempty_stderr_shown. Qed.
Print Assumptions C16_nonempty_stderr_shown.

Theorem C16_nonempty_stdout_shown :
  forall (stream header : Type) (is_empty : stream -> bool) de o err ho he,
    is_empty o = false -> In (o, ho) (MSe.split_sections stream header is_empty de (Some o) err ho he).
Proof. exact PSe.nonempty_stdout_shown. Qed.
Print Assumptions C16_nonempty_stdout_shown.

Theorem C16_empty_stream_hidden :
  forall (stream header : Type) (is_empty : stream -> bool) s h,
    is_empty s = true -> MSe.stream_section stream header is_empty false (Some s) h = [].
Proof. exact PSe.empty_stream_hidden. Qed.
Print Assumptions C16_empty_stream_hidden.

Theorem C16_split_sections_order :
  forall (stream header : Type) (is_empty : stream -> bool) de out err ho he,
    exists a b, MSe.split_sections stream header is_empty de out err ho he = a ++ b /\
                (a = [] \/ exists o, out = Some o /\ a = [(o, ho)]) /\
                (b = [] \/ exists e, err = Some e /\ b = [(e, he)]).
Proof. exact PSe.split_order. Qed.
Print Assumptions C16_split_sections_order.

(* ... carried over to the source: a captured, non-empty standard error is handed to the writer whatever standard
   output is *)
Theorem C16_stderr_independent_source_display_sections :
  forall u so e ho he hc,
    G.ChildSingleOutput_is_empty e = false ->
    In e (G.display_sections u (G.ChildOutput_Split (G.mk_ChildSplitOutput so (Some e)))) /\
    In he (G.display_section_headers u (G.ChildOutput_Split (G.mk_ChildSplitOutput so (Some e))) ho he hc).
Proof.
  intros u so e ho he hc H.
  destruct (gen_display_sections_is_model u (G.ChildOutput_Split (G.mk_ChildSplitOutput so (Some e))) ho he hc) as [H1 H2].
  rewrite H1, H2. cbn [model_sections G.ChildSplitOutput_stdout G.ChildSplitOutput_stderr].
  pose proof (PSe.nonempty_stderr_shown _ N G.ChildSingleOutput_is_empty
                (G.UnitOutputReporter_display_empty_outputs u) so e ho he H) as Hin.
  split; [exact (in_map fst _ _ Hin) | exact (in_map snd _ _ Hin)].
Qed.
Print Assumptions C16_stderr_independent_source_display_sections.

(* non-vacuity: empty stdout (skipped), non-empty stderr: exactly the stderr section *)
Example C16_source_display_sections_witness :
  G.display_sections (G.mk_UnitOutputReporter None None false)
    (G.ChildOutput_Split (G.mk_ChildSplitOutput (Some (G.mk_ChildSingleOutput 1 true)) (Some (G.mk_ChildSingleOutput 2 false))))
  = [G.mk_ChildSingleOutput 2 false] /\
  G.display_section_headers (G.mk_UnitOutputReporter None None false)
    (G.ChildOutput_Split (G.mk_ChildSplitOutput (Some (G.mk_ChildSingleOutput 1 true)) (Some (G.mk_ChildSingleOutput 2 false))))
    10 20 30 = [20].
Proof. vm_compute. split; reflexivity. Qed.

(* ---- the order of the environment sources of a test process (C15) *)

(* C15 "nextest's own variables win": the calls TestCommand::new makes on the Command, in order (apply_package_env
   followed; the condition `the package has a build-script output directory` is an input), regenerated from the source:
   every call is one Model/EnvOrder.v knows ([EnvClassify.of_call]: config [env], OUT_DIR and the build script's
   rustc-env are the user's / the build's; NEXTEST*, __NEXTEST*, CARGO_*, apply_ld_dyld_env are nextest's own), every
   user / build source comes before every source of nextest's own, both kinds occur, and the [env] table of the cargo
   configuration is applied first of all (OUT_DIR and the build script's variables win over it). Moving the OUT_DIR /
   rustc-env block after apply_package_env, or before the [env] table, falsifies it. The VALUES written stay with C15's differential stage (hook H5). *)
Theorem C15_source_env_order :
  forall c,
    let sources := map EnvClassify.of_call (G.test_command_env c) in
    MEO.all_classified sources = true /\
    MEO.user_before_nextest sources = true /\
    existsb MEO.is_user sources = true /\
    existsb (fun s => match s with MEO.SrcNextest => true | _ => false end) sources = true /\
    EnvClassify.first_writer (G.test_command_env c) = Some EnvClassify.config_env_call.
Proof. exact gen_env_order_is_model. Qed.
Print Assumptions C15_source_env_order.

(* the model's fact, from the property text (Command::env keeps the last value written): with that order a variable
   nextest provides has nextest's value in the test process although a user / build source wrote it too *)
Theorem C15_nextest_value_wins :
  forall k ws,
    MEO.user_before_nextest (map snd ws) = true ->
    In (k, MEO.SrcNextest) ws ->
    (forall s, In (k, s) ws -> s = MEO.SrcUser \/ s = MEO.SrcNextest) ->
    MEO.winner k ws = Some MEO.SrcNextest.
Proof. exact PEO.nextest_value_wins. Qed.
Print Assumptions C15_nextest_value_wins.

(* ... and the order matters: a build source applied after nextest's own would win *)
Example C15_build_after_nextest_loses :
  MEO.user_before_nextest [MEO.SrcNextest; MEO.SrcUser] = false /\
  MEO.winner 7 [(7, MEO.SrcNextest); (7, MEO.SrcUser)] = Some MEO.SrcUser.
Proof. exact PEO.build_after_nextest_loses. Qed.

(* ==== fifth round (branch agent-glue5): profile inheritance, the libtest-json report's stored output, the leak
   verdict's path, exec_run's early return, SetupScriptExecuteData::apply ==== *)

(* ---- profile inheritance (C06 / C07) *)

(* C06 / C07 "profile-level values come from the selected profile, falling back to the default profile":
   NextestConfigImpl::get_profile, regenerated from the source, for every configuration (its other profile tables, a map
   from names to tables) and every profile name: no table besides the default profile for the name "default" ONLY; the
   table of that name for every other known name (default-miri is a table like every other); an error for an unknown
   name. Answering "no table" for every built-in name falsifies it. *)
Theorem C06_source_get_profile :
  forall cfg name,
    selection_of_result (G.NextestConfigImpl_get_profile cfg name) =
    MPC.custom_table (bytes_of_string name) (tables_to_model (G.NextestConfigImpl_other_profiles cfg)).
Proof. exact gen_get_profile_is_model. Qed.
Print Assumptions C06_source_get_profile.

(* EvaluatableProfile::retries(), regenerated from the source (`self.custom_profile`: the table get_profile selected;
   `self.default_profile.retries`: the default profile's value): the table's value if it sets one, otherwise the default
   profile's -- for every table, every value. *)
Theorem C06_source_profile_accessor_retries :
  forall custom dflt, G.profile_accessor_retries custom dflt = MPC.resolve G.CustomProfileImpl_retries custom dflt.
Proof. exact gen_profile_accessor_retries_is_model. Qed.
Print Assumptions C06_source_profile_accessor_retries.

(* EvaluatableProfile::slow_timeout(), regenerated from the source (`self.custom_profile`: the table get_profile selected;
   `self.default_profile.slow_timeout`: the default profile's value): the table's value if it sets one, otherwise the default
   profile's -- for every table, every value. *)
Theorem C06_source_profile_accessor_slow_timeout :
  forall custom dflt, G.profile_accessor_slow_timeout custom dflt = MPC.resolve G.CustomProfileImpl_slow_timeout custom dflt.
Proof. exact gen_profile_accessor_slow_timeout_is_model. Qed.
Print Assumptions C06_source_profile_accessor_slow_timeout.

(* EvaluatableProfile::leak_timeout(), regenerated from the source (`self.custom_profile`: the table get_profile selected;
   `self.default_profile.leak_timeout`: the default profile's value): the table's value if it sets one, otherwise the default
   profile's -- for every table, every value. *)
Theorem C06_source_profile_accessor_leak_timeout :
  forall custom dflt, G.profile_accessor_leak_timeout custom dflt = MPC.resolve G.CustomProfileImpl_leak_timeout custom dflt.
Proof. exact gen_profile_accessor_leak_timeout_is_model. Qed.
Print Assumptions C06_source_profile_accessor_leak_timeout.

(* EvaluatableProfile::threads_required(), regenerated from the source (`self.custom_profile`: the table get_profile selected;
   `self.default_profile.threads_required`: the default profile's value): the table's value if it sets one, otherwise the default
   profile's -- for every table, every value. *)
Theorem C06_source_profile_accessor_threads_required :
  forall custom dflt, G.profile_accessor_threads_required custom dflt = MPC.resolve G.CustomProfileImpl_threads_required custom dflt.
Proof. exact gen_profile_accessor_threads_required_is_model. Qed.
Print Assumptions C06_source_profile_accessor_threads_required.

(* EvaluatableProfile::test_threads(), regenerated from the source (`self.custom_profile`: the table get_profile selected;
   `self.default_profile.test_threads`: the default profile's value): the table's value if it sets one, otherwise the default
   profile's -- for every table, every value. *)
Theorem C06_source_profile_accessor_test_threads :
  forall custom dflt, G.profile_accessor_test_threads custom dflt = MPC.resolve G.CustomProfileImpl_test_threads custom dflt.
Proof. exact gen_profile_accessor_test_threads_is_model. Qed.
Print Assumptions C06_source_profile_accessor_test_threads.

(* EvaluatableProfile::success_output(), regenerated from the source (`self.custom_profile`: the table get_profile selected;
   `self.default_profile.success_output`: the default profile's value): the table's value if it sets one, otherwise the default
   profile's -- for every table, every value. *)
Theorem C06_source_profile_accessor_success_output :
  forall custom dflt, G.profile_accessor_success_output custom dflt = MPC.resolve G.CustomProfileImpl_success_output custom dflt.
Proof. exact gen_profile_accessor_success_output_is_model. Qed.
Print Assumptions C06_source_profile_accessor_success_output.

(* EvaluatableProfile::failure_output(), regenerated from the source (`self.custom_profile`: the table get_profile selected;
   `self.default_profile.failure_output`: the default profile's value): the table's value if it sets one, otherwise the default
   profile's -- for every table, every value. *)
Theorem C06_source_profile_accessor_failure_output :
  forall custom dflt, G.profile_accessor_failure_output custom dflt = MPC.resolve G.CustomProfileImpl_failure_output custom dflt.
Proof. exact gen_profile_accessor_failure_output_is_model. Qed.
Print Assumptions C06_source_profile_accessor_failure_output.

(* C07 "the retry policy of the selected profile": the two regenerated ends together (what get_profile selects is what
   EvaluatableProfile::retries reads as `self.custom_profile`; the hand-over through EarlyProfile's field is not
   translated) are the model's [effective] value, and therefore: a retry policy set at the level of the selected
   profile wins over the default profile's for EVERY profile name other than "default", built-in names included. *)
Theorem C07_source_profile_retries :
  forall cfg name dflt,
    gen_profile_value G.profile_accessor_retries cfg name dflt =
    MPC.effective G.CustomProfileImpl_retries (bytes_of_string name)
      (tables_to_model (G.NextestConfigImpl_other_profiles cfg)) dflt.
Proof. exact gen_profile_retries_is_model. Qed.
Print Assumptions C07_source_profile_retries.

Theorem C07_selected_wins_source_profile_retries :
  forall cfg name p v dflt,
    bytes_of_string name <> MPC.DEFAULT_NAME ->
    MPC.lookup (bytes_of_string name) (tables_to_model (G.NextestConfigImpl_other_profiles cfg)) = Some p ->
    G.CustomProfileImpl_retries p = Some v ->
    gen_profile_value G.profile_accessor_retries cfg name dflt = Some v.
Proof. exact gen_profile_retries_selected_wins. Qed.
Print Assumptions C07_selected_wins_source_profile_retries.

(* the model's facts, from the property texts: for every setting (polymorphic in the table, the field and the value) *)
Theorem C06_selected_profile_value_wins :
  forall (P V : Type) (field : P -> option V) name tables p v dflt,
    name <> MPC.DEFAULT_NAME -> MPC.lookup name tables = Some p -> field p = Some v ->
    MPC.effective field name tables dflt = Some v.
Proof. exact PPC.selected_value_wins. Qed.
Print Assumptions C06_selected_profile_value_wins.

Theorem C06_default_miri_profile_value_wins :
  forall (P V : Type) (field : P -> option V) tables p v dflt,
    MPC.lookup MPC.DEFAULT_MIRI_NAME tables = Some p -> field p = Some v ->
    MPC.effective field MPC.DEFAULT_MIRI_NAME tables dflt = Some v.
Proof. exact PPC.default_miri_value_wins. Qed.
Print Assumptions C06_default_miri_profile_value_wins.

Theorem C06_unset_profile_value_falls_back :
  forall (P V : Type) (field : P -> option V) name tables p dflt,
    name <> MPC.DEFAULT_NAME -> MPC.lookup name tables = Some p -> field p = None ->
    MPC.effective field name tables dflt = Some dflt.
Proof. exact PPC.unset_value_falls_back. Qed.
Print Assumptions C06_unset_profile_value_falls_back.

Theorem C06_unknown_profile_is_error :
  forall (P V : Type) (field : P -> option V) name tables dflt,
    name <> MPC.DEFAULT_NAME -> MPC.lookup name tables = None -> MPC.effective field name tables dflt = None.
Proof. exact PPC.unknown_profile_is_error. Qed.
Print Assumptions C06_unknown_profile_is_error.

(* non-vacuity: a configuration with a [profile.default-miri] table that sets retries = 5, default profile 0 *)
Module ProfileWitness.
  Import Strings.String.
  Definition table : G.CustomProfileImpl := G.mk_CustomProfileImpl (Some 5) None None None None None None.
  Definition cfg : G.NextestConfigImpl := G.mk_NextestConfigImpl [("default-miri"%string, table)].
  Example miri : gen_profile_value G.profile_accessor_retries cfg "default-miri" 0 = Some 5.
  Proof. vm_compute. reflexivity. Qed.
  Example dflt : gen_profile_value G.profile_accessor_retries cfg "default" 0 = Some 0.
  Proof. vm_compute. reflexivity. Qed.
  Example unknown : gen_profile_value G.profile_accessor_retries cfg "ci" 0 = None.
  Proof. vm_compute. reflexivity. Qed.
  Example slow_falls_back : G.profile_accessor_slow_timeout (Some table) 60 = 60.
  Proof. vm_compute. reflexivity. Qed.
End ProfileWitness.

(* ---- the libtest-json report's stored output (C16) *)

(* C16 "what the test wrote is what is reported", libtest-json report: the predicate of the take_while in
   strip_human_stdout_or_combined, regenerated from the source, for every line and every test name: a line is kept unless
   it is EXACTLY `test <name> ... FAILED` for this test's name. Matching the name as a prefix (so that
   `test <name> - should panic ... FAILED`, or the status line of a test whose name begins with this one, ends the text)
   falsifies it. *)
Theorem C16_source_libtest_closing_line :
  forall line name,
    G.libtest_closing_line line name = negb (MLR.closing_line (bytes_of_string name) (bytes_of_string line)).
Proof. exact gen_libtest_closing_line_is_model. Qed.
Print Assumptions C16_source_libtest_closing_line.

(* ... and the function as a whole (the output seen through "contains the header followed by a newline", its lines, its
   text): the pieces written to the report, in order, are the model's [stored]: for the standard harness the lines after
   the header up to this test's exact status line, each written with the format "{}\n" (followed by an escaped newline);
   otherwise the whole output, written with "{}". The text that is probed for is the header line followed by a newline. *)
Theorem C16_source_libtest_report :
  forall out name,
    map bytes_of_string (G.libtest_report out name) =
    MLR.stored (bytes_of_string name) (G.LibtestOutput_buf_contains_str out)
               (map bytes_of_string (G.LibtestOutput_lines out)) (bytes_of_string (G.LibtestOutput_as_str_lossy out)) /\
    G.libtest_report_formats out name =
    (if G.LibtestOutput_buf_contains_str out then repeat LibtestFmt.line_format (length (G.libtest_report out name))
     else [LibtestFmt.whole_format]) /\
    bytes_of_string G.libtest_header_probe = (MLR.HEADER ++ [10])%list.
Proof. exact gen_libtest_report_is_model. Qed.
Print Assumptions C16_source_libtest_report.

(* the model's facts, from the property text: no line other than the exact closing line ends the stored text ... *)
Theorem C16_libtest_only_exact_closing_line_ends :
  forall name ls, (forall l, In l ls -> l <> MLR.closing_text name) -> MLR.until_closing name ls = ls.
Proof. exact PLR.until_closing_keeps_all. Qed.
Print Assumptions C16_libtest_only_exact_closing_line_ends.

(* ... in particular not the status line of a longer name (`<name> - should panic`, `<name>_more`) or of another test *)
Theorem C16_libtest_longer_name_is_not_closing :
  forall name extra, extra <> [] -> MLR.closing_line name (MLR.closing_text (name ++ extra)) = false.
Proof. exact PLR.longer_name_is_not_closing. Qed.
Print Assumptions C16_libtest_longer_name_is_not_closing.

Theorem C16_libtest_other_name_is_not_closing :
  forall name other, other <> name -> MLR.closing_line name (MLR.closing_text other) = false.
Proof. exact PLR.other_name_is_not_closing. Qed.
Print Assumptions C16_libtest_other_name_is_not_closing.

(* ... and every line the test wrote between the header and its closing line is stored, in order, and nothing else *)
Theorem C16_libtest_lines_between_are_stored :
  forall name pre body post,
    (forall l, In l pre -> l <> MLR.HEADER) ->
    (forall l, In l body -> l <> MLR.closing_text name) ->
    MLR.report_lines name (pre ++ MLR.HEADER :: body ++ MLR.closing_text name :: post) = body.
Proof. exact PLR.report_lines_between. Qed.
Print Assumptions C16_libtest_lines_between_are_stored.

Theorem C16_libtest_unclosed_output_is_stored :
  forall name pre body,
    (forall l, In l pre -> l <> MLR.HEADER) ->
    (forall l, In l body -> l <> MLR.closing_text name) ->
    MLR.report_lines name (pre ++ MLR.HEADER :: body) = body.
Proof. exact PLR.report_lines_unclosed. Qed.
Print Assumptions C16_libtest_unclosed_output_is_stored.

(* non-vacuity, on the generated function: a should-panic test `t` whose output contains libtest's own
   `test t - should panic ... FAILED` line inside the frame: that line is stored, the exact status line ends the text *)
Module LibtestWitness.
  Import Strings.String.
  Local Open Scope string_scope.
  Definition out : G.LibtestOutput :=
    G.mk_LibtestOutput true
      [""; "running 1 test"; "hello"; "test t - should panic ... FAILED"; "test tt ... FAILED"; "more"; "test t ... FAILED"; "failures:"]
      "".
  Example stored : G.libtest_report out "t" = ["hello"; "test t - should panic ... FAILED"; "test tt ... FAILED"; "more"].
  Proof. vm_compute. reflexivity. Qed.
  Example custom_harness : G.libtest_report (G.mk_LibtestOutput false ["x"; "test t ... FAILED"] "whole") "t" = ["whole"].
  Proof. vm_compute. reflexivity. Qed.
End LibtestWitness.

(* ---- what a setup script's environment map writes to a test's command (C18) *)

(* C18 "the environment a setup script defines reaches the tests its rule matches": SetupScriptExecuteData::apply,
   regenerated from the source (whether a script's rule matches the test is the input [enabled]): the (key, value)
   pairs handed to Command::env, in order, are EVERY binding of EVERY script whose rule matches -- for all data, all
   answers of the rules. Skipping a key the command already carries falsifies it (the fragment then no longer reads as a
   plain list of writes). *)
Theorem C18_source_apply_env_unconditional :
  forall maps enabled,
    G.apply_env maps enabled = MAE.env_writes enabled (env_maps_to_model maps) /\
    (forall s m k v,
        In (s, m) maps -> enabled s = true -> In (k, v) (G.SetupScriptEnvMap_env_map m) ->
        In (k, v) (G.apply_env maps enabled)).
Proof.
  intros maps enabled. split; [apply gen_apply_env_is_model|].
  intros s m k v. apply gen_apply_env_writes_every_binding.
Qed.
Print Assumptions C18_source_apply_env_unconditional.

(* the model's facts: Model/Scripts.v [apply_env] -- the function C18_apply_env is stated on -- is every one of these
   writes, in order, as an insertion into the command's variables ... *)
Theorem C18_apply_env_is_every_write :
  forall data t base,
    MSc.apply_env data t base =
    fold_left (fun e kv => MSc.env_insert (fst kv) (snd kv) e)
              (MAE.env_writes (fun ss => MSc.ss_is_enabled ss t) data) base.
Proof. exact PAE.apply_env_is_every_write. Qed.
Print Assumptions C18_apply_env_is_every_write.

(* ... hence a variable a matching script defines has the script's value whatever the command carried for it before *)
Theorem C18_script_value_overrides_base :
  forall data t k v base,
    NextestModel.Proofs.Scripts.data_sorted data -> MSc.scripted_value data t k = Some v ->
    MSc.env_lookup k (MSc.apply_env data t base) = Some v.
Proof. exact PAE.script_value_overrides_base. Qed.
Print Assumptions C18_script_value_overrides_base.

(* ... and nothing of a script whose rule does not match is written *)
Theorem C18_written_binding_has_enabled_script :
  forall (S K V : Type) (enabled : S -> bool) (data : list (S * list (K * V))) kv,
    In kv (MAE.env_writes enabled data) -> exists s m, In (s, m) data /\ enabled s = true /\ In kv m.
Proof. exact PAE.written_binding_has_enabled_script. Qed.
Print Assumptions C18_written_binding_has_enabled_script.

(* non-vacuity: two scripts, the second one's rule does not match *)
Example C18_source_apply_env_witness :
  G.apply_env [(1, G.mk_SetupScriptEnvMap [(10, 11); (12, 13)]); (2, G.mk_SetupScriptEnvMap [(10, 99)])]
              (fun s => N.eqb s 1) = [(10, 11); (12, 13)].
Proof. vm_compute. reflexivity. Qed.

(* ---- the path of the leak verdict (C03) *)

(* C03 "LEAK iff exit code 0 and a handle still open at the leak timeout": in run_test_inner and in
   run_setup_script_inner the `leaked` argument of the create_execution_result call the status is built from,
   regenerated from the source with the `let`s it depends on, is the value detect_fd_leaks(..).await yielded -- that
   value and nothing else (no further test of the process group, the exit status, ...), for both answers. *)
Theorem C03_source_leak_verdict_unchanged :
  forall detected,
    G.run_test_leak_verdict detected = MLV.verdict_of_detection detected /\
    G.run_script_leak_verdict detected = MLV.verdict_of_detection detected.
Proof. exact gen_leak_verdict_unchanged. Qed.
Print Assumptions C03_source_leak_verdict_unchanged.

(* with Model/Classify.v (the function C03's theorems are about) applied to the regenerated argument: LEAK is reported
   iff the attempt ran to exit code 0 with readable output and the detection said a handle was still open *)
Theorem C03_leak_reported_iff_source_leak_verdict_unchanged :
  forall sf to st errs detected,
    MCl.attempt_result sf to st errs (G.run_test_leak_verdict detected) = MCl.Leak <->
    sf = false /\ to = false /\ errs = false /\ st = MCl.Exited 0 /\ detected = true.
Proof.
  intros sf to st errs detected. destruct (gen_leak_verdict_unchanged detected) as [-> _].
  exact (PLV.leak_reported_iff_detected sf to st errs detected).
Qed.
Print Assumptions C03_leak_reported_iff_source_leak_verdict_unchanged.

Theorem C03_pass_reported_iff_not_detected :
  forall sf to st errs detected,
    MLV.attempt_result_detected sf to st errs detected = MCl.Pass <->
    sf = false /\ to = false /\ errs = false /\ st = MCl.Exited 0 /\ detected = false.
Proof. exact PLV.pass_reported_iff_not_detected. Qed.
Print Assumptions C03_pass_reported_iff_not_detected.

Theorem C03_fail_carries_detection :
  forall sf to st errs detected sg lk,
    MLV.attempt_result_detected sf to st errs detected = MCl.Fail sg lk -> lk = detected.
Proof. exact PLV.fail_carries_detection. Qed.
Print Assumptions C03_fail_carries_detection.
