(* The whole life of a unit (attempt 1, failure, retry delay, attempt 2, ...) under stop / continue,
   shutdown, other-cancel and information requests: the per-phase results of C07, C09, C11, C12
   composed along run_test_instance. Statements only; model in Model/UnitLife.v, proofs in
   Proofs/UnitLife.v, certificate for the regenerated pause table in Proofs/UnitLifeCert.v.

   [lsys_run unicast tbl c (lsys0 c) es] runs the unit from the Started handshake over the event
   list es (time, timer expiries, child / pipe events, delivered requests, handshake answers):
   LEnvBad if es is not something the dispatcher can produce ([lenv_ok]), LPanic if the unit fails
   internally, LOk y otherwise, y carrying the unit, what has been delivered to it, and the
   monitor's log: RAttempt k result slow time_taken unstopped / RDelay k delay unstopped running cut. *)
From NextestModel Require Import Base.Str Model.Backoff Model.Clocks Model.UnitTimers Model.AbsTimers
  Model.UnitLife Proofs.Backoff Proofs.Timers Proofs.UnitProps Proofs.DelayProps Proofs.PauseCert Proofs.UnitLife
  Proofs.UnitLifeCert gen.GenPauseTable.
From Coq Require Import MSets.MSetPositive.
Open Scope N_scope.

(* (a) Generic soundness of the life-level certificate: for any pause table, if a set of abstract
   states contains a fresh attempt under every state of the dispatcher's tracker and is closed
   under every event without internal failure, and the three delay-loop arms evaluate as required,
   then no run of the whole life over any event sequence fails internally: every hand-over
   (fresh stopwatch and interval per attempt, fresh sleep per delay, whatever was delivered before,
   backoff iterator never exhausted) lands in a state the next phase's invariant accepts. *)
Theorem UnitLife_certificate_sound :
  forall tbl RS, life_cert_with tbl RS = true -> dcert tbl = true ->
  forall unicast c es, lsys_run unicast tbl c (lsys0 c) es <> LPanic.
Proof. exact cert_sound_generic. Qed.
Print Assumptions UnitLife_certificate_sound.

(* For the table read from the current source. *)
Theorem UnitLife_no_internal_failure :
  forall unicast c es, lsys_run unicast pause_table c (lsys0 c) es <> LPanic.
Proof. exact pt_no_panic. Qed.
Print Assumptions UnitLife_no_internal_failure.

(* (b) C07_not_sooner at life level. A retry delay that was not cut short ended only after its
   sleep had been running for the configured delay; unless the run is in the known class
   ([y_bad]: a phase began, or the leak drain received a Stop, while a Stop was owed its Continue)
   all of that was time in which no Stop was outstanding. *)
Theorem UnitLife_delay_not_sooner :
  forall unicast c es y, lsys_run unicast pause_table c (lsys0 c) es = LOk y ->
  forall k dl un run, In (RDelay k dl un run false) (y_log y) ->
    dl <= run /\ (y_bad y = false -> dl <= un).
Proof. exact pt_delay_not_sooner. Qed.
Print Assumptions UnitLife_delay_not_sooner.

(* ... where "the configured delay" is what it should be: the delay waited after attempt k is the
   k-th delay of the retry policy (Backoff.delays), jittered with that attempt's draw; without
   jitter it is the documented closed form (fixed: the delay; exponential: delay * 2^(k-1), capped). *)
Theorem UnitLife_delay_is_configured :
  forall unicast c es y, lsys_run unicast pause_table c (lsys0 c) es = LOk y ->
  forall k dl un run cut, In (RDelay k dl un run cut) (y_log y) ->
    dl = delay_formula c k /\ 1 <= k <= p_count (lc_policy c) /\
    (p_jitter (lc_policy c) = false -> dl = delay_spec (lc_policy c) (N.to_nat (k - 1))).
Proof. exact pt_delay_is_configured. Qed.
Print Assumptions UnitLife_delay_is_configured.

(* ... and a delay cut short by a Shutdown or OtherCancel is never followed by another attempt. *)
Theorem UnitLife_cut_short_no_retry :
  forall unicast c es y, lsys_run unicast pause_table c (lsys0 c) es = LOk y ->
  forall k dl un run, In (RDelay k dl un run true) (y_log y) ->
    l_k (y_s y) = k /\ lt_cancel (y_t y) = true.
Proof. exact (fun unicast c => cut_short_no_retry unicast pause_table c). Qed.
Print Assumptions UnitLife_cut_short_no_retry.

(* (c) C12_time_excluded at life level: outside the known class every attempt's reported
   time_taken is at most the time that attempt received while no Stop was outstanding. *)
Theorem UnitLife_time_excluded :
  forall unicast c es y, lsys_run unicast pause_table c (lsys0 c) es = LOk y -> y_bad y = false ->
  forall k res sl tt un, In (RAttempt k res sl tt un) (y_log y) -> tt <= un.
Proof. exact pt_time_excluded. Qed.
Print Assumptions UnitLife_time_excluded.

(* (d) C10 / C11 at life level. Once a Shutdown or OtherCancel has been delivered -- in whatever
   phase, consumed and ignored by a running attempt or not -- no further attempt starts ... *)
Theorem UnitLife_nothing_new_after_cancel :
  forall unicast c es1 es2 y1 y2,
  lsys_run unicast pause_table c (lsys0 c) es1 = LOk y1 -> lt_cancel (y_t y1) = true ->
  lsys_run unicast pause_table c y1 es2 = LOk y2 ->
  l_k (y_s y2) = l_k (y_s y1) /\ lt_cancel (y_t y2) = true.
Proof. exact (fun unicast c => no_attempt_after_cancel unicast pause_table c). Qed.
Print Assumptions UnitLife_nothing_new_after_cancel.

(* ... with the dispatcher's repeat of the cancel request (the F10 repair, [unicast = true]) no
   time at all is spent in a retry delay after that delivery ... *)
Theorem UnitLife_no_delay_after_cancel :
  forall c es y, lsys_run true pause_table c (lsys0 c) es = LOk y -> y_dc y = 0.
Proof. exact pt_no_delay_after_cancel. Qed.
Print Assumptions UnitLife_no_delay_after_cancel.

(* ... a cancel request delivered during the delay ends it in that very step, and the handshake
   that follows can only be refused, which ends the unit (without Finished). *)
Theorem UnitLife_cancel_ends_delay :
  forall c s d r, l_ph s = LDelay d -> d_done d = false -> is_cancel_req r = true ->
  lstep pause_table c s (LU (Req r)) = Ok (with_lph s LAwaitRetry, [LRetryStarted (l_k s + 1)]) /\
  (forall unicast t, lt_cancel t = true -> lenv_ok unicast (with_lph s LAwaitRetry) t (LAnswer true) = false) /\
  lstep pause_table c (with_lph s LAwaitRetry) (LAnswer false)
  = Ok (with_lph (with_lph s LAwaitRetry) LRefusedP, []).
Proof. exact pt_cancel_ends_delay. Qed.
Print Assumptions UnitLife_cancel_ends_delay.

(* ... and the unit can always end from there: whatever state it is in when the cancel request has
   been delivered, there is a continuation the environment can produce (the child's exit is
   reported, the leak timeout passes, the repeated OtherCancel is consumed, the handshake is
   refused) after which the unit has ended without a further attempt -- and, for [unicast = true],
   necessarily without any time in a retry delay (the theorem above). *)
Theorem UnitLife_ends_after_cancel :
  forall unicast c es1 y1,
  lsys_run unicast pause_table c (lsys0 c) es1 = LOk y1 -> lt_cancel (y_t y1) = true ->
  exists es2 y2, lsys_run unicast pause_table c y1 es2 = LOk y2 /\ terminal (y_s y2) = true /\
                 l_k (y_s y2) = l_k (y_s y1).
Proof. exact pt_ends_after_cancel. Qed.
Print Assumptions UnitLife_ends_after_cancel.

(* Information requests over the whole life: exactly one response in each of the four wait loops,
   tagged with that loop (running / terminating / exiting / delay), and no change of state. *)
Theorem UnitLife_info_once :
  forall c s,
  (forall u, l_ph s = LAttempt u -> ph u <> PDone) ->
  (forall d, l_ph s = LDelay d -> d_done d = false) ->
  lstep pause_table c s (LU (Req RGetInfo)) =
  Ok (s, match life_info_tag s with Some i => [LO (OInfo i)] | None => [] end).
Proof. exact (life_info_once pause_table). Qed.
Print Assumptions UnitLife_info_once.

(* ---- witnesses *)
Definition ex_cfg : lcfg :=
  {| lc_unit := {| period := 50; terminate_after := None; grace := 7; leak_timeout := 1 |};
     lc_policy := Fixed 2 100 false; lc_js := fun _ => no_jitter_sample |}.

(* non-vacuity: attempt 1 fails after 10, the delay of 100 is stopped for 1000 after 30 of it,
   attempt 2 passes after 5; the log has the delay with 100 of unstopped time, the monitor stays
   outside the known class *)
Example UnitLife_nonvacuous :
  let es := [LAnswer true; LU (Tick 10); LU (ChildExit false); LU FdsDone;
             LU (Tick 30); LU (Req RStop); LU (Tick 1000); LU (Req RGetInfo); LU (Req RContinue);
             LU (Tick 70); LDelayFire; LAnswer true;
             LU (Tick 5); LU (ChildExit true); LU FdsDone] in
  exists y, lsys_run true pause_table ex_cfg (lsys0 ex_cfg) es = LOk y /\
            l_ph (y_s y) = LFinishedP /\ l_k (y_s y) = 2 /\ y_bad y = false /\
            y_log y = [RAttempt 2 UPass false 5 5; RDelay 1 100 100 100 false; RAttempt 1 UFail false 10 10].
Proof. eexists. split; [vm_compute; reflexivity|]. repeat split. Qed.

(* the known class is necessary: a Stop handled by the running loop, then the child (which
   ignored SIGTSTP, or exited in the window before nextest stopped itself) exits with a failure:
   handle_delay_between_attempts creates its sleep running although the run is stopped; the
   Continue finds nothing paused; the delay of 100 has ended after 0 of unstopped time and
   attempt 2 has started *)
Example UnitLife_delay_not_sooner_refuted_in_known_class :
  let es := [LAnswer true; LU (Tick 10); LU (Req RStop); LU (ChildExit false); LU FdsDone;
             LU (Tick 100); LDelayFire; LAnswer true; LU (Req RContinue)] in
  exists y, lsys_run true pause_table ex_cfg (lsys0 ex_cfg) es = LOk y /\
            y_bad y = true /\ l_k (y_s y) = 2 /\
            In (RDelay 1 100 0 100 false) (y_log y).
Proof. eexists. split; [vm_compute; reflexivity|]. repeat split. left. reflexivity. Qed.

(* likewise for the reported time: the next attempt begins while the Stop is still outstanding,
   its fresh stopwatch runs: time_taken 40 of which 0 unstopped *)
Example UnitLife_time_excluded_refuted_in_known_class :
  let es := [LAnswer true; LU (Tick 10); LU (Req RStop); LU (ChildExit false); LU FdsDone;
             LU (Tick 100); LDelayFire; LAnswer true; LU (Tick 40); LU (ChildExit true); LU FdsDone] in
  exists y, lsys_run true pause_table ex_cfg (lsys0 ex_cfg) es = LOk y /\
            y_bad y = true /\ In (RAttempt 2 UPass false 40 0) (y_log y).
Proof. eexists. split; [vm_compute; reflexivity|]. split; [reflexivity|left; reflexivity]. Qed.

(* F10 before the repair ([unicast = false]): OtherCancel consumed (and ignored) by the running
   attempt, the attempt then fails, and the unit sits out the whole delay *)
Example UnitLife_no_delay_after_cancel_refuted_without_unicast :
  let es := [LAnswer true; LU (Req ROtherCancel); LU (Tick 10); LU (ChildExit false); LU FdsDone;
             LU (Tick 100); LDelayFire; LAnswer false] in
  (exists y, lsys_run false pause_table ex_cfg (lsys0 ex_cfg) es = LOk y /\ y_dc y = 100 /\
             l_ph (y_s y) = LRefusedP) /\
  lsys_run true pause_table ex_cfg (lsys0 ex_cfg) es = LEnvBad.
Proof. split; [eexists; split; [vm_compute; reflexivity|split; reflexivity]|vm_compute; reflexivity]. Qed.

(* with the repair: the repeated OtherCancel ends the delay at once; the handshake is refused *)
Example UnitLife_cancel_then_fail_ends_promptly :
  let es := [LAnswer true; LU (Req ROtherCancel); LU (Tick 10); LU (ChildExit false); LU FdsDone;
             LU (Req ROtherCancel); LAnswer false] in
  exists y, lsys_run true pause_table ex_cfg (lsys0 ex_cfg) es = LOk y /\ y_dc y = 0 /\
            l_ph (y_s y) = LRefusedP /\ l_k (y_s y) = 1 /\
            In (RDelay 1 100 0 0 true) (y_log y).
Proof. eexists. split; [vm_compute; reflexivity|]. repeat split. left. reflexivity. Qed.

(* the life certificate is strictly larger than the first-attempt one: a fresh attempt under an
   outstanding Stop is not reachable within a single attempt *)
Example UnitLife_reach_sizes :
  PositiveSet.cardinal life_reach_set = life_reach_size /\
  PositiveSet.mem (code (ainit_t false JStop Sh0)) life_reach_set = true /\
  PositiveSet.mem (code (ainit_t false JStop Sh0)) pause_reach = false.
Proof. repeat split; vm_compute; reflexivity. Qed.
