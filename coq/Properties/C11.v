(* C11 -- Shutdown signals reach every running test, escalate to SIGKILL; nextest exits.
   Statements only (unit side; the dispatcher's broadcast to every registered unit is part of the
   dispatcher model and the end-to-end checks). *)
From NextestModel Require Import Base.Str Model.Clocks Model.UnitTimers Model.AbsTimers Model.UnitMonitor
  Proofs.Timers Proofs.UnitProps Proofs.UnitLive Proofs.UnitHistory Proofs.PauseCert gen.GenPauseTable.
Open Scope N_scope.

(* A shutdown request reaching a running unit whose child has not been reaped sends exactly one
   signal to the process group, [shutdown_method]; unless that is SIGKILL the unit enters the
   terminating loop with a fresh grace-period timer. *)
Theorem C11_signal_forwarded :
  forall tbl cfg s r, ph s = PRunning -> reaped s = false ->
  exists s', ucore tbl cfg s (AReq (RShutdown r)) = Ok (s', [OSignal (shutdown_method cfg r)]) /\
             (is_kill (shutdown_method cfg r) = false -> ph s' = PTerminating TSignal /\
                k_gsl (ck s') = slc_new (grace cfg)) /\
             (is_kill (shutdown_method cfg r) = true -> ph s' = PRunning).
Proof. exact shutdown_running. Qed.
Print Assumptions C11_signal_forwarded.

(* ... and that signal is the same one nextest received (INT, TERM, HUP, QUIT) when the grace
   period is non-zero, SIGKILL when it is zero or for the second signal. *)
Theorem C11_same_signal :
  forall cfg ev, grace cfg <> 0 -> shutdown_method cfg (Once ev) = sig_of_shut ev.
Proof. exact shutdown_method_once. Qed.
Print Assumptions C11_same_signal.

Theorem C11_zero_grace_kills :
  forall cfg r, grace cfg = 0 -> shutdown_method cfg r = SigKill.
Proof. exact shutdown_method_zero_grace. Qed.
Print Assumptions C11_zero_grace_kills.

Theorem C11_second_signal_method : forall cfg, shutdown_method cfg Twice = SigKill.
Proof. exact shutdown_method_twice. Qed.
Print Assumptions C11_second_signal_method.

(* A shutdown request received while the unit is already being terminated (for a timeout or for
   an earlier signal) kills the group at once. *)
Theorem C11_second_signal_kills :
  forall tbl cfg s x r, ph s = PTerminating x ->
  exists s', ucore tbl cfg s (AReq (RShutdown r)) = Ok (s', [OSignal SigKill]) /\ ph s' = PRunning.
Proof. exact shutdown_terminating. Qed.
Print Assumptions C11_second_signal_kills.

(* When the grace period ends without the child having exited: SIGKILL to the group. *)
Theorem C11_grace_kill :
  forall tbl cfg s x, ph s = PTerminating x -> slc_due (k_gsl (ck s)) = true ->
  exists s', ustep tbl cfg s FireGrace = Ok (s', [OSignal SigKill]) /\ ph s' = PRunning /\
             (x = TTimeout -> timed_out s' = true).
Proof. exact grace_expiry. Qed.
Print Assumptions C11_grace_kill.

(* Nextest exits on its own once every unit's process group is dead: from every state a unit can
   reach -- by any event sequence whatsoever, under any pause table, with any clocks paused -- the
   exit of its (killed) child followed by the leak timeout bring it to its final state in at most
   four events, none of them a request from the dispatcher. No reachable state is a dead end. *)
Theorem C11_unit_can_always_finish :
  forall tbl cfg es r,
    urun tbl cfg (uinit cfg) es = Ok r ->
    exists r', urun tbl cfg (fst r) (finishing (fst r)) = Ok r' /\ ph (fst r') = PDone /\ snd r' = [].
Proof. exact reachable_can_finish. Qed.
Print Assumptions C11_unit_can_always_finish.

(* Over whole histories (environment and monitor of Model/UnitMonitor.v, see Properties/C09.v): after
   a forwarded shutdown signal the group is killed by the *end of the grace period* only when at
   least the grace period of unpaused time has passed since the signal was forwarded -- also when
   the signal was sent while nextest was stopped and handled at the resumption, before or after the
   Continue; and never once the child's exit has been observed. *)
Theorem C11_grace_kill_not_before_grace :
  forall cfg es m, cfg_valid cfg -> mrun true pause_table cfg (minit cfg) es = MOk m ->
  forall l, In l (m_log m) -> le_ev l = FireGrace -> le_ph l = PTerminating TSignal ->
  le_out l = OSignal SigKill -> grace cfg <= le_gun l /\ le_exited l = false.
Proof.
  intros cfg es m Hv Hr l Hin He _ Ho. split.
  - exact (kill_not_before_grace pause_table pause_reach pause_cert cfg Hv es m Hr l Hin He Ho).
  - exact (no_signal_after_exit true pause_table cfg es m Hr l SigKill Hin Ho).
Qed.
Print Assumptions C11_grace_kill_not_before_grace.

(* a shutdown signal sent while nextest is stopped, handled before the Continue: the grace period
   starts at the resumption *)
Example C11_shutdown_while_stopped_nonvacuous :
  let cfg := {| period := 50; terminate_after := None; grace := 7; leak_timeout := 1 |} in
  let es := [Tick 3; Req RStop; Tick 30; Req (RShutdown (Once STerm)); Req RContinue; Tick 7; FireGrace;
             ChildExit false; FdsDone] in
  senv_trace senv0 es = true /\
  exists m, mrun true pause_table cfg (minit cfg) es = MOk m /\
    map (fun l => (le_out l, le_gun l)) (rev (m_log m)) =
      [(OSignal SigTstp, 3); (OAck, 3); (OSignal SigTerm, 3); (OSignal SigCont, 0); (OSignal SigKill, 7)] /\
    time_taken (m_u m) = 10.
Proof. split; [reflexivity|]. eexists. split; [vm_compute; reflexivity|]. repeat split. Qed.

Example C11_nonvacuous :
  let cfg := {| period := 50; terminate_after := None; grace := 7; leak_timeout := 1 |} in
  let tbl := {| t_run_stop := []; t_run_cont := []; t_term_stop := []; t_term_cont := [];
                t_delay_stop := []; t_delay_cont := []; t_leak_stop := []; t_leak_cont := [] |} in
  exists s, urun tbl cfg (uinit cfg)
              [Tick 3; Req (RShutdown (Once SHup)); Tick 2; Req (RShutdown Twice); ChildExit false; FdsDone]
            = Ok (s, [OSignal SigHup; OSignal SigKill]) /\ uresult s = UFail.
Proof. eexists. split; [vm_compute; reflexivity|reflexivity]. Qed.
