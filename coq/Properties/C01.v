(* C01 — Exit status is zero exactly when every selected test ultimately passed.
   Statements only; proofs are in Proofs/{Result,Dispatcher,Unit}.v.

   [wf_history c mf dbg h]: the history is one the executor can produce for the configuration [c]
   (Model/Unit.v: the unit protocol, with the handshake answers the dispatcher model gives), for the
   dispatcher created with initial_run_count = |c_sel c|. Every prefix of a well-formed history is
   well-formed, so the statements hold at any point of a run, in particular at its end.
   [shutdown_count h <= 2]: the third shutdown signal panics (C10_third_signal_panics); then there
   is no exit status computed by exec_run at all.
   Ground truth of a history: [final_of h t] = the last status carried by test t's Finished event,
   [script_results h] = the results carried by the SetupScriptFinished events. *)
From Coq Require Import List NArith ZArith Bool.
From NextestModel Require Import Model.Result Model.Dispatcher Model.Unit
     Proofs.Result Proofs.Dispatcher Proofs.Unit.
Import ListNotations.
Open Scope N_scope.

(* RunStats partition, for EVERY history (well-formed or not) that does not panic:
   passed + failed + exec_failed + timed_out = finished_count, flaky / leaky / passed_slow <= passed,
   failed_slow <= failed, and the same partition for setup scripts. (Also used by C17.) *)
Theorem stats_partition :
  forall c0 mf dbg h d,
    final_state (Live (init c0 mf dbg)) h = Live d ->
    let s := d_stats d in
    passed s + failed s + exec_failed s + timed_out s = finished_count s /\
    flaky s <= passed s /\ leaky s <= passed s /\ passed_slow s <= passed s /\
    failed_slow s <= failed s /\
    ss_passed s + ss_failed s + ss_exec_failed s + ss_timed_out s = ss_finished s.
Proof. exact Proofs.Dispatcher.stats_partition. Qed.
Print Assumptions stats_partition.

(* ... and the counters the verdict looks at equal the ground truth of the history *)
Theorem stats_are_ground_truth :
  forall h d d',
    final_state (Live d) h = Live d' ->
    let s := d_stats d in let s' := d_stats d' in
    finished_count s' = finished_count s + tally ev_fin h /\
    failed_count s' = failed_count s + tally ev_fail h /\
    passed s' = passed s + tally ev_pass h /\
    initial_run_count s' = initial_run_count s /\ ss_initial s' = ss_initial s /\
    ss_finished s' = ss_finished s + tally ev_sfin h /\
    failed_setup_script_count s' = failed_setup_script_count s + tally ev_sfail h /\
    skipped s' = skipped s + tally ev_skip h /\
    d_max_fail d' = d_max_fail d /\ d_dbg d' = d_dbg d /\
    (stats_ok s -> stats_ok s').
Proof. exact run_counts. Qed.
Print Assumptions stats_are_ground_truth.

(* The exit status is the one the property demands, computed from ground truth alone. *)
Theorem C01_exit_is_spec :
  forall c mf dbg h p,
    wf_history c mf dbg h = true -> (shutdown_count h <= 2)%nat ->
    run_exit c mf dbg h p = Some (spec_exit c h p).
Proof. exact run_exit_spec. Qed.
Print Assumptions C01_exit_is_spec.

(* Exit status 0 iff every setup script succeeded, every selected test has a Finished whose last
   attempt passed (flaky and leaky passes count), and either something was selected or the
   no-tests policy is pass/warn. *)
Theorem C01_exit_zero_iff :
  forall c mf dbg h p,
    wf_history c mf dbg h = true -> (shutdown_count h <= 2)%nat ->
    (run_exit c mf dbg h p = Some 0%Z <->
     (forall r, In r (script_results h) -> is_success r = true) /\
     (forall t, In t (c_sel c) -> exists a, final_of h t = Some a /\ is_success (a_res a) = true) /\
     (c_sel c <> [] \/ p = Some NtPass \/ p = Some NtWarn)).
Proof. exact exit_zero_iff. Qed.
Print Assumptions C01_exit_zero_iff.

(* The non-zero codes: 105 / 100 / 4 *)
Theorem C01_codes :
  forall c mf dbg h p,
    wf_history c mf dbg h = true -> (shutdown_count h <= 2)%nat ->
    exists code, run_exit c mf dbg h p = Some code /\
      ((exists r, In r (script_results h) /\ is_success r = false) -> code = 105%Z) /\
      ((forall r, In r (script_results h) -> is_success r = true) ->
       (exists t, In t (c_sel c) /\
                  (final_of h t = None \/
                   exists a, final_of h t = Some a /\ is_success (a_res a) = false)) ->
       code = 100%Z) /\
      ((forall r, In r (script_results h) -> is_success r = true) ->
       c_sel c = [] -> (p = None \/ p = Some NtFail) -> code = 4%Z) /\
      ((forall r, In r (script_results h) -> is_success r = true) ->
       (forall t, In t (c_sel c) -> exists a, final_of h t = Some a /\ is_success (a_res a) = true) ->
       (c_sel c <> [] \/ p = Some NtPass \/ p = Some NtWarn) -> code = 0%Z).
Proof. exact exit_codes. Qed.
Print Assumptions C01_codes.

(* Every interleaving is covered: a history is well-formed exactly when the setup-script / gate
   automaton accepts it and, for every test, the events of that test alone (its projection) form a
   trace of that test's unit; no other ordering between different tests' events, signals, input
   and report events is required. Hence the theorems above hold for every OS schedule of the
   per-test tasks. *)
Theorem wf_history_is_any_interleaving :
  forall c mf dbg h, interleaving_of_unit_traces c mf dbg h <-> wf_history c mf dbg h = true.
Proof. exact interleaving_wf. Qed.
Print Assumptions wf_history_is_any_interleaving.

Theorem C01_any_interleaving :
  forall c mf dbg h p,
    interleaving_of_unit_traces c mf dbg h -> (shutdown_count h <= 2)%nat ->
    run_exit c mf dbg h p = Some (spec_exit c h p).
Proof. exact exit_any_interleaving. Qed.
Print Assumptions C01_any_interleaving.

(* ---- additions: "provided reporting itself did not fail" ---------------------------------------
   [run_exit] is the status computed from the statistics; C01_exit_zero_iff above also covers
   histories that contain ReportCancel, where the real process does not reach that computation:
   TestRunner::try_execute returns the reporter's error and exec_run exits with
   WRITE_OUTPUT_ERROR = 110 (Model/RunExit.v has the code path).  [run_exit_real c mf dbg h p rf]:
   the status of the process; [rf]: the reporter callback failed at some event ([report_cancelled
   h], a ReportCancel in the history, implies it). *)
From NextestModel Require Import Model.RunExit Proofs.ReportError.

(* the property as worded: provided reporting did not fail, exit 0 iff every script succeeded and
   every selected test ran to completion with a passing final attempt *)
Theorem C01_exit_zero_iff_reporting_ok :
  forall c mf dbg h p,
    wf_history c mf dbg h = true -> (shutdown_count h <= 2)%nat ->
    report_cancelled h = false ->
    (run_exit_real c mf dbg h p false = Some 0%Z <->
     (forall r, In r (script_results h) -> is_success r = true) /\
     (forall t, In t (c_sel c) -> exists a, final_of h t = Some a /\ is_success (a_res a) = true) /\
     (c_sel c <> [] \/ p = Some NtPass \/ p = Some NtWarn)).
Proof. exact exit_zero_iff_reporting_ok. Qed.
Print Assumptions C01_exit_zero_iff_reporting_ok.

Theorem C01_exit_is_spec_reporting_ok :
  forall c mf dbg h p,
    wf_history c mf dbg h = true -> (shutdown_count h <= 2)%nat ->
    report_cancelled h = false ->
    run_exit_real c mf dbg h p false = Some (spec_exit c h p).
Proof. exact exit_spec_reporting_ok. Qed.
Print Assumptions C01_exit_is_spec_reporting_ok.

(* reporting failed (seen by the dispatcher or not): 110, never 0, whatever the tests did *)
Theorem C01_exit_report_error :
  forall c mf dbg h p rf,
    wf_history c mf dbg h = true -> (shutdown_count h <= 2)%nat ->
    rf = true \/ report_cancelled h = true ->
    run_exit_real c mf dbg h p rf = Some EXIT_WRITE_OUTPUT_ERROR /\
    run_exit_real c mf dbg h p rf <> Some 0%Z.
Proof. exact exit_report_error. Qed.
Print Assumptions C01_exit_report_error.

(* both cases: the process exits 0 iff reporting did not fail and everything selected passed *)
Theorem C01_exit_real_zero_iff :
  forall c mf dbg h p rf,
    wf_history c mf dbg h = true -> (shutdown_count h <= 2)%nat ->
    (run_exit_real c mf dbg h p rf = Some 0%Z <->
     rf = false /\ report_cancelled h = false /\
     (forall r, In r (script_results h) -> is_success r = true) /\
     (forall t, In t (c_sel c) -> exists a, final_of h t = Some a /\ is_success (a_res a) = true) /\
     (c_sel c <> [] \/ p = Some NtPass \/ p = Some NtWarn)).
Proof. exact exit_real_zero_iff. Qed.
Print Assumptions C01_exit_real_zero_iff.

(* the gap in [run_exit]: a well-formed history in which the report error reaches the dispatcher
   after the last test has finished.  Every test passed, so the statistics say Success and run_exit
   is Some 0 (C01_exit_zero_iff applies and says so) -- the real process exits 110. *)
Example C01_run_exit_ignores_report_error :
  wf_history ex_cfg (Some 1) true (ex_pass ++ [ReportCancel]) = true
  /\ run_exit ex_cfg (Some 1) true (ex_pass ++ [ReportCancel]) None = Some 0%Z
  /\ run_exit_real ex_cfg (Some 1) true (ex_pass ++ [ReportCancel]) None false = Some 110%Z
  /\ run_exit_real ex_cfg (Some 1) true ex_pass None true = Some 110%Z
  /\ run_exit_real ex_cfg (Some 1) true ex_pass None false = Some 0%Z
  /\ report_cancelled ex_pass = false.
Proof. repeat split; vm_compute; reflexivity. Qed.

(* a report error in the middle of a run: the dispatcher cancels, the remaining test never starts;
   the statistics alone would give 100, the process exits 110 *)
Example C01_report_error_mid_run :
  let h := [ScriptStarted 0; ScriptFinished 0 Pass; Started 0; ReportCancel; Finished 0 (p_att 1 1)] in
  wf_history ex_cfg None true h = true
  /\ run_exit ex_cfg None true h None = Some 100%Z
  /\ run_exit_real ex_cfg None true h None false = Some 110%Z.
Proof. repeat split; vm_compute; reflexivity. Qed.

(* ---- non-vacuity: well-formed histories exist, with each exit status (vm_compute) ---- *)

Example ex_pass_wf : wf_history ex_cfg (Some 1) true ex_pass = true
                     /\ run_exit ex_cfg (Some 1) true ex_pass None = Some 0%Z.
Proof. split; vm_compute; reflexivity. Qed.

Example ex_fail_fast_wf : wf_history ex_cfg (Some 1) true ex_fail_fast = true
                          /\ run_exit ex_cfg (Some 1) true ex_fail_fast None = Some 100%Z.
Proof. split; vm_compute; reflexivity. Qed.

Example ex_interrupted_wf : wf_history ex_cfg None true ex_interrupted = true
                            /\ run_exit ex_cfg None true ex_interrupted None = Some 100%Z.
Proof. split; vm_compute; reflexivity. Qed.

Example ex_script_fails_wf : wf_history ex_cfg None true ex_script_fails = true
                             /\ run_exit ex_cfg None true ex_script_fails None = Some 105%Z.
Proof. split; vm_compute; reflexivity. Qed.

Example ex_no_tests_wf :
  wf_history ex_cfg_empty None true [Skipped 0] = true
  /\ run_exit ex_cfg_empty None true [Skipped 0] None = Some 4%Z
  /\ run_exit ex_cfg_empty None true [Skipped 0] (Some NtPass) = Some 0%Z
  /\ run_exit ex_cfg_empty None true [Skipped 0] (Some NtWarn) = Some 0%Z
  /\ run_exit ex_cfg_empty None true [Skipped 0] (Some NtFail) = Some 4%Z.
Proof. repeat split; vm_compute; reflexivity. Qed.

(* an ill-formed history (a test finishing twice is not something the executor does) is rejected *)
Example ex_not_wf : wf_history ex_cfg None true (ex_pass ++ [Finished 2 (p_att 1 1)]) = false.
Proof. vm_compute. reflexivity. Qed.

(* the same unit traces in another interleaving (tests 0 and 2 run to completion before test 1
   starts; the stop/continue and the key press come first) *)
Example ex_pass_other_interleaving :
  wf_history ex_cfg (Some 1) true
    [SigStop; SigCont; InputEnter; ScriptStarted 0; ScriptSlow 0 false; ScriptFinished 0 Pass;
     Started 2; Started 0; Finished 2 (l_att 1 1); Finished 0 (p_att 1 1); Skipped 3; Started 1;
     Slow 1 1 3 false; AttemptFailedWillRetry 1 (f_att 1 3); RetryStarted 1 2 3;
     AttemptFailedWillRetry 1 (f_att 2 3); RetryStarted 1 3 3; Finished 1 (p_att 3 3)] = true.
Proof. vm_compute. reflexivity. Qed.
