(* C02 — Every selected test runs once to one final result; unselected tests never run.
   Statements only; proofs are in Proofs/Unit.v. About the dispatcher's emitted stream
   [out (Live (init_for c mf dbg)) h] for every well-formed history [h] (any interleaving of the
   units' protocol traces with signals, report errors and skips that the protocol admits — cancelled
   or not). Process invocations themselves (one per attempt, disjoint in time) are observed end to
   end; the scheduler's "every selected test is eventually started" is C08's (finding F7). *)
From Coq Require Import List NArith ZArith Bool.
From NextestModel Require Import Model.Result Model.Dispatcher Model.Unit
     Proofs.Result Proofs.Dispatcher Proofs.Unit.
Import ListNotations.
Open Scope N_scope.

(* No test is reported started, finished or skipped twice; finished only after started; skipped
   only if unselected; any start-family event only for a selected test. *)
Theorem C02_once :
  forall c mf dbg h,
    wf_history c mf dbg h = true -> (shutdown_count h <= 2)%nat ->
    let o := out (Live (init_for c mf dbg)) h in
    forall t,
      (count_if (is_started_of t) o <= 1)%nat /\
      (count_if (is_finished_of t) o <= 1)%nat /\
      (count_if (is_skipped_of t) o <= 1)%nat /\
      (forall pre e post, o = pre ++ e :: post -> is_finished_of t e = true ->
         exists x, In x pre /\ is_started_of t x = true) /\
      (forall e, In e o -> is_skipped_of t e = true -> In t (c_unsel c) /\ ~ In t (c_sel c)) /\
      (forall e, In e o -> event_tid e = Some t -> is_skipped_of t e = false -> In t (c_sel c)).
Proof. exact once. Qed.
Print Assumptions C02_once.

(* Attempts are consecutive: the events reported for a test are accepted by the per-test automaton
   [ostep] (Started; then for k = 1, 2, ...: TestSlow k*, then TestAttemptFailedWillRetry k with
   k < total followed by TestRetryStarted k+1, or one TestFinished); TestFinished carries attempts
   numbered 1..k with k <= total_attempts; a retry is preceded by the failed attempt before it. *)
Theorem C02_attempts :
  forall c mf dbg h,
    wf_history c mf dbg h = true -> (shutdown_count h <= 2)%nat ->
    let o := out (Live (init_for c mf dbg)) h in
    forall t,
      (exists o', ocheck (c_total c t) t ONone o = Some o') /\
      (forall pre sts s r cs post, o = pre ++ ETestFinished t sts s r cs :: post ->
         numbered_from 1 (st_all sts) = true /\ st_len sts <= c_total c t) /\
      (forall pre e post k, o = pre ++ e :: post -> is_retry_of t (k + 1) e = true ->
         exists x, In x pre /\ is_failed_retry_of t k x = true).
Proof. exact attempts. Qed.
Print Assumptions C02_attempts.

(* duplicate new_test / missing finish_test / the debug assertions on the script slot are
   unreachable: the dispatcher never panics on a well-formed history with fewer than three
   shutdown signals *)
Theorem dispatcher_never_panics_on_wf :
  forall c mf dbg h,
    wf_history c mf dbg h = true -> (shutdown_count h <= 2)%nat ->
    exists d, final_state (Live (init_for c mf dbg)) h = Live d.
Proof. exact never_panics_on_wf. Qed.
Print Assumptions dispatcher_never_panics_on_wf.

(* ... while ill-formed ones do make it panic (so the hypothesis is not idle) *)
Example ex_duplicate_start_panics :
  final_state (Live (init 2 None true)) [Started 0; Started 0] = Panicked.
Proof. vm_compute. reflexivity. Qed.

Example ex_finish_without_start_panics :
  final_state (Live (init 2 None true)) [Finished 0 (p_att 1 1)] = Panicked.
Proof. vm_compute. reflexivity. Qed.

(* non-vacuity: the per-test projection of a well-formed run with retries *)
Example ex_pass_wf : wf_history ex_cfg (Some 1) true ex_pass = true.
Proof. vm_compute. reflexivity. Qed.

Example ex_pass_stream_of_test1 :
  ocheck 3 1 ONone (out (Live (init_for ex_cfg (Some 1) true)) ex_pass) = Some ODone
  /\ count_if (is_started_of 1) (out (Live (init_for ex_cfg (Some 1) true)) ex_pass) = 1%nat
  /\ count_if (is_finished_of 1) (out (Live (init_for ex_cfg (Some 1) true)) ex_pass) = 1%nat
  /\ count_if (is_skipped_of 3) (out (Live (init_for ex_cfg (Some 1) true)) ex_pass) = 1%nat.
Proof. repeat split; vm_compute; reflexivity. Qed.

(* a cancelled run: test 1's retry is refused, so it is reported started but never finished *)
Example ex_fail_fast_stream :
  wf_history ex_cfg (Some 1) true ex_fail_fast = true
  /\ ocheck 3 1 ONone (out (Live (init_for ex_cfg (Some 1) true)) ex_fail_fast) = Some (OWait 1)
  /\ count_if (is_started_of 2) (out (Live (init_for ex_cfg (Some 1) true)) ex_fail_fast) = 0%nat.
Proof. repeat split; vm_compute; reflexivity. Qed.
