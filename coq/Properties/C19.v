(* C19 -- Archives round-trip faithfully, are created atomically, and extract safely.
   Statements only; proofs are in Proofs/Archive.v. *)
From NextestModel Require Import Base.Str Model.Archive Proofs.Archive.
Open Scope N_scope.

(* The explicit-stack loop of append_path_recursive (fuel = size of the tree, never exhausted)
   visits exactly what the structural recursion visits, in the same order (last directory entry
   first). *)
Theorem C19_walk_is_structural :
  forall d p t, collect d p t = collect_rec d p t.
Proof. exact collect_eq_rec. Qed.
Print Assumptions C19_walk_is_structural.

(* What `depth` means: the files (and symlinks) handed to append_file are exactly the leaves of the
   tree that lie under at most d directories, the root included -- i.e. with fewer than d enclosing
   directories below the root; a root that is itself a file is taken at any depth, a directory at
   depth 0 yields nothing. [leaf_sel d p t] = the leaves of t filtered by [within d]. *)
Theorem C19_depth :
  forall d p t, appends (collect d p t) = leaf_sel d p t.
Proof. exact collect_depth. Qed.
Print Assumptions C19_depth.

Theorem C19_depth_iff :
  forall d p t q s,
    In (q, s) (appends (collect d p t)) <->
    exists r k, q = p ++ r /\ In (r, (k, s)) (leaves t) /\ within d k = true.
Proof. exact collect_depth_iff. Qed.
Print Assumptions C19_depth_iff.

Theorem C19_depth_infinite :
  forall p t, appends (collect Infinite p t) = map (fun x => (p ++ fst x, snd (snd x))) (leaves t).
Proof. exact collect_infinite. Qed.
Print Assumptions C19_depth_infinite.

(* added_files: no path occurs twice in an archive, and the entry kept for a path is the one of the
   first operation that names it, in the order of Archiver::archive ... *)
Theorem C19_no_dup_first_wins :
  forall b es, archive b = Some es ->
    NoDup (map fst es) /\ forall p c, In (p, c) es <-> wins (archive_ops b) p c.
Proof. exact archive_no_dup_first_wins. Qed.
Print Assumptions C19_no_dup_first_wins.

(* ... so the in-memory metadata beats any file target/nextest/*-metadata.json of the build. *)
Theorem C19_metadata_first :
  forall b es, archive b = Some es ->
    (forall c, In (binaries_metadata_path, c) es <-> c = CFile (b_meta_binaries b)) /\
    (forall c, In (cargo_metadata_path, c) es <-> c = CFile (b_meta_cargo b)).
Proof. exact archive_metadata_wins. Qed.
Print Assumptions C19_metadata_first.

(* Extracting an entry list without duplicate paths, all of the form target/<normal names>, into
   an empty directory creates exactly those paths below dest and each holds its content. *)
Theorem C19_roundtrip_model :
  forall dest tes es,
    Forall2 encodes tes es -> NoDup (map fst es) -> Forall (fun e => archive_path (fst e)) es ->
    exists d, extract false dest [] tes = XOk d
              /\ map fst d = rev (map (fun e => dest ++ fst e) es)
              /\ forall p c, In (p, c) es -> lookup d (dest ++ p) = Some (node_of_content c).
Proof. exact roundtrip. Qed.
Print Assumptions C19_roundtrip_model.

(* AtomicFile: for every sequence of step outcomes -- a crash is where the sequence ends, an error
   return is a StepErr with or without successful cleanup -- the destination holds its old content
   or the complete archive, the latter exactly in the states reached through the rename; nothing
   but the destination and the temporary file is ever touched. *)
Theorem C19_atomic :
  forall chunks dest tmp d0 os,
    tmp <> dest ->
    let s := wrun chunks dest tmp d0 os in
    snd s dest = (if committed (fst s) then Some (concat chunks) else d0 dest)
    /\ forall q, q <> dest -> q <> tmp -> snd s q = d0 q.
Proof. exact atomic_write. Qed.
Print Assumptions C19_atomic.

Theorem C19_atomic_tmp_is_not_dest :
  forall parent rnd file, tmp_path parent rnd <> parent ++ [file].
Proof. exact tmp_path_neq_dest. Qed.
Print Assumptions C19_atomic_tmp_is_not_dest.

Theorem C19_atomic_commit_only_by_rename :
  forall chunks dest tmp s o,
    committed (fst s) = false -> committed (fst (wstep chunks dest tmp s o)) = true ->
    fst s = Synced /\ o = StepOk.
Proof. exact committed_step. Qed.
Print Assumptions C19_atomic_commit_only_by_rename.

(* What the validation accepts (links_ok = false is the code with the F19 repair). *)
Theorem C19_entry_ok_meaning :
  forall links_ok e,
    entry_check links_ok e = 0 <->
    exists s, utf8_decode (te_raw e) = Some s /\ path_ok s = true
              /\ (links_ok = true \/ is_link (te_kind e) = false) /\ te_cksum_ok e = true.
Proof. exact entry_check_zero. Qed.
Print Assumptions C19_entry_ok_meaning.

(* For EVERY path string: if the path checks pass, the place tar's unpack_in computes and the
   lexical normalisation of dest/path coincide and lie below dest/target ... *)
Theorem C19_confined :
  forall dest s, path_ok s = true ->
    exists rest, dest_of dest s = Some (dest ++ target_name :: rest)
                 /\ normalise (joined dest s) = dest ++ target_name :: rest.
Proof. exact confined. Qed.
Print Assumptions C19_confined.

(* ... and whatever the path, tar never computes a place above dest. *)
Theorem C19_confined_any_path :
  forall dest s q, dest_of dest s = Some q -> path_prefix dest q = true.
Proof. exact dest_of_prefix. Qed.
Print Assumptions C19_confined_any_path.

(* The extraction machine (with realpath through the file system): from a destination without
   links, ANY entry list only ever adds nodes below dest/target and creates no link, so the
   lexical guarantee is the real one. *)
Theorem C19_confined_extraction :
  forall dest es d, nolinks d ->
    exists w, result_fs (extract false dest d es) = w ++ d
              /\ Forall (fun x => path_prefix (dest ++ [target_name]) (fst x) = true) w
              /\ nolinks (w ++ d).
Proof. exact extract_confined. Qed.
Print Assumptions C19_confined_extraction.

(* F19: the code before the repair (links_ok = true) is confined as well on every archive that
   contains no symbolic or hard link entry; C19_F19_unfixed_witness below shows that it is not on
   one that does. *)
Theorem C19_confined_outside_known :
  forall dest es d, has_link es = false -> nolinks d ->
    exists w, result_fs (extract true dest d es) = w ++ d
              /\ Forall (fun x => path_prefix (dest ++ [target_name]) (fst x) = true) w
              /\ nolinks (w ++ d).
Proof. exact extract_confined_outside_known. Qed.
Print Assumptions C19_confined_outside_known.

(* An entry that fails validation stops the extraction before anything is written for it or for
   any later entry. *)
Theorem C19_rejected_before_write :
  forall links_ok dest es1 d e es2 d1,
    extract links_ok dest d es1 = XOk d1 -> entry_ok links_ok e = false ->
    extract links_ok dest d (es1 ++ e :: es2) = XRejected (entry_check links_ok e) d1.
Proof. exact extract_stops_at_first_bad. Qed.
Print Assumptions C19_rejected_before_write.

(* PathMapper: prefix substitution; the (binary-id, test) selection over the remapped binary list
   is the original one as soon as every binary's bytes sit at its remapped path (which the round
   trip provides). *)
Theorem C19_remap :
  forall lister (d d' : files) m bins,
    (forall b, In b bins -> d' (remap m (snd b)) = d (snd b)) ->
    selection lister d' (map (fun b => (fst b, remap m (snd b))) bins) = selection lister d bins.
Proof. exact remap_selection. Qed.
Print Assumptions C19_remap.

Theorem C19_remap_prefix :
  forall from to rest, remap (Some (from, to)) (from ++ rest) = to ++ rest.
Proof. exact remap_prefixed. Qed.
Print Assumptions C19_remap_prefix.

(* ---------------------------------------------------------------- closed witnesses *)

Definition nA : name := [97].       (* a *)
Definition nB : name := [98].
Definition nC : name := [99].
Definition nX : name := [120].
Definition inc : rpath := [target_name; nX].

(* x/{a, b/{c, b/{a}}, c -> dir, fifo} *)
Definition ex_tree : tree :=
  Dir [(nA, File [1]); (nB, Dir [(nC, File [2]); (nB, Dir [(nA, File [3])])]);
       (nC, Symlink LDir); (nX, Other)].

Example C19_depth_example :
  appends (collect (Finite 0) inc ex_tree) = []
  /\ appends (collect (Finite 1) inc ex_tree)
     = [(inc ++ [nC], SLink LDir); (inc ++ [nA], SFile [1])]
  /\ appends (collect (Finite 2) inc ex_tree)
     = [(inc ++ [nC], SLink LDir); (inc ++ [nB; nC], SFile [2]); (inc ++ [nA], SFile [1])]
  /\ length (appends (collect Infinite inc ex_tree)) = 4%nat
  /\ appends (collect (Finite 0) inc (File [7])) = [(inc, SFile [7])].
Proof. repeat split; vm_compute; reflexivity. Qed.

(* two overlapping includes, and a file named like the in-memory metadata *)
Definition ex_build : build :=
  {| b_meta_binaries := [10]; b_meta_cargo := [11];
     b_test_bins := [([nA], Some (File [1]))];
     b_non_test_bins := []; b_out_dirs := []; b_linked := [];
     b_includes :=
       [ {| inc_path := [nX]; inc_depth := Finite 1; inc_missing := OnWarn; inc_src := Some ex_tree |};
         {| inc_path := [nX; nA]; inc_depth := Finite 0; inc_missing := OnError;
            inc_src := Some (File [1]) |};
         {| inc_path := [nextest_name]; inc_depth := Infinite; inc_missing := OnIgnore;
            inc_src := Some (Dir [(cargo_metadata_name, File [66])]) |};
         {| inc_path := [nC]; inc_depth := Finite 3; inc_missing := OnIgnore; inc_src := None |} ];
     b_stdlibs := [] |}.

Example C19_dedup_example :
  archive ex_build
  = Some [(binaries_metadata_path, CFile [10]); (cargo_metadata_path, CFile [11]);
          ([target_name; nA], CFile [1]); (inc ++ [nC], CDir); (inc ++ [nA], CFile [1])].
Proof. vm_compute. reflexivity. Qed.

(* a missing include with on-missing = "error", or a dangling link below an include, fails the
   whole archive *)
Example C19_archive_errors :
  archive {| b_meta_binaries := []; b_meta_cargo := []; b_test_bins := []; b_non_test_bins := [];
             b_out_dirs := []; b_linked := [];
             b_includes := [ {| inc_path := [nC]; inc_depth := Finite 3; inc_missing := OnError;
                                inc_src := None |} ];
             b_stdlibs := [] |} = None
  /\ archive {| b_meta_binaries := []; b_meta_cargo := []; b_test_bins := []; b_non_test_bins := [];
                b_out_dirs := []; b_linked := [];
                b_includes := [ {| inc_path := [nC]; inc_depth := Finite 3; inc_missing := OnWarn;
                                   inc_src := Some (Dir [(nA, Symlink LBroken)]) |} ];
                b_stdlibs := [] |} = None.
Proof. split; vm_compute; reflexivity. Qed.

Definition dest_ex : rpath := [[100]; [101]].     (* /d/e *)

Example C19_roundtrip_example :
  exists d,
    extract false dest_ex [] (map tentry_of [([target_name; nA], CFile [1]); (inc ++ [nC], CDir)])
    = XOk d
    /\ lookup d (dest_ex ++ [target_name; nA]) = Some (NFile [1])
    /\ lookup d (dest_ex ++ inc ++ [nC]) = Some NDir.
Proof. eexists. repeat split; vm_compute; reflexivity. Qed.

(* F19 (repaired): `target/a -> ..` followed by `target/a/evil`. Before the repair the second entry
   lands in dest itself, outside dest/target; with the repair the link entry is rejected (code 4)
   and nothing at all is written. *)
Definition str_of (l : list N) : str := l.
Definition raw_target_a : bytes := utf8 (render_rel [target_name; nA]).
Definition raw_target_a_evil : bytes := utf8 (render_rel [target_name; nA; [101; 118; 105; 108]]).
Definition f9_archive : list tentry :=
  [ {| te_raw := raw_target_a; te_cksum_ok := true; te_kind := KSymlink [46; 46]; te_data := [] |};
    {| te_raw := raw_target_a_evil; te_cksum_ok := true; te_kind := KFile; te_data := [1; 2] |} ].

Example C19_F19_unfixed_witness :
  exists d, extract true dest_ex [] f9_archive = XOk d
            /\ lookup d (dest_ex ++ [[101; 118; 105; 108]]) = Some (NFile [1; 2])
            /\ path_prefix (dest_ex ++ [target_name]) (dest_ex ++ [[101; 118; 105; 108]]) = false.
Proof. eexists. repeat split; vm_compute; reflexivity. Qed.

Example C19_F19_known_class : has_link f9_archive = true.
Proof. vm_compute. reflexivity. Qed.

Example C19_F19_fixed :
  extract false dest_ex [] f9_archive = XRejected 4 [].
Proof. vm_compute. reflexivity. Qed.

(* path validation on strings *)
Example C19_path_examples :
  path_ok [116; 97; 114; 103; 101; 116; 47; 97] = true                     (* target/a *)
  /\ path_ok [116; 97; 114; 103; 101; 116; 47; 46; 46; 47; 97] = false      (* target/../a *)
  /\ path_ok [47; 116; 97; 114; 103; 101; 116; 47; 97] = false              (* /target/a *)
  /\ path_ok [46; 47; 116; 97; 114; 103; 101; 116; 47; 97] = false          (* ./target/a *)
  /\ path_ok [116; 97; 114; 103; 101; 116; 47; 46; 47; 47; 97] = true       (* target/.//a *)
  /\ path_ok [116; 97; 114; 103; 101; 116; 120; 47; 97] = false             (* targetx/a *)
  /\ valid_include [97; 47; 46; 47; 98] = true                              (* a/./b *)
  /\ valid_include [97; 47; 46; 46; 47; 98] = false                         (* a/../b *)
  /\ valid_include [47; 97] = false.                                        (* /a *)
Proof. repeat split; vm_compute; reflexivity. Qed.

(* atomic write: killed after two of three write calls the destination is untouched and the
   temporary file holds a partial archive; the complete run replaces it *)
Definition dst : rpath := [[100]; [102]].
Definition tmp : rpath := tmp_path [[100]] [49].
Definition old_disk : files := fun q => if path_eqb q dst then Some [9; 9] else None.

Example C19_atomic_example :
  let crash := wrun [[1]; [2]; [3]] dst tmp old_disk [StepOk; StepOk; StepOk] in
  let full := wrun [[1]; [2]; [3]] dst tmp old_disk
                   [StepOk; StepOk; StepOk; StepOk; StepOk; StepOk; StepOk; StepOk] in
  let enospc := wrun [[1]; [2]; [3]] dst tmp old_disk [StepOk; StepOk; StepErr true] in
  fst crash = TmpPartial 2 /\ snd crash dst = Some [9; 9] /\ snd crash tmp = Some [1; 2]
  /\ fst full = Done /\ snd full dst = Some [1; 2; 3] /\ snd full tmp = None
  /\ fst enospc = Failed false /\ snd enospc dst = Some [9; 9] /\ snd enospc tmp = None.
Proof. repeat split; vm_compute; reflexivity. Qed.

Example C19_remap_example :
  remap (Some ([[111]; target_name], [[100]; target_name])) [[111]; target_name; nA]
  = [[100]; target_name; nA]
  /\ remap (Some ([[111]; target_name], [[100]; target_name])) [[120]; nA] = [[120]; nA].
Proof. split; vm_compute; reflexivity. Qed.
