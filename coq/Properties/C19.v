(* C19 -- Archives round-trip faithfully, are created atomically, and extract safely.
   Statements only; proofs are in Proofs/Archive.v. *)
From NextestModel Require Import Base.Str Model.Archive Proofs.Archive Proofs.ArchiveCompose.
Open Scope N_scope.

(* The explicit-stack loop of append_path_recursive (fuel = size of the tree, never exhausted)
   visits exactly what the structural recursion visits, in the same order (last directory entry
   first). *)
Theorem C19_walk_is_structural :
  forall d p t, collect d p t = collect_rec d p t.
Proof. exact collect_eq_rec. Qed.
Print Assumptions C19_walk_is_structural.

(* What `depth` means: the files (and symlinks) handed to append_file are exactly the leaves of the
   tree that lie under at most d directories, the root included -- i.e. with fewer than d enclosing
   directories below the root; a root that is itself a file is taken at any depth, a directory at
   depth 0 yields nothing. [leaf_sel d p t] = the leaves of t filtered by [within d]. *)
Theorem C19_depth :
  forall d p t, appends (collect d p t) = leaf_sel d p t.
Proof. exact collect_depth. Qed.
Print Assumptions C19_depth.

Theorem C19_depth_iff :
  forall d p t q s,
    In (q, s) (appends (collect d p t)) <->
    exists r k, q = p ++ r /\ In (r, (k, s)) (leaves t) /\ within d k = true.
Proof. exact collect_depth_iff. Qed.
Print Assumptions C19_depth_iff.

Theorem C19_depth_infinite :
  forall p t, appends (collect Infinite p t) = map (fun x => (p ++ fst x, snd (snd x))) (leaves t).
Proof. exact collect_infinite. Qed.
Print Assumptions C19_depth_infinite.

(* added_files: no path occurs twice in an archive, and the entry kept for a path is the one of the
   first operation that names it, in the order of Archiver::archive ... *)
Theorem C19_no_dup_first_wins :
  forall b es, archive b = Some es ->
    NoDup (map fst es) /\ forall p c, In (p, c) es <-> wins (archive_ops b) p c.
Proof. exact archive_no_dup_first_wins. Qed.
Print Assumptions C19_no_dup_first_wins.

(* ... so the in-memory metadata beats any file target/nextest/*-metadata.json of the build. *)
Theorem C19_metadata_first :
  forall b es, archive b = Some es ->
    (forall c, In (binaries_metadata_path, c) es <-> c = CFile (b_meta_binaries b)) /\
    (forall c, In (cargo_metadata_path, c) es <-> c = CFile (b_meta_cargo b)).
Proof. exact archive_metadata_wins. Qed.
Print Assumptions C19_metadata_first.

(* Extracting (repaired machine, with or without the F19 repair, with or without overwrite) an
   entry list without duplicate paths, all of the form target/<normal names>, in which only
   directory entries have entries below them, into ANY destination file system whose directory is
   canonical and in which target/ does not exist: every entry holds its content at dest/<path>;
   below dest/target there is nothing but the entries and the directories leading to them; no path
   outside dest/target changes. *)
Theorem C19_roundtrip_model :
  forall lo ow dest tes es d0,
    Forall2 encodes tes es -> NoDup (map fst es) -> Forall (fun e => archive_path (fst e)) es ->
    tree_like es -> dest_canonical d0 dest = true -> fresh_target d0 dest ->
    exists d, extract_to lo false ow dest d0 tes = XOk d
              /\ (forall p c, In (p, c) es -> lookup d (dest ++ p) = Some (node_of_content c))
              /\ (forall rel n, lookup d (dest ++ target_name :: rel) = Some n ->
                    (exists c, In (target_name :: rel, c) es /\ n = node_of_content c)
                    \/ (n = NDir /\ exists p c, In (p, c) es
                                                /\ proper_prefix (target_name :: rel) p))
              /\ (forall q, path_prefix (dest ++ [target_name]) q = false ->
                            lookup d q = lookup d0 q).
Proof. exact roundtrip. Qed.
Print Assumptions C19_roundtrip_model.

(* Path names: strict UTF-8 decoding (std::str::from_utf8) inverts the encoder on every string of
   Unicode scalar values, so the tar entry written for an archive entry encodes it whatever the
   characters of its names (ASCII or not). *)
Theorem C19_utf8_names :
  forall s, forallb scalar s = true -> utf8_decode (utf8 s) = Some s.
Proof. exact utf8_decode_utf8. Qed.
Print Assumptions C19_utf8_names.

Theorem C19_own_entries_encoded :
  forall b es, archive b = Some es -> build_ok b = true ->
    Forall (fun e => good_path (fst e) /\ encodes (tentry_of e) e) es.
Proof. exact own_entries_encoded. Qed.
Print Assumptions C19_own_entries_encoded.

(* AtomicFile: for every sequence of step outcomes -- a crash is where the sequence ends, an error
   return is a StepErr with or without successful cleanup -- the destination holds its old content
   or the complete archive, the latter exactly in the states reached through the rename; nothing
   but the destination and the temporary file is ever touched. *)
Theorem C19_atomic :
  forall chunks dest tmp d0 os,
    tmp <> dest ->
    let s := wrun chunks dest tmp d0 os in
    snd s dest = (if committed (fst s) then Some (concat chunks) else d0 dest)
    /\ forall q, q <> dest -> q <> tmp -> snd s q = d0 q.
Proof. exact atomic_write. Qed.
Print Assumptions C19_atomic.

Theorem C19_atomic_tmp_is_not_dest :
  forall parent rnd file, tmp_path parent rnd <> parent ++ [file].
Proof. exact tmp_path_neq_dest. Qed.
Print Assumptions C19_atomic_tmp_is_not_dest.

Theorem C19_atomic_commit_only_by_rename :
  forall chunks dest tmp s o,
    committed (fst s) = false -> committed (fst (wstep chunks dest tmp s o)) = true ->
    fst s = Synced /\ o = StepOk.
Proof. exact committed_step. Qed.
Print Assumptions C19_atomic_commit_only_by_rename.

(* What the validation accepts (links_ok = false is the code with the F19 repair). *)
Theorem C19_entry_ok_meaning :
  forall links_ok e,
    entry_check links_ok e = 0 <->
    exists s, utf8_decode (te_raw e) = Some s /\ path_ok s = true
              /\ (links_ok = true \/ is_link (te_kind e) = false) /\ te_cksum_ok e = true.
Proof. exact entry_check_zero. Qed.
Print Assumptions C19_entry_ok_meaning.

(* For EVERY path string: if the path checks pass, the place tar's unpack_in computes and the
   lexical normalisation of dest/path coincide and lie below dest/target ... *)
Theorem C19_confined :
  forall dest s, path_ok s = true ->
    exists rest, dest_of dest s = Some (dest ++ target_name :: rest)
                 /\ normalise (joined dest s) = dest ++ target_name :: rest.
Proof. exact confined. Qed.
Print Assumptions C19_confined.

(* ... and whatever the path, tar never computes a place above dest. *)
Theorem C19_confined_any_path :
  forall dest s q, dest_of dest s = Some q -> path_prefix dest q = true.
Proof. exact dest_of_prefix. Qed.
Print Assumptions C19_confined_any_path.

(* The extraction machine as repaired for F23 (thru = false), started from an ARBITRARY
   destination file system -- links anywhere below dest, also at dest/target itself -- whose
   directory path dest is canonical (what `dir.canonicalize_utf8()` establishes), with or without
   overwrite, with or without the F19 repair, for ANY entry list: whatever the outcome, the file
   system afterwards is the old one plus nodes at paths below dest/target. *)
Theorem C19_confined_extraction :
  forall lo ow dest es d, dest_canonical d dest = true ->
    exists w, result_fs (extract_to lo false ow dest d es) = w ++ d
              /\ Forall (fun x => path_prefix (dest ++ [target_name]) (fst x) = true) w.
Proof. exact extract_to_confined. Qed.
Print Assumptions C19_confined_extraction.

(* ... and these paths are where the operating system really puts the nodes: once the repair's
   test has passed, the parent directory tar resolves through the file system (validate_inside_dst)
   is the lexical one -- no write of the repaired machine goes through a link. *)
Theorem C19_checked_lexical_is_physical :
  forall d dest ns, dest_canonical d dest = true -> link_on_path d dest ns = false ->
    realpath d (dest ++ removelast ns) = Some (dest ++ removelast ns).
Proof. exact guard_makes_lexical_physical. Qed.
Print Assumptions C19_checked_lexical_is_physical.

(* F19 / F23: the code before the two repairs (links_ok = true: link entries accepted;
   thru = true: links already in the destination followed) is confined as well outside the two
   classes "the archive contains a link entry" / "the destination contains a link";
   C19_F19_unfixed_witness and C19_F23_unfixed_witness below show that it is not inside them. *)
Theorem C19_confined_outside_known :
  forall lo dest es d, (lo = true -> has_link es = false) -> fs_has_link d = false ->
    exists w, result_fs (extract lo true dest d es) = w ++ d
              /\ Forall (fun x => path_prefix (dest ++ [target_name]) (fst x) = true) w
              /\ nolinks (w ++ d).
Proof. exact extract_confined_outside_known. Qed.
Print Assumptions C19_confined_outside_known.

(* An entry that fails validation stops the extraction before anything is written for it or for
   any later entry. *)
Theorem C19_rejected_before_write :
  forall links_ok thru dest es1 d e es2 d1,
    extract links_ok thru dest d es1 = XOk d1 -> entry_ok links_ok e = false ->
    extract links_ok thru dest d (es1 ++ e :: es2) = XRejected (entry_check links_ok e) d1.
Proof. exact extract_stops_at_first_bad. Qed.
Print Assumptions C19_rejected_before_write.

(* Composition archive -> tar entries -> extract -> remap. b = the build as Archiver::archive reads
   it, es = the archive it produces; the entries, written as tar entries with UTF-8 names, are
   extracted into a destination whose target/ does not exist; orig = the build's target directory,
   target_remap orig dest = the remapping extract_archive installs (orig -> dest/target). Then
   (1) every path any operation of the archiver names -- see C19_archiver_takes for which these
   are -- holds, at the REMAPPED path, the content of the first operation that named it;
   (2) below dest/target there is nothing but archive entries and the directories leading to them;
   (3) nothing outside dest/target changes.
   Hypotheses: names are directory-entry names made of scalar values (build_ok), and only
   directories have children (tree_like es; any listing of one file system). *)
Theorem C19_archive_extract_remap :
  forall b es lo ow dest orig d0,
    archive b = Some es -> build_ok b = true -> tree_like es ->
    dest_canonical d0 dest = true -> fresh_target d0 dest ->
    exists d, extract_to lo false ow dest d0 (map tentry_of es) = XOk d
      /\ (forall o p, In o (archive_ops b) -> op_path o = Some (target_name :: p) ->
            exists c, wins (archive_ops b) (target_name :: p) c
                      /\ lookup d (remap (target_remap orig dest) (orig ++ p))
                         = Some (node_of_content c))
      /\ (forall rel n, lookup d (dest ++ target_name :: rel) = Some n ->
            (exists c, wins (archive_ops b) (target_name :: rel) c /\ n = node_of_content c)
            \/ (n = NDir /\ exists p c, wins (archive_ops b) p c
                                        /\ proper_prefix (target_name :: rel) p))
      /\ (forall q, path_prefix (dest ++ [target_name]) q = false -> lookup d q = lookup d0 q).
Proof. exact archive_extract_remap. Qed.
Print Assumptions C19_archive_extract_remap.

(* Which paths the archiver names: every test binary, non-test binary and std library; for every
   build script out dir its files down to depth 1 and the sibling `output` file; for every linked
   path that exists its files down to depth 1; for every configured extra path that passed the
   pre-check and exists its files down to the configured depth (C19_depth_iff says which these
   are) ... *)
Theorem C19_archiver_takes :
  forall b,
    (forall x, In x (b_test_bins b) \/ In x (b_non_test_bins b) \/ In x (b_stdlibs b) ->
       In (OFile (under_target (fst x)) (resolve_direct (snd x))) (archive_ops b))
    /\ (forall (o : outdir) t q s, In o (b_out_dirs b) -> snd (fst o) = Some t ->
          In (q, s) (appends (collect (Finite 1) (under_target (fst (fst o))) t)) ->
          In (OFile q (resolve_src s)) (archive_ops b))
    /\ (forall (o : outdir) f, In o (b_out_dirs b) -> snd o = Some f ->
          In (OFile (under_target (fst f)) (resolve_direct (snd f))) (archive_ops b))
    /\ (forall x t q s, In x (b_linked b) -> snd x = Some t -> exists_follow (Some t) = true ->
          In (q, s) (appends (collect (Finite 1) (under_target (fst x)) t)) ->
          In (OFile q (resolve_src s)) (archive_ops b))
    /\ (forall i t q s, In i (b_includes b) -> include_check i = Some true -> inc_src i = Some t ->
          exists_follow (Some t) = true ->
          In (q, s) (appends (collect (inc_depth i) (under_target (inc_path i)) t)) ->
          In (OFile q (resolve_src s)) (archive_ops b)).
Proof. exact archiver_takes. Qed.
Print Assumptions C19_archiver_takes.

(* ... and nothing else (no deeper): every operation is one of these, one of the two in-memory
   metadata entries, or a failure. *)
Theorem C19_archiver_takes_nothing_else :
  forall b o, In o (archive_ops b) -> op_origin b o.
Proof. exact ops_origin. Qed.
Print Assumptions C19_archiver_takes_nothing_else.

(* Every path named is archived (when archive creation succeeds). *)
Theorem C19_named_is_archived :
  forall b es o p, archive b = Some es -> In o (archive_ops b) -> op_path o = Some p ->
    exists c, In (p, c) es.
Proof. exact archive_named. Qed.
Print Assumptions C19_named_is_archived.

(* PathMapper after extraction: the test binaries' paths, mapped the way map_binary maps them
   (original target directory replaced by dest/target), point at the extracted copies, which hold
   the bytes of the build's binaries; hence the (binary-id, test) selection computed from the
   remapped list on the extracted tree is the one computed from the original build. (The tests of a
   binary are an arbitrary function [lister] of the bytes found at its path.) Needs one content
   per path (coherent) and test binaries that are regular files. map_cwd uses the workspace
   remapping, which extraction does not set; it is covered by corr:path-mapper only. *)
Theorem C19_remap :
  forall b es lo ow dest orig d0 (ids : rpath -> str) (lister : option bytes -> list str),
    archive b = Some es -> build_ok b = true -> tree_like es -> coherent (archive_ops b) ->
    (forall x, In x (b_test_bins b) -> exists by_, resolve_direct (snd x) = Some (CFile by_)) ->
    dest_canonical d0 dest = true -> fresh_target d0 dest ->
    exists d, extract_to lo false ow dest d0 (map tentry_of es) = XOk d
      /\ (forall x, In x (b_test_bins b) ->
            files_of d (remap (target_remap orig dest) (orig ++ fst x))
            = bytes_of (resolve_direct (snd x)))
      /\ selection lister (files_of d)
                   (map (fun x => (ids (fst x), remap (target_remap orig dest) (orig ++ fst x)))
                        (b_test_bins b))
         = flat_map (fun x => map (fun t => (ids (fst x), t))
                                  (lister (bytes_of (resolve_direct (snd x))))) (b_test_bins b).
Proof. exact remap_points_at_copies. Qed.
Print Assumptions C19_remap.

Theorem C19_remap_prefix :
  forall from to rest, remap (Some (from, to)) (from ++ rest) = to ++ rest.
Proof. exact remap_prefixed. Qed.
Print Assumptions C19_remap_prefix.

(* ---------------------------------------------------------------- closed witnesses *)

Definition nA : name := [97].       (* a *)
Definition nB : name := [98].
Definition nC : name := [99].
Definition nX : name := [120].
Definition inc : rpath := [target_name; nX].

(* x/{a, b/{c, b/{a}}, c -> dir, fifo} *)
Definition ex_tree : tree :=
  Dir [(nA, File [1]); (nB, Dir [(nC, File [2]); (nB, Dir [(nA, File [3])])]);
       (nC, Symlink LDir); (nX, Other)].

Example C19_depth_example :
  appends (collect (Finite 0) inc ex_tree) = []
  /\ appends (collect (Finite 1) inc ex_tree)
     = [(inc ++ [nC], SLink LDir); (inc ++ [nA], SFile [1])]
  /\ appends (collect (Finite 2) inc ex_tree)
     = [(inc ++ [nC], SLink LDir); (inc ++ [nB; nC], SFile [2]); (inc ++ [nA], SFile [1])]
  /\ length (appends (collect Infinite inc ex_tree)) = 4%nat
  /\ appends (collect (Finite 0) inc (File [7])) = [(inc, SFile [7])].
Proof. repeat split; vm_compute; reflexivity. Qed.

(* two overlapping includes, and a file named like the in-memory metadata *)
Definition ex_build : build :=
  {| b_meta_binaries := [10]; b_meta_cargo := [11];
     b_test_bins := [([nA], Some (File [1]))];
     b_non_test_bins := []; b_out_dirs := []; b_linked := [];
     b_includes :=
       [ {| inc_path := [nX]; inc_depth := Finite 1; inc_missing := OnWarn; inc_src := Some ex_tree |};
         {| inc_path := [nX; nA]; inc_depth := Finite 0; inc_missing := OnError;
            inc_src := Some (File [1]) |};
         {| inc_path := [nextest_name]; inc_depth := Infinite; inc_missing := OnIgnore;
            inc_src := Some (Dir [(cargo_metadata_name, File [66])]) |};
         {| inc_path := [nC]; inc_depth := Finite 3; inc_missing := OnIgnore; inc_src := None |} ];
     b_stdlibs := [] |}.

Example C19_dedup_example :
  archive ex_build
  = Some [(binaries_metadata_path, CFile [10]); (cargo_metadata_path, CFile [11]);
          ([target_name; nA], CFile [1]); (inc ++ [nC], CDir); (inc ++ [nA], CFile [1])].
Proof. vm_compute. reflexivity. Qed.

(* a missing include with on-missing = "error", or a dangling link below an include, fails the
   whole archive *)
Example C19_archive_errors :
  archive {| b_meta_binaries := []; b_meta_cargo := []; b_test_bins := []; b_non_test_bins := [];
             b_out_dirs := []; b_linked := [];
             b_includes := [ {| inc_path := [nC]; inc_depth := Finite 3; inc_missing := OnError;
                                inc_src := None |} ];
             b_stdlibs := [] |} = None
  /\ archive {| b_meta_binaries := []; b_meta_cargo := []; b_test_bins := []; b_non_test_bins := [];
                b_out_dirs := []; b_linked := [];
                b_includes := [ {| inc_path := [nC]; inc_depth := Finite 3; inc_missing := OnWarn;
                                   inc_src := Some (Dir [(nA, Symlink LBroken)]) |} ];
                b_stdlibs := [] |} = None.
Proof. split; vm_compute; reflexivity. Qed.

Definition dest_ex : rpath := [[100]; [101]].     (* /d/e *)

Example C19_roundtrip_example :
  exists d,
    extract_to false false false dest_ex []
               (map tentry_of [([target_name; nA], CFile [1]); (inc ++ [nC], CDir)])
    = XOk d
    /\ lookup d (dest_ex ++ [target_name; nA]) = Some (NFile [1])
    /\ lookup d (dest_ex ++ inc ++ [nC]) = Some NDir
    /\ map fst d = [dest_ex ++ inc ++ [nC]; dest_ex ++ inc; dest_ex ++ [target_name; nA];
                    dest_ex ++ [target_name]].
Proof. eexists. repeat split; vm_compute; reflexivity. Qed.

(* a name outside ASCII: é = U+00E9 is written as C3 A9 and read back *)
Example C19_utf8_example :
  utf8_path [target_name; [233; 120]] = [116; 97; 114; 103; 101; 116; 47; 195; 169; 120]
  /\ utf8_decode (utf8_path [target_name; [233; 120]]) = Some (render_rel [target_name; [233; 120]])
  /\ name_ok [233; 120] = true /\ name_ok [55296] = false.
Proof. repeat split; vm_compute; reflexivity. Qed.

(* the composition on ex_build (overlapping includes, an impostor metadata file): hypotheses hold,
   the extracted test binary is found through the remapping /o/target -> /d/e/target *)
Definition orig_ex : rpath := [[111]; target_name].
Example C19_compose_example :
  exists es d,
    archive ex_build = Some es /\ build_ok ex_build = true /\ tree_likeb es = true
    /\ extract_to false false false dest_ex [] (map tentry_of es) = XOk d
    /\ lookup d (remap (target_remap orig_ex dest_ex) (orig_ex ++ [nA])) = Some (NFile [1])
    /\ lookup d (remap (target_remap orig_ex dest_ex) (orig_ex ++ [nX; nC])) = Some NDir
    /\ length d = 8%nat.
Proof. eexists. eexists. repeat split; vm_compute; reflexivity. Qed.

(* the hypotheses of C19_remap are satisfiable: one content per path, binaries are files *)
Definition ex_build2 : build :=
  {| b_meta_binaries := [10]; b_meta_cargo := [11];
     b_test_bins := [([nA], Some (File [1])); ([nB; nC], Some (Symlink (LFile [2])))];
     b_non_test_bins := []; b_out_dirs := []; b_linked := [];
     b_includes :=
       [ {| inc_path := [nX]; inc_depth := Finite 2; inc_missing := OnWarn; inc_src := Some ex_tree |};
         {| inc_path := [nA]; inc_depth := Finite 0; inc_missing := OnError;
            inc_src := Some (File [1]) |} ];
     b_stdlibs := [] |}.
Example C19_remap_hypotheses :
  coherentb (archive_ops ex_build2) = true /\ build_ok ex_build2 = true
  /\ (exists es, archive ex_build2 = Some es /\ tree_likeb es = true)
  /\ forallb (fun x => match resolve_direct (snd x) with Some (CFile _) => true | _ => false end)
             (b_test_bins ex_build2) = true
  /\ coherentb (archive_ops ex_build) = false.
Proof. split; [|split; [|split; [eexists; split|split]]]; vm_compute; reflexivity. Qed.

(* F19 (repaired): `target/a -> ..` followed by `target/a/evil`. Before the two repairs the second
   entry lands in dest itself, outside dest/target; with the F19 repair the link entry is rejected
   (code 4) and nothing at all is written; with the F23 repair alone the link is created but the
   entry through it is refused. *)
Definition str_of (l : list N) : str := l.
Definition raw_target_a : bytes := utf8 (render_rel [target_name; nA]).
Definition raw_target_a_evil : bytes := utf8 (render_rel [target_name; nA; [101; 118; 105; 108]]).
Definition f9_archive : list tentry :=
  [ {| te_raw := raw_target_a; te_cksum_ok := true; te_kind := KSymlink [46; 46]; te_data := [] |};
    {| te_raw := raw_target_a_evil; te_cksum_ok := true; te_kind := KFile; te_data := [1; 2] |} ].

Example C19_F19_unfixed_witness :
  exists d, extract true true dest_ex [] f9_archive = XOk d
            /\ lookup d (dest_ex ++ [[101; 118; 105; 108]]) = Some (NFile [1; 2])
            /\ path_prefix (dest_ex ++ [target_name]) (dest_ex ++ [[101; 118; 105; 108]]) = false.
Proof. eexists. repeat split; vm_compute; reflexivity. Qed.

Example C19_F19_known_class : has_link f9_archive = true.
Proof. vm_compute. reflexivity. Qed.

Example C19_F19_fixed :
  extract false false dest_ex [] f9_archive = XRejected 4 []
  /\ extract false true dest_ex [] f9_archive = XRejected 4 []
  /\ exists d, extract true false dest_ex [] f9_archive = XIoError d
               /\ map fst d = [dest_ex ++ [target_name; nA]; dest_ex ++ [target_name]].
Proof. split; [|split; [|eexists; split]]; vm_compute; reflexivity. Qed.

(* F23 (repaired): the destination already contains `dest/target/a -> ..` (possible with
   --extract-overwrite) and the archive consists of the single ordinary entry `target/a/evil`.
   Before the repair the file lands in dest itself; the repaired machine refuses the entry and
   leaves the file system alone. Also: a link at dest/target itself, and a directory entry over a
   link (tar would keep the link and change the permissions of what it points to). *)
Definition evil_name : name := [101; 118; 105; 108].
Definition f23_dest : fsys :=
  [ (dest_ex ++ [target_name; nA], NLink [CParent]); (dest_ex ++ [target_name], NDir) ].
Definition f23_archive : list tentry :=
  [ {| te_raw := raw_target_a_evil; te_cksum_ok := true; te_kind := KFile; te_data := [1; 2] |} ].

Example C19_F23_unfixed_witness :
  exists d, extract_to false true true dest_ex f23_dest f23_archive = XOk d
            /\ lookup d (dest_ex ++ [evil_name]) = Some (NFile [1; 2])
            /\ path_prefix (dest_ex ++ [target_name]) (dest_ex ++ [evil_name]) = false
            /\ dest_canonical f23_dest dest_ex = true.
Proof. eexists. repeat split; vm_compute; reflexivity. Qed.

Example C19_F23_known_class : fs_has_link f23_dest = true /\ has_link f23_archive = false.
Proof. split; vm_compute; reflexivity. Qed.

Example C19_F23_fixed :
  extract_to false false true dest_ex f23_dest f23_archive = XIoError f23_dest
  /\ extract_to false false false dest_ex f23_dest f23_archive = XRejected 6 f23_dest
  /\ (let d := [(dest_ex ++ [target_name], NLink [CNormal nB]); (dest_ex ++ [nB], NDir)] in
      extract_to false false true dest_ex d f23_archive = XIoError d
      /\ exists d', extract_to false true true dest_ex d f23_archive = XOk d'
                    /\ lookup d' (dest_ex ++ [nB; nA; evil_name]) = Some (NFile [1; 2]))
  /\ (let d := [(dest_ex ++ [target_name; nA], NLink [CRoot; CNormal nX]);
                (dest_ex ++ [target_name], NDir)] in
      let dir_entry := {| te_raw := raw_target_a; te_cksum_ok := true; te_kind := KDir;
                          te_data := [] |} in
      extract_to false false true dest_ex d [dir_entry] = XIoError d
      /\ extract_to false true true dest_ex d [dir_entry] = XOk d).
Proof.
  split; [|split; [|split; [split; [|eexists; split]|split]]]; vm_compute; reflexivity.
Qed.

(* the repaired machine on a destination that has links elsewhere: extraction proceeds next to
   them, over existing files and directories, and C19_confined_extraction applies *)
Example C19_confined_nonvacuous :
  let d0 := [ (dest_ex ++ [target_name; nA], NLink [CParent]);
              (dest_ex ++ [target_name; nB], NFile [9]);
              (dest_ex ++ [target_name; nX], NDir);
              (dest_ex ++ [target_name], NDir) ] in
  dest_canonical d0 dest_ex = true
  /\ exists d, extract_to false false true dest_ex d0
                 (map tentry_of [([target_name; nB], CFile [1]); (inc ++ [nC; nA], CFile [2])])
               = XOk d
               /\ lookup d (dest_ex ++ [target_name; nB]) = Some (NFile [1])
               /\ lookup d (dest_ex ++ inc ++ [nC; nA]) = Some (NFile [2])
               /\ lookup d (dest_ex ++ [target_name; nA]) = Some (NLink [CParent]).
Proof. split; [|eexists; repeat split]; vm_compute; reflexivity. Qed.

(* path validation on strings *)
Example C19_path_examples :
  path_ok [116; 97; 114; 103; 101; 116; 47; 97] = true                     (* target/a *)
  /\ path_ok [116; 97; 114; 103; 101; 116; 47; 46; 46; 47; 97] = false      (* target/../a *)
  /\ path_ok [47; 116; 97; 114; 103; 101; 116; 47; 97] = false              (* /target/a *)
  /\ path_ok [46; 47; 116; 97; 114; 103; 101; 116; 47; 97] = false          (* ./target/a *)
  /\ path_ok [116; 97; 114; 103; 101; 116; 47; 46; 47; 47; 97] = true       (* target/.//a *)
  /\ path_ok [116; 97; 114; 103; 101; 116; 120; 47; 97] = false             (* targetx/a *)
  /\ valid_include [97; 47; 46; 47; 98] = true                              (* a/./b *)
  /\ valid_include [97; 47; 46; 46; 47; 98] = false                         (* a/../b *)
  /\ valid_include [47; 97] = false.                                        (* /a *)
Proof. repeat split; vm_compute; reflexivity. Qed.

(* atomic write: killed after two of three write calls the destination is untouched and the
   temporary file holds a partial archive; the complete run replaces it *)
Definition dst : rpath := [[100]; [102]].
Definition tmp : rpath := tmp_path [[100]] [49].
Definition old_disk : files := fun q => if path_eqb q dst then Some [9; 9] else None.

Example C19_atomic_example :
  let crash := wrun [[1]; [2]; [3]] dst tmp old_disk [StepOk; StepOk; StepOk] in
  let full := wrun [[1]; [2]; [3]] dst tmp old_disk
                   [StepOk; StepOk; StepOk; StepOk; StepOk; StepOk; StepOk; StepOk] in
  let enospc := wrun [[1]; [2]; [3]] dst tmp old_disk [StepOk; StepOk; StepErr true] in
  fst crash = TmpPartial 2 /\ snd crash dst = Some [9; 9] /\ snd crash tmp = Some [1; 2]
  /\ fst full = Done /\ snd full dst = Some [1; 2; 3] /\ snd full tmp = None
  /\ fst enospc = Failed false /\ snd enospc dst = Some [9; 9] /\ snd enospc tmp = None.
Proof. repeat split; vm_compute; reflexivity. Qed.

Example C19_remap_example :
  remap (Some ([[111]; target_name], [[100]; target_name])) [[111]; target_name; nA]
  = [[100]; target_name; nA]
  /\ remap (Some ([[111]; target_name], [[100]; target_name])) [[120]; nA] = [[120]; nA].
Proof. split; vm_compute; reflexivity. Qed.
