(* C06 — Per-test settings resolve by the documented precedence, setting by setting.
   Statements only; proofs are in Proofs/Overrides.v. *)
From NextestModel Require Import Base.Str Model.Overrides Model.Backoff Model.RetryResolve
  Proofs.Overrides Proofs.RetryResolve.
Open Scope N_scope.

(* The reverse / extend_reverse / chain bookkeeping: for any number of files and profiles the
   override list a profile is evaluated with is
     ovs(selected, repo) ++ ovs(selected, tool_1) ++ ... ++ ovs(default, repo) ++ ovs(default, tool_1) ++ ...
   (the selected part is absent when the default profile itself is selected). *)
Theorem C06_override_order :
  forall repo tools sel,
    wf_file repo = true -> forallb wf_file tools = true ->
    profile_overrides (read_compiled repo tools) sel = ordered_overrides repo tools sel.
Proof. exact override_order. Qed.
Print Assumptions C06_override_order.

(* Each setting takes the value of the first override, in that order, that matches the test by
   platform and by filter and sets the setting; without one, the profile-level value. *)
Theorem C06_first_match_wins :
  forall e bp builtin repo tools sel t s,
    wf_file repo = true -> forallb wf_file tools = true ->
    settings_for e bp builtin repo tools sel t s =
    match find (fun o => applies e bp t o && is_some (data_get s (ov_data o)))
               (ordered_overrides repo tools sel) with
    | Some o => data_get s (ov_data o)
    | None => profile_value (custom_profile builtin repo tools sel)
                            (default_profile builtin repo tools) s
    end.
Proof. exact first_match_wins. Qed.
Print Assumptions C06_first_match_wins.

(* Profile level, all eleven settings, no setting left out: the tail of TestSettings::new is the
   documented rule [documented_profile_value] -- the selected profile's value, else the default
   profile's; priority and test-group have no profile-level key and take their fixed defaults;
   the JUnit storage flags are read like that too, and are off when no junit.path is configured
   -- except in the class F22 (a custom profile without a junit.path of its own is selected and
   the default profile has one), where the code takes the path from the custom profile alone
   (JunitConfig::new) and the two JUnit storage flags are off. *)
Theorem C06_profile_then_default :
  forall custom dflt s,
    profile_value custom dflt s =
    if known_f22 custom dflt && is_junit_setting s then Some (VLeaf a_false)
    else documented_profile_value custom dflt s.
Proof. exact profile_then_default. Qed.
Print Assumptions C06_profile_then_default.

(* F22. With the documented profile-level rule in place of the coded one, the statement "the
   resolved value is the first matching override's, else the selected profile's, else the
   default profile's" is false (witness: [profile.default.junit] path + store-success-output =
   true, [profile.ci] without a junit section, --profile ci) ... *)
Theorem C06_junit_path_refuted :
  exists e bp builtin repo tools sel t s,
    wf_file builtin = true /\ wf_file repo = true /\ forallb wf_file tools = true /\
    settings_for e bp builtin repo tools sel t s
    <> documented_settings_for e bp builtin repo tools sel t s.
Proof. exact junit_documented_refuted. Qed.
Print Assumptions C06_junit_path_refuted.

(* ... and true, for every setting, outside the class. *)
Theorem C06_documented_outside_known :
  forall e bp builtin repo tools sel t s,
    known_f22 (custom_profile builtin repo tools sel) (default_profile builtin repo tools) = false ->
    settings_for e bp builtin repo tools sel t s
    = documented_settings_for e bp builtin repo tools sel t s.
Proof. exact settings_documented_outside_known. Qed.
Print Assumptions C06_documented_outside_known.

(* File layering, key by key: the value of key k of profile n in the built configuration is the
   fold of what the files say about that key alone, built-in defaults first, then tool configs
   from last to first, then the repository config. *)
Theorem C06_key_slot :
  forall builtin repo tools n k,
    wf_file builtin = true -> wf_file repo = true -> forallb wf_file tools = true ->
    olookup k (merged_profile builtin repo tools n) =
    slot (map (binding n k) (layers builtin repo tools)).
Proof. exact merged_key_slot. Qed.
Print Assumptions C06_key_slot.

(* A scalar (or array) given by the highest-priority file that gives the key wins as a whole:
   repository config beats tool configs (in the order given) beats built-in defaults. *)
Theorem C06_scalar_precedence :
  forall builtin repo tools n k a,
    wf_file builtin = true -> wf_file repo = true -> forallb wf_file tools = true ->
    whole_value builtin repo tools n k = Some (VLeaf a) ->
    olookup k (merged_profile builtin repo tools n) = Some (VLeaf a).
Proof. exact scalar_precedence. Qed.
Print Assumptions C06_scalar_precedence.

(* For a key only ever given as a table the same precedence holds sub-key by sub-key. *)
Theorem C06_leaf_key_precedence :
  forall builtin repo tools n k sk,
    wf_file builtin = true -> wf_file repo = true -> forallb wf_file tools = true ->
    (forall f a, In f (by_priority repo tools ++ [builtin]) -> binding n k f <> Some (VLeaf a)) ->
    sub (olookup k (merged_profile builtin repo tools n)) sk =
    leaf_value builtin repo tools n k sk.
Proof. exact leaf_key_precedence. Qed.
Print Assumptions C06_leaf_key_precedence.

(* F8. At whole-value granularity the documented precedence is false for table-valued keys ... *)
Theorem C06_whole_value_refuted :
  exists builtin repo tools n k,
    wf_file builtin = true /\ wf_file repo = true /\ forallb wf_file tools = true /\
    ~ osval_ext (olookup k (merged_profile builtin repo tools n))
                (whole_value builtin repo tools n k).
Proof. exact whole_value_refuted. Qed.
Print Assumptions C06_whole_value_refuted.

(* ... and true outside the class "two files give the key, for the same profile, as tables
   with different sub-key sets". *)
Theorem C06_whole_value_outside_known :
  forall builtin repo tools n k,
    wf_file builtin = true -> wf_file repo = true -> forallb wf_file tools = true ->
    known_f8 builtin repo tools n k = false ->
    osval_ext (olookup k (merged_profile builtin repo tools n))
              (whole_value builtin repo tools n k).
Proof. exact whole_value_outside_known. Qed.
Print Assumptions C06_whole_value_outside_known.

(* Each setting is resolved independently of the others: two configurations that agree on the
   s-components of every override and profile of every file (and on platforms and filters)
   resolve s to the same value, whatever else differs. *)
Theorem C06_independent :
  forall e bp builtin repo tools builtin' repo' tools' sel t s,
    wf_file builtin = true -> wf_file repo = true -> forallb wf_file tools = true ->
    wf_file builtin' = true -> wf_file repo' = true -> forallb wf_file tools' = true ->
    proj_file s builtin = proj_file s builtin' ->
    proj_file s repo = proj_file s repo' ->
    map (proj_file s) tools = map (proj_file s) tools' ->
    settings_for e bp builtin repo tools sel t s = settings_for e bp builtin' repo' tools' sel t s.
Proof. exact independent. Qed.
Print Assumptions C06_independent.

(* The command line and the environment, for retries (the one per-test setting that has both):
   clap takes --retries N when given and NEXTEST_RETRIES=N only otherwise ... *)
Theorem C06_cli_beats_env :
  forall cli env,
    clap_retries cli env = match cli, env with
                           | Some n, _ => Some n
                           | None, Some n => Some n
                           | None, None => None
                           end.
Proof. exact clap_cases. Qed.
Print Assumptions C06_cli_beats_env.

(* ... a value from either replaces what the whole configuration resolves for the test -- any
   files, profiles, overrides, selected profile, platforms, test -- by "N retries, no delay"
   (what the run then does: C07_forced_replaces_policy) ... *)
Theorem C06_cli_env_retries :
  forall (dec : option sval -> policy) cli env n c t,
    clap_retries cli env = Some n -> resolved_policy dec cli env c t = new_without_delay n.
Proof. exact resolved_forced. Qed.
Print Assumptions C06_cli_env_retries.

(* ... and with neither, the policy the unit runs is the resolution above: first matching
   override that sets retries, else the selected profile's retries, else the default profile's. *)
Theorem C06_retries_unforced :
  forall (dec : option sval -> policy) c t,
    wf_file (rc_repo c) = true -> forallb wf_file (rc_tools c) = true ->
    resolved_policy dec None None c t =
    dec match find (fun o => applies (rc_env c) (rc_bp c) t o && is_some (data_get SRetries (ov_data o)))
                   (ordered_overrides (rc_repo c) (rc_tools c) (rc_sel c)) with
        | Some o => data_get SRetries (ov_data o)
        | None => sel_then_default (custom_profile (rc_builtin c) (rc_repo c) (rc_tools c) (rc_sel c))
                                   (default_profile (rc_builtin c) (rc_repo c) (rc_tools c)) k_retries
        end.
Proof. exact resolved_unforced. Qed.
Print Assumptions C06_retries_unforced.

(* ---- non-vacuity and regression witnesses (closed computations) ---- *)

(* the hypotheses are met by a configuration with two tool files and two profiles *)
Example C06_wf_example :
  wf_file w_builtin = true /\ wf_file w_repo = true /\ forallb wf_file [w_tool1; w_tool2] = true.
Proof. repeat split; vm_compute; reflexivity. Qed.

Example C06_order_example :
  profile_overrides (read_compiled w_repo [w_tool1; w_tool2]) s_ci
  = [w_o3; w_o5; w_o6; w_o1; w_o2; w_o4; w_o6; w_o5]
  /\ profile_overrides (read_compiled w_repo [w_tool1; w_tool2]) default_name
     = [w_o1; w_o2; w_o4; w_o6; w_o5].
Proof. split; vm_compute; reflexivity. Qed.

(* test "a" built for the (windows) target under profile ci: retries from ci's first override,
   success-output from the tool's ci override, leak-timeout from the tool's default override,
   threads-required from the default profile of the last tool (the cfg(unix) override does not
   apply to the windows target), slow-timeout from ci's override *)
Example C06_first_match_example :
  settings_for w_env w_bp w_builtin w_repo [w_tool1; w_tool2] s_ci w_t0 SRetries
  = Some (VLeaf s_7)
  /\ settings_for w_env w_bp w_builtin w_repo [w_tool1; w_tool2] s_ci w_t0 SSuccessOutput
     = Some (VLeaf s_final)
  /\ settings_for w_env w_bp w_builtin w_repo [w_tool1; w_tool2] s_ci w_t0 SLeakTimeout
     = Some (VLeaf s_300ms)
  /\ settings_for w_env w_bp w_builtin w_repo [w_tool1; w_tool2] s_ci w_t0 SThreads
     = Some (VLeaf s_3)
  /\ settings_for w_env w_bp w_builtin w_repo [w_tool1; w_tool2] s_ci w_t0 SJunitSuccess
     = Some (VLeaf s_true)
  /\ settings_for w_env w_bp w_builtin w_repo [w_tool1; w_tool2] s_ci w_t0 SJunitFailure
     = Some (VLeaf s_true)
  (* a host test not named "a" under the default profile: the cfg(unix) override applies *)
  /\ settings_for w_env w_bp w_builtin w_repo [w_tool1; w_tool2] default_name w_t1 SThreads
     = Some (VLeaf s_2)
  /\ settings_for w_env w_bp w_builtin w_repo [w_tool1; w_tool2] default_name w_t1 SRetries
     = Some (VLeaf s_2)
  /\ settings_for w_env w_bp w_builtin w_repo [w_tool1; w_tool2] default_name w_t1 SJunitFailure
     = Some (VLeaf a_false)
  /\ settings_for w_env w_bp w_builtin w_repo [w_tool1; w_tool2] default_name w_t1 SPriority
     = Some (VLeaf a_zero).
Proof. repeat split; vm_compute; reflexivity. Qed.

(* F8 as the implementation shows it (reproduced through the harness on every run): period
   from the repository config together with the tool's terminate-after *)
Example C06_F8_witness :
  settings_for w_env w_bp w_builtin w_f8_repo [w_f8_tool] default_name w_t0 SSlowTimeout
  = Some (VTable [(s_period, s_10s); (s_terminate_after, s_2)])
  /\ whole_value w_builtin w_f8_repo [w_f8_tool] default_name k_slow_timeout
     = Some (VTable [(s_period, s_10s)])
  /\ known_f8 w_builtin w_f8_repo [w_f8_tool] default_name k_slow_timeout = true.
Proof. repeat split; vm_compute; reflexivity. Qed.

(* outside the class: tables with equal sub-key sets (and table-valued keys present) *)
Example C06_outside_known_example :
  known_f8 w_builtin w_repo [w_tool1; w_tool2] default_name k_slow_timeout = false
  /\ olookup k_slow_timeout (merged_profile w_builtin w_repo [w_tool1; w_tool2] default_name)
     = Some (VTable [(s_period, s_10s)]).
Proof. split; vm_compute; reflexivity. Qed.

(* independence: every non-retries component changed, same retries *)
Example C06_independent_example :
  proj_file SRetries w_repo = proj_file SRetries w_repo'
  /\ wf_file w_repo' = true
  /\ w_repo <> w_repo'.
Proof. repeat split; try (vm_compute; reflexivity). intros H. discriminate H. Qed.

(* F22 as the implementation shows it (reproduced through the harness on every run): under
   --profile ci the default profile's junit.path is not taken, so nothing is stored; the
   documented rule gives the default profile's store-success-output = true. Selecting the
   default profile itself, or giving ci its own path, is outside the class. *)
Example C06_F22_witness :
  settings_for w_env w_bp w_builtin w_f22_repo [] s_ci w_t0 SJunitSuccess = Some (VLeaf a_false)
  /\ documented_settings_for w_env w_bp w_builtin w_f22_repo [] s_ci w_t0 SJunitSuccess
     = Some (VLeaf s_true)
  /\ known_f22 (custom_profile w_builtin w_f22_repo [] s_ci) (default_profile w_builtin w_f22_repo []) = true
  /\ settings_for w_env w_bp w_builtin w_f22_repo [] default_name w_t0 SJunitSuccess = Some (VLeaf s_true)
  /\ known_f22 (custom_profile w_builtin w_f22_repo [] default_name)
               (default_profile w_builtin w_f22_repo []) = false
  /\ known_f22 (custom_profile w_builtin w_repo [w_tool1; w_tool2] s_ci)
               (default_profile w_builtin w_repo [w_tool1; w_tool2]) = false.
Proof. repeat split; vm_compute; reflexivity. Qed.

(* --retries 2 with NEXTEST_RETRIES=9 over a configuration that resolves retries = 7 for the test *)
Example C06_cli_example :
  let c := {| rc_env := w_env; rc_bp := w_bp; rc_builtin := w_builtin; rc_repo := w_repo;
              rc_tools := [w_tool1; w_tool2]; rc_sel := s_ci |} in
  let dec := fun v => match v with Some (VLeaf a) => Fixed (hd 0 a - 48) 1000 false | _ => Fixed 0 0 false end in
  resolved_policy dec (Some 2) (Some 9) c w_t0 = Fixed 2 0 false
  /\ resolved_policy dec None (Some 9) c w_t0 = Fixed 9 0 false
  /\ resolved_policy dec None None c w_t0 = Fixed 7 1000 false.
Proof. repeat split; vm_compute; reflexivity. Qed.
