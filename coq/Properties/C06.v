(* C06 — Per-test settings resolve by the documented precedence, setting by setting.
   Statements only; proofs are in Proofs/Overrides.v. *)
From NextestModel Require Import Base.Str Model.Overrides Proofs.Overrides.
Open Scope N_scope.

(* The reverse / extend_reverse / chain bookkeeping: for any number of files and profiles the
   override list a profile is evaluated with is
     ovs(selected, repo) ++ ovs(selected, tool_1) ++ ... ++ ovs(default, repo) ++ ovs(default, tool_1) ++ ...
   (the selected part is absent when the default profile itself is selected). *)
Theorem C06_override_order :
  forall repo tools sel,
    wf_file repo = true -> forallb wf_file tools = true ->
    profile_overrides (read_compiled repo tools) sel = ordered_overrides repo tools sel.
Proof. exact override_order. Qed.
Print Assumptions C06_override_order.

(* Each setting takes the value of the first override, in that order, that matches the test by
   platform and by filter and sets the setting; without one, the profile-level value. *)
Theorem C06_first_match_wins :
  forall e bp builtin repo tools sel t s,
    wf_file repo = true -> forallb wf_file tools = true ->
    settings_for e bp builtin repo tools sel t s =
    match find (fun o => applies e bp t o && is_some (data_get s (ov_data o)))
               (ordered_overrides repo tools sel) with
    | Some o => data_get s (ov_data o)
    | None => profile_value (custom_profile builtin repo tools sel)
                            (default_profile builtin repo tools) s
    end.
Proof. exact first_match_wins. Qed.
Print Assumptions C06_first_match_wins.

(* Profile level: the selected profile's value, else the default profile's (for the settings
   read from one key; priority and test-group have fixed defaults, JUnit storage is below). *)
Theorem C06_profile_then_default :
  forall custom dflt s k,
    setting_key s = Some k -> relevant_subkeys s = None ->
    profile_value custom dflt s = or_else (olookup k custom) (lookup k dflt).
Proof. exact profile_then_default. Qed.
Print Assumptions C06_profile_then_default.

(* File layering, key by key: the value of key k of profile n in the built configuration is the
   fold of what the files say about that key alone, built-in defaults first, then tool configs
   from last to first, then the repository config. *)
Theorem C06_key_slot :
  forall builtin repo tools n k,
    wf_file builtin = true -> wf_file repo = true -> forallb wf_file tools = true ->
    olookup k (merged_profile builtin repo tools n) =
    slot (map (binding n k) (layers builtin repo tools)).
Proof. exact merged_key_slot. Qed.
Print Assumptions C06_key_slot.

(* A scalar (or array) given by the highest-priority file that gives the key wins as a whole:
   repository config beats tool configs (in the order given) beats built-in defaults. *)
Theorem C06_scalar_precedence :
  forall builtin repo tools n k a,
    wf_file builtin = true -> wf_file repo = true -> forallb wf_file tools = true ->
    whole_value builtin repo tools n k = Some (VLeaf a) ->
    olookup k (merged_profile builtin repo tools n) = Some (VLeaf a).
Proof. exact scalar_precedence. Qed.
Print Assumptions C06_scalar_precedence.

(* For a key only ever given as a table the same precedence holds sub-key by sub-key. *)
Theorem C06_leaf_key_precedence :
  forall builtin repo tools n k sk,
    wf_file builtin = true -> wf_file repo = true -> forallb wf_file tools = true ->
    (forall f a, In f (by_priority repo tools ++ [builtin]) -> binding n k f <> Some (VLeaf a)) ->
    sub (olookup k (merged_profile builtin repo tools n)) sk =
    leaf_value builtin repo tools n k sk.
Proof. exact leaf_key_precedence. Qed.
Print Assumptions C06_leaf_key_precedence.

(* F8. At whole-value granularity the documented precedence is false for table-valued keys ... *)
Theorem C06_whole_value_refuted :
  exists builtin repo tools n k,
    wf_file builtin = true /\ wf_file repo = true /\ forallb wf_file tools = true /\
    ~ osval_ext (olookup k (merged_profile builtin repo tools n))
                (whole_value builtin repo tools n k).
Proof. exact whole_value_refuted. Qed.
Print Assumptions C06_whole_value_refuted.

(* ... and true outside the class "two files give the key, for the same profile, as tables
   with different sub-key sets". *)
Theorem C06_whole_value_outside_known :
  forall builtin repo tools n k,
    wf_file builtin = true -> wf_file repo = true -> forallb wf_file tools = true ->
    known_f8 builtin repo tools n k = false ->
    osval_ext (olookup k (merged_profile builtin repo tools n))
              (whole_value builtin repo tools n k).
Proof. exact whole_value_outside_known. Qed.
Print Assumptions C06_whole_value_outside_known.

(* Each setting is resolved independently of the others: two configurations that agree on the
   s-components of every override and profile of every file (and on platforms and filters)
   resolve s to the same value, whatever else differs. *)
Theorem C06_independent :
  forall e bp builtin repo tools builtin' repo' tools' sel t s,
    wf_file builtin = true -> wf_file repo = true -> forallb wf_file tools = true ->
    wf_file builtin' = true -> wf_file repo' = true -> forallb wf_file tools' = true ->
    proj_file s builtin = proj_file s builtin' ->
    proj_file s repo = proj_file s repo' ->
    map (proj_file s) tools = map (proj_file s) tools' ->
    settings_for e bp builtin repo tools sel t s = settings_for e bp builtin' repo' tools' sel t s.
Proof. exact independent. Qed.
Print Assumptions C06_independent.

(* The command line: with --retries (force_retries = Some p) every test's policy is p; the
   same for --success-output / --failure-output. *)
Theorem C06_cli_retries :
  forall cli resolved s p, cli s = Some p -> effective cli resolved s = Some p.
Proof. exact cli_wins. Qed.
Print Assumptions C06_cli_retries.

Theorem C06_cli_absent :
  forall cli resolved s, cli s = None -> effective cli resolved s = resolved s.
Proof. exact cli_absent. Qed.
Print Assumptions C06_cli_absent.

(* ---- non-vacuity and regression witnesses (closed computations) ---- *)

(* the hypotheses are met by a configuration with two tool files and two profiles *)
Example C06_wf_example :
  wf_file w_builtin = true /\ wf_file w_repo = true /\ forallb wf_file [w_tool1; w_tool2] = true.
Proof. repeat split; vm_compute; reflexivity. Qed.

Example C06_order_example :
  profile_overrides (read_compiled w_repo [w_tool1; w_tool2]) s_ci
  = [w_o3; w_o5; w_o6; w_o1; w_o2; w_o4; w_o6; w_o5]
  /\ profile_overrides (read_compiled w_repo [w_tool1; w_tool2]) default_name
     = [w_o1; w_o2; w_o4; w_o6; w_o5].
Proof. split; vm_compute; reflexivity. Qed.

(* test "a" built for the (windows) target under profile ci: retries from ci's first override,
   success-output from the tool's ci override, leak-timeout from the tool's default override,
   threads-required from the default profile of the last tool (the cfg(unix) override does not
   apply to the windows target), slow-timeout from ci's override *)
Example C06_first_match_example :
  settings_for w_env w_bp w_builtin w_repo [w_tool1; w_tool2] s_ci w_t0 SRetries
  = Some (VLeaf s_7)
  /\ settings_for w_env w_bp w_builtin w_repo [w_tool1; w_tool2] s_ci w_t0 SSuccessOutput
     = Some (VLeaf s_final)
  /\ settings_for w_env w_bp w_builtin w_repo [w_tool1; w_tool2] s_ci w_t0 SLeakTimeout
     = Some (VLeaf s_300ms)
  /\ settings_for w_env w_bp w_builtin w_repo [w_tool1; w_tool2] s_ci w_t0 SThreads
     = Some (VLeaf s_3)
  /\ settings_for w_env w_bp w_builtin w_repo [w_tool1; w_tool2] s_ci w_t0 SJunitSuccess
     = Some (VLeaf s_true)
  /\ settings_for w_env w_bp w_builtin w_repo [w_tool1; w_tool2] s_ci w_t0 SJunitFailure
     = Some (VLeaf s_true)
  (* a host test not named "a" under the default profile: the cfg(unix) override applies *)
  /\ settings_for w_env w_bp w_builtin w_repo [w_tool1; w_tool2] default_name w_t1 SThreads
     = Some (VLeaf s_2)
  /\ settings_for w_env w_bp w_builtin w_repo [w_tool1; w_tool2] default_name w_t1 SRetries
     = Some (VLeaf s_2)
  /\ settings_for w_env w_bp w_builtin w_repo [w_tool1; w_tool2] default_name w_t1 SJunitFailure
     = Some (VLeaf a_false)
  /\ settings_for w_env w_bp w_builtin w_repo [w_tool1; w_tool2] default_name w_t1 SPriority
     = Some (VLeaf a_zero).
Proof. repeat split; vm_compute; reflexivity. Qed.

(* F8 as the implementation shows it (reproduced through the harness on every run): period
   from the repository config together with the tool's terminate-after *)
Example C06_F8_witness :
  settings_for w_env w_bp w_builtin w_f8_repo [w_f8_tool] default_name w_t0 SSlowTimeout
  = Some (VTable [(s_period, s_10s); (s_terminate_after, s_2)])
  /\ whole_value w_builtin w_f8_repo [w_f8_tool] default_name k_slow_timeout
     = Some (VTable [(s_period, s_10s)])
  /\ known_f8 w_builtin w_f8_repo [w_f8_tool] default_name k_slow_timeout = true.
Proof. repeat split; vm_compute; reflexivity. Qed.

(* outside the class: tables with equal sub-key sets (and table-valued keys present) *)
Example C06_outside_known_example :
  known_f8 w_builtin w_repo [w_tool1; w_tool2] default_name k_slow_timeout = false
  /\ olookup k_slow_timeout (merged_profile w_builtin w_repo [w_tool1; w_tool2] default_name)
     = Some (VTable [(s_period, s_10s)]).
Proof. split; vm_compute; reflexivity. Qed.

(* independence: every non-retries component changed, same retries *)
Example C06_independent_example :
  proj_file SRetries w_repo = proj_file SRetries w_repo'
  /\ wf_file w_repo' = true
  /\ w_repo <> w_repo'.
Proof. repeat split; try (vm_compute; reflexivity). intros H. discriminate H. Qed.
