(* C08 -- Concurrency never exceeds thread or group limits; dispatch follows priority.
   Statements only; proofs are in Proofs/FutureQueue.v and Proofs/Priority.v.
   The model (Model/FutureQueue.v) is future-queue 0.4.0's grouped queue as nextest drives it:
   [fq_new test_threads groups tests] with weight = threads-required, and any sequence of the
   three operations every poll of the real stream decomposes into. *)
From NextestModel Require Import Base.Str Model.FutureQueue Model.Priority.
From NextestModel Require Import Proofs.FutureQueue Proofs.Priority.
From Coq Require Import ZArith Permutation Sorted.
Open Scope N_scope.

(* In every state reachable by any operation sequence the global limit never changes, the
   queue's own counter equals the sum over the futures in progress of their weights capped at
   the limit, and that sum is at most the limit. *)
Theorem C08_global_inv :
  forall gm grps items ops,
    let q := fst (fq_run (fq_new gm grps items) ops) in
    gmax q = gm /\ global_load q = gcur q /\ gcur q <= gm.
Proof. exact c08_global_inv. Qed.
Print Assumptions C08_global_inv.

(* The same per configured group k with max-threads m: weights capped at m, sum at most m. *)
Theorem C08_group_inv :
  forall gm grps items ops k m,
    assoc_first k grps = Some m ->
    let q := fst (fq_run (fq_new gm grps items) ops) in
    exists g, glookup k (groups q) = Some g /\ g_max g = m /\
              group_load k m (running q) = g_cur g /\ g_cur g <= m.
Proof. exact c08_group_inv. Qed.
Print Assumptions C08_group_inv.

(* --no-capture forces test_threads = 1: with every threads-required >= 1 (0 is rejected by the
   config parser) at most one test is in progress at any time. *)
Theorem C08_no_capture_serial :
  forall grps items ops,
    Forall (fun it => 1 <= it_w it) items ->
    (length (running (fst (fq_run (fq_new 1 grps items) ops))) <= 1)%nat.
Proof. exact c08_no_capture_serial. Qed.
Print Assumptions C08_no_capture_serial.

(* Items leave the source stream strictly in stream order: what has been pulled so far followed
   by what is still pending is the list the queue was given (the priority-sorted list). *)
Theorem C08_dispatch_order :
  forall gm grps items ops,
    pulls (snd (fq_run (fq_new gm grps items) ops)) ++
    pending (fst (fq_run (fq_new gm grps items) ops)) = items.
Proof. intros gm grps items ops. exact (fq_run_pulls ops (fq_new gm grps items)). Qed.
Print Assumptions C08_dispatch_order.

(* Under serial execution (limit 1) the start order IS the pull order: every pulled item is
   started at once, none is parked in a group queue (unless the queue panicked on an unknown
   group). No assumption on weights or group limits. *)
Theorem C08_serial_start_order :
  forall grps items ops,
    panicked (fst (fq_run (fq_new 1 grps items) ops)) = false ->
    map r_item (starts (snd (fq_run (fq_new 1 grps items) ops))) =
    pulls (snd (fq_run (fq_new 1 grps items) ops)).
Proof. intros grps items ops. exact (fq_run_serial ops _ (serial_ok_new grps items)). Qed.
Print Assumptions C08_serial_start_order.

(* TestPriorityQueue's sort: highest priority first, a permutation, and stable -- tests of equal
   priority keep the order in which iter_tests() produced them (binary id, then name). *)
Theorem priority_sort_spec :
  forall l,
    StronglySorted (fun a b => (pt_prio b <= pt_prio a)%Z) (priority_sort l) /\
    Permutation (priority_sort l) l /\
    forall p, filter (fun t => (pt_prio t =? p)%Z) (priority_sort l) =
              filter (fun t => (pt_prio t =? p)%Z) l.
Proof. exact priority_sort_correct. Qed.
Print Assumptions priority_sort_spec.

(* The queue handed to the scheduler, whole: a permutation of the tests, ordered by descending
   priority, then binary id (RustBinaryId's component-wise Ord, [binary_id_cmp]), then test name. *)
Theorem C08_queue_order :
  forall l,
    StronglySorted queue_le (priority_queue l) /\ Permutation (priority_queue l) l.
Proof. exact priority_queue_sorted. Qed.
Print Assumptions C08_queue_order.

(* Scheduler liveness (used by C02): REFUTED for the faithful model. DESIGN section 6, F7:
   test-threads = 3, group 0 with max-threads 2, a (group 0, weight 1), b (group 0, weight 2),
   c (no group, weight 2); a completes, then c: every started future has completed, the queue
   did not panic, and b was never started. *)
Definition f7_items : list item :=
  [mkitem 0 1 (Some 0); mkitem 1 2 (Some 0); mkitem 2 2 None].

Theorem all_started_refuted :
  exists gm grps items ids, ~ all_started gm grps items ids.
Proof.
  exists 3, [(0, 2)], f7_items, [0; 2]. unfold all_started. intros H.
  assert (E : unstarted (complete_run 3 [(0, 2)] f7_items [0; 2]) = [mkitem 1 2 (Some 0)])
    by (vm_compute; reflexivity).
  rewrite H in E; [discriminate | vm_compute; reflexivity | vm_compute; reflexivity].
Qed.
Print Assumptions all_started_refuted.

(* ... and PROVED outside the class that recognises F7: when all members of a group have the same
   threads-required ([uniform_b], computable), every complete run -- any completion order --
   starts every item (group keys unique, as in nextest's map of test groups). *)
Theorem all_started_outside_known :
  forall gm grps items ids,
    NoDup (map fst grps) -> uniform_b items = true -> all_started gm grps items ids.
Proof. intros gm grps items ids Hnd Hu. exact (all_started_uniform items Hu gm grps ids Hnd). Qed.
Print Assumptions all_started_outside_known.

(* the witness is inside the known class; a uniform configuration that does use the group queue
   is outside it *)
Example C08_example_f7_in_known_class : uniform_b f7_items = false.
Proof. vm_compute. reflexivity. Qed.

Example C08_example_uniform_queue_used :
  let items := [mkitem 0 2 (Some 0); mkitem 1 2 (Some 0); mkitem 2 2 None; mkitem 3 2 (Some 0)] in
  uniform_b items = true /\
  map it_id (queued_items (fst (fq_run (fq_new 4 [(0, 2)] items) [OpFill]))) = [1] /\
  unstarted (complete_run 4 [(0, 2)] items [2; 0; 1; 3]) = [] /\
  running (complete_run 4 [(0, 2)] items [2; 0; 1; 3]) = [].
Proof. vm_compute. repeat split; reflexivity. Qed.

(* ---- closed examples (non-vacuity) *)

(* a state with two futures in progress, one of them in a group, one item parked in the group
   queue: the invariants speak about a non-trivial state *)
Example C08_example_state :
  let q := fst (fq_run (fq_new 3 [(0, 2)] f7_items) [OpFill]) in
  map (fun r => it_id (r_item r)) (running q) = [0; 2] /\ gcur q = 3 /\
  map it_id (queued_items q) = [1] /\ global_load q = 3 /\ group_load 0 2 (running q) = 1.
Proof. vm_compute. repeat split; reflexivity. Qed.

(* weights above the limit are capped: weight 5 under limit 2 occupies 2 *)
Example C08_example_cap :
  let q := fst (fq_run (fq_new 2 [] [mkitem 0 5 None; mkitem 1 1 None]) [OpFill]) in
  map (fun r => it_id (r_item r)) (running q) = [0] /\ gcur q = 2 /\ global_load q = 2.
Proof. vm_compute. repeat split; reflexivity. Qed.

(* the safety invariants hold along the F7 run as well; completing in the other order starts b *)
Example C08_example_f7_other_order :
  unstarted (complete_run 3 [(0, 2)] f7_items [2; 0; 1]) = [] /\
  running (complete_run 3 [(0, 2)] f7_items [2; 0; 1]) = [].
Proof. vm_compute. split; reflexivity. Qed.

Example C08_example_serial :
  map (fun r => it_id (r_item r))
      (starts (snd (fq_run (fq_new 1 [(0, 1)] f7_items) [OpFill; OpComplete 0; OpComplete 1]))) = [0; 1; 2].
Proof. vm_compute. reflexivity. Qed.

(* priorities: highest first, ties in iter_tests order; binary ids compare by components, so
   "a::x" sorts after "a" but "a-b" sorts after "a::x" although '-' < ':' *)
Example C08_example_priority :
  map (fun t => (pt_bin t, pt_name t))
      (priority_queue [mkpt [97;45;98] [116] 0; mkpt [97;58;58;120] [116] 0;
                       mkpt [97] [122] 5; mkpt [97] [97] 0]) =
  [([97], [122]); ([97], [97]); ([97;58;58;120], [116]); ([97;45;98], [116])].
Proof. vm_compute. reflexivity. Qed.

(* ---- additions: group membership decided by the test's configured group ------------------
   C08_group_inv counts the members of a group by the tag the queue attaches to a future in
   progress ([r_grp]).  Proofs/FutureQueueGroups.v proves that tag equal to the group of the item
   the future runs ([it_grp (r_item r)]) in every reachable state, so the bound holds for "the
   tests of group k that are alive". *)
From NextestModel Require Import Proofs.FutureQueueGroups.

Theorem C08_group_tag_is_item_group :
  forall gm grps items ops,
    let res := fq_run (fq_new gm grps items) ops in
    Forall (fun r => rgroup r = it_grp (r_item r)) (running (fst res)) /\
    Forall (fun r => rgroup r = it_grp (r_item r)) (starts (snd res)).
Proof. exact group_tag_is_item_group. Qed.
Print Assumptions C08_group_tag_is_item_group.

Theorem C08_group_limit_by_item_group :
  forall gm grps items ops k m,
    assoc_first k grps = Some m ->
    item_group_load k m (running (fst (fq_run (fq_new gm grps items) ops))) <= m.
Proof. exact c08_group_inv_by_item. Qed.
Print Assumptions C08_group_limit_by_item_group.

(* tests 1 and 2 are configured into group 7 (max-threads 2, weights 1): both counted *)
Example C08_example_item_group_load :
  let q := fst (fq_run (fq_new 4 [(7, 2)] [mkitem 0 1 None; mkitem 1 1 (Some 7); mkitem 2 1 (Some 7);
                                          mkitem 3 1 (Some 7)]) [OpFill]) in
  item_group_load 7 2 (running q) = 2 /\ map (fun r => it_id (r_item r)) (running q) = [0; 1; 2].
Proof. vm_compute. split; reflexivity. Qed.
