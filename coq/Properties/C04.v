(* C04 — The set of tests run is exactly the documented composition of all filters.
   Statements only; proofs are in Proofs/{StrFacts,FilterFull,CliArgs}.v.

   Vocabulary (Proofs/FilterFull.v), for a filter built by TestFilterBuilder::new from a
   run-ignored mode [ri], an optional partition [pb], name patterns [p], and — for the binary at
   hand — the answers [ets]/[dt] of the -E filtersets / the default filter on each test name, with
   [b] = BDefaultSet unless --ignore-default-filter:
     ignored_ok ri ign        the ignored-test policy admits a test whose ignored flag is [ign]
     name_ok p name           no --skip pattern applies (an exact one equal to the name, or a
                              substring one occurring in it) and, if there is any positive
                              pattern, some exact one equals the name or some substring one
                              occurs in it
     expr_ok ets name         no filterset was given, or one of them matches the test
     default_ok b dt name     the default filter is disabled, or it matches the test
     partition_ok pb cur name no partition; or hash: xxh64(name) mod n = m-1; or count: the
                              partitioner's counter [cur] (tests accepted so far mod n) is m-1
   [infix s name] is "s occurs as a contiguous substring of name" (Proofs/StrFacts.v). *)
From NextestModel Require Import Base.Str Model.Xxh64 Model.Filter Model.NameFilter Model.Partition
     Model.FilterFull Model.CliArgs Proofs.StrFacts Proofs.Partition Proofs.FilterFull Proofs.CliArgs.
Open Scope N_scope.

(* ---- selection: exactly the conjunction of the five documented clauses *)
Theorem C04_selected_iff :
  forall ri pb p ets dt b cur name ign,
    wf_patterns p ->
    (fst (filter_match_full (builder_new ri pb p ets dt b) cur name ign) = Matches <->
     ignored_ok ri ign /\ name_ok p name /\ expr_ok ets name /\ default_ok b dt name /\
     partition_ok pb cur name).
Proof. exact selected_iff. Qed.
Print Assumptions C04_selected_iff.

(* ---- the reported reason is that of the first failing clause, in the order ignored, name,
   filtersets, default filter, partition (so the name reason is preferred when both the name
   patterns and the filtersets reject, and the default filter is only blamed when some filterset
   matched) *)
Theorem C04_first_reason :
  forall ri pb p ets dt b cur name ign r,
    wf_patterns p ->
    (fst (filter_match_full (builder_new ri pb p ets dt b) cur name ign) = Mismatch r <->
     (r = MIgnored /\ ~ ignored_ok ri ign) \/
     (r = MString /\ ignored_ok ri ign /\ ~ name_ok p name) \/
     (r = MExpression /\ ignored_ok ri ign /\ name_ok p name /\ ~ expr_ok ets name) \/
     (r = MDefaultFilter /\ ignored_ok ri ign /\ name_ok p name /\ expr_ok ets name /\
      ~ default_ok b dt name) \/
     (r = MPartition /\ ignored_ok ri ign /\ name_ok p name /\ expr_ok ets name /\
      default_ok b dt name /\ ~ partition_ok pb cur name)).
Proof. exact first_reason. Qed.
Print Assumptions C04_first_reason.

(* the variant invariant the two theorems assume holds for every pattern set nextest builds:
   TestFilterPatterns::new followed by any sequence of add_* calls ... *)
Theorem C04_patterns_wellformed : forall pre ops, wf_patterns (build_patterns pre ops).
Proof. exact wf_build. Qed.
Print Assumptions C04_patterns_wellformed.

(* ... and the four collections hold exactly what was added *)
Theorem C04_patterns_contents :
  forall pre ops,
    subs_of (build_patterns pre ops) = pre ++ filter_map op_sub ops /\
    skips_of (build_patterns pre ops) = filter_map op_skip ops /\
    (forall x, In x (exacts_of (build_patterns pre ops)) <-> In (OpExact x) ops) /\
    (forall x, In x (skip_exacts_of (build_patterns pre ops)) <-> In (OpSkipExact x) ops).
Proof. exact build_patterns_contents. Qed.
Print Assumptions C04_patterns_contents.

(* ---- a whole listing pass with a partition: the test at position i is selected iff the four
   other clauses hold and the shard is the one that owns that position (C13's [owner]: hash of
   the name, or the number of earlier accepted tests, mod n) *)
Theorem C04_listing_selected_iff :
  forall k m n ri p ets dt b ign names i nm,
    wf_patterns p -> 1 <= n -> 1 <= m <= n -> nth_error names i = Some nm ->
    let f := builder_new ri (Some (mkpb k m n)) p ets dt b in
    (nth_error (pass (tf_pb f) (pre_full f) ign names 0) i = Some (nm, (ign, Matches)) <->
     ignored_ok ri ign /\ name_ok p nm /\ expr_ok ets nm /\ default_ok b dt nm /\
     m = owner k (pre_full f) ign n names i nm).
Proof. exact listing_selected_iff. Qed.
Print Assumptions C04_listing_selected_iff.

(* ---- name matching *)
Theorem C04_name_match_iff :
  forall p name, wf_patterns p ->
    (nm_accepts (rname_match (resolve p) name) = true <-> name_ok p name).
Proof. exact name_match_ok. Qed.
Print Assumptions C04_name_match_iff.

(* a skip pattern overrides every positive pattern (no well-formedness needed) *)
Theorem C04_skip_overrides_match :
  forall p name, skipped p name -> rname_match (resolve p) name = NMis MString.
Proof. exact skip_overrides. Qed.
Print Assumptions C04_skip_overrides_match.

Theorem C04_no_patterns_match_everything :
  forall p name, has_positive p = false -> skips_of p = [] -> skip_exacts_of p = [] ->
    rname_match (resolve p) name = MatchEmpty.
Proof. exact no_patterns_match_all. Qed.
Print Assumptions C04_no_patterns_match_everything.

(* the only name-match reason is "string" *)
Theorem C04_name_reason_is_string :
  forall r name x, rname_match r name = NMis x -> x = MString.
Proof. exact rname_match_reason. Qed.
Print Assumptions C04_name_reason_is_string.

(* the substring test of the model is the contiguous-substring relation *)
Theorem C04_is_infix_spec :
  forall p s, is_infix p s = true <-> exists a b, s = a ++ p ++ b.
Proof. exact is_infix_spec. Qed.
Print Assumptions C04_is_infix_spec.

(* F1: resolve before the repair differed from the repaired one exactly on pattern sets that
   consist only of exact skip patterns *)
Theorem C04_F1_repair_scope :
  forall p, resolve_unfixed p <> resolve p <->
            has_positive p = false /\ skips_of p = [] /\ skip_exacts_of p <> [].
Proof. exact resolve_unfixed_differs. Qed.
Print Assumptions C04_F1_repair_scope.

(* ---- binary level. Premise (stated, not assumed globally): for each filterset the binary-level
   answer, when definite, is the test-level answer for every test name (lemma kleene_sound of
   C05 for the real evaluator; checked on every truth table the correspondence run uses). *)
Theorem C04_binary_sound :
  forall ebs ets db dt b r,
    Forall2 kleene_sound ebs ets -> kleene_sound db dt ->
    filter_binary_match ebs db b = BMismatch r ->
    forall ri pb p cur name ign,
      fst (filter_match_full (builder_new ri pb p ets dt b) cur name ign) <> Matches.
Proof. exact binary_sound_match. Qed.
Print Assumptions C04_binary_sound.

(* what each verdict means for every test of the binary *)
Theorem C04_binary_verdict_meaning :
  forall ebs ets db dt b,
    Forall2 kleene_sound ebs ets -> kleene_sound db dt ->
    (filter_binary_match ebs db b = BMismatch BRExpression -> forall name, ~ expr_ok ets name) /\
    (filter_binary_match ebs db b = BMismatch BRDefaultSet -> forall name, ~ default_ok b dt name) /\
    (filter_binary_match ebs db b = BDefinite ->
     forall name, expr_ok ets name /\ default_ok b dt name).
Proof. exact binary_match_meaning. Qed.
Print Assumptions C04_binary_verdict_meaning.

(* a binary containing a selected test is never skipped *)
Theorem C04_matching_test_keeps_binary :
  forall ebs ets db dt b ri pb p cur name ign,
    Forall2 kleene_sound ebs ets -> kleene_sound db dt ->
    fst (filter_match_full (builder_new ri pb p ets dt b) cur name ign) = Matches ->
    b_is_match (filter_binary_match ebs db b) = true.
Proof. exact matching_test_keeps_binary. Qed.
Print Assumptions C04_matching_test_keeps_binary.

(* deciding per binary whether to list it at all never changes the set of tests that run *)
Theorem C04_prefilter_preserves_selection :
  forall ebs ets db dt ri pb p b non_ignored ignored,
    Forall2 kleene_sound ebs ets -> kleene_sound db dt ->
    let f := builder_new ri pb p ets dt b in
    suite_selected (list_binary f ebs db non_ignored ignored) =
    matched (process_output (tf_pb f) (pre_full f) non_ignored ignored).
Proof. exact prefilter_preserves_selection. Qed.
Print Assumptions C04_prefilter_preserves_selection.

(* ---- emulated libtest arguments (everything after `--`) *)

(* on the documented grammar the merge is the documented one ... *)
Theorem C04_cli_documented_merge :
  forall ri0 pre items tr,
    Forall item_ok items ->
    merge_test_binary_args ri0 pre (render items ++ render_trailing tr) =
    documented_merge ri0 pre items tr.
Proof. exact merge_documented. Qed.
Print Assumptions C04_cli_documented_merge.

(* ... and selects by name exactly as documented: no --skip argument matches, and some name
   filter does if any was given; `--exact` turns the arguments after `--` (never those before it)
   into equality tests *)
Theorem C04_cli_selection :
  forall ri0 pre items tr exact ri,
    Forall item_ok items ->
    scan_items items false = Some exact ->
    merge_ignored ri0 (flat_map item_flags items) = inl ri ->
    exists p,
      merge_test_binary_args ri0 pre (render items ++ render_trailing tr) = CliOk ri p /\
      forall name,
        nm_accepts (rname_match (resolve p) name) = true <->
        (~ exists x, In x (skip_args items) /\ arg_matches exact x name) /\
        ((pre = [] /\ pos_args items tr = []) \/
         (exists x, In x pre /\ infix x name) \/
         (exists x, In x (pos_args items tr) /\ arg_matches exact x name)).
Proof. exact cli_selection. Qed.
Print Assumptions C04_cli_selection.

(* --exact is "given" iff it occurs once; twice is an error *)
Theorem C04_cli_exact_scan :
  forall items seen,
    scan_items items seen =
    match (count_exact items + (if seen then 1 else 0))%nat with
    | O => Some false | S O => Some true | _ => None
    end.
Proof. exact scan_items_spec. Qed.
Print Assumptions C04_cli_exact_scan.

(* `-- --exact --skip x` rejects exactly the test named x *)
Theorem C04_cli_exact_skip :
  forall x, x <> s_dashdash -> x <> s_exact ->
    exists p, merge_test_binary_args None [] [s_exact; s_skip; x] = CliOk None p /\
              forall name, nm_accepts (rname_match (resolve p) name) = true <-> name <> x.
Proof. exact cli_exact_skip. Qed.
Print Assumptions C04_cli_exact_skip.

(* `-- --skip x` rejects exactly the tests whose name contains x *)
Theorem C04_cli_skip :
  forall x, x <> s_dashdash -> x <> s_exact ->
    exists p, merge_test_binary_args None [] [s_skip; x] = CliOk None p /\
              forall name, nm_accepts (rname_match (resolve p) name) = true <-> ~ infix x name.
Proof. exact cli_skip. Qed.
Print Assumptions C04_cli_skip.

(* `-- --exact x` selects exactly the test named x; `-- x` those containing x (or a filter given
   before `--`) *)
Theorem C04_cli_exact_name :
  forall x, starts_with_dash x = false ->
    exists p, merge_test_binary_args None [] [s_exact; x] = CliOk None p /\
              forall name, nm_accepts (rname_match (resolve p) name) = true <-> name = x.
Proof. exact cli_exact_name. Qed.
Print Assumptions C04_cli_exact_name.

Theorem C04_cli_substring_name :
  forall pre x, starts_with_dash x = false ->
    exists p, merge_test_binary_args None pre [x] = CliOk None p /\
              forall name, nm_accepts (rname_match (resolve p) name) = true <->
                           infix x name \/ exists y, In y pre /\ infix y name.
Proof. exact cli_substring_name. Qed.
Print Assumptions C04_cli_substring_name.

(* --ignored / --include-ignored, their conflicts, and the two other argument errors *)
Theorem C04_cli_ignored_flags :
  forall pre,
    merge_test_binary_args None pre [s_ignored] = CliOk (Some RIOnly) (patterns_new pre) /\
    merge_test_binary_args None pre [s_include_ignored] = CliOk (Some RIAll) (patterns_new pre) /\
    merge_test_binary_args None pre [s_ignored; s_include_ignored] = CliErr EMutuallyExclusive /\
    merge_test_binary_args None pre [s_ignored; s_ignored] = CliErr EDuplicated /\
    (forall r, merge_test_binary_args (Some r) pre [s_ignored] =
               CliErr (if ri_eqb r RIOnly then EDuplicated else EMutuallyExclusive)) /\
    merge_test_binary_args None pre [s_exact; s_exact] = CliErr EDuplicated /\
    merge_test_binary_args None pre [s_skip] = CliErr EMissingArg.
Proof. exact cli_ignored_flags. Qed.
Print Assumptions C04_cli_ignored_flags.

Theorem C04_cli_trailing_are_names :
  forall ri0 pre l,
    merge_test_binary_args ri0 pre (s_dashdash :: l) = CliOk ri0 (build_patterns pre (map OpSub l)).
Proof. exact cli_trailing. Qed.
Print Assumptions C04_cli_trailing_are_names.

(* ---- non-vacuity and regression witnesses (closed computations) *)
Definition tA : str := [97; 108; 112; 104; 97].          (* alpha *)
Definition tB : str := [98; 101; 116; 97].               (* beta *)
Definition tB2 : str := [98; 101; 116; 97; 50].          (* beta2 *)
Definition pA : str := [97].                             (* a *)
Definition pL : str := [108; 112].                       (* lp *)

(* a filter where every stage is live: substring "a", exact skip "beta", one filterset matching
   names containing "lp" or equal to beta2, default filter rejecting beta2, hash partition 1/1 *)
Definition ex_filter : tfilter :=
  builder_new RIDefault (Some (mkpb PHash 1 1))
              (build_patterns [pA] [OpSkipExact tB])
              [fun nm => is_infix pL nm || str_eqb nm tB2] (fun nm => negb (str_eqb nm tB2))
              BDefaultSet.

Example C04_every_stage_reachable :
  fst (filter_match_full ex_filter 0 tA false) = Matches /\
  fst (filter_match_full ex_filter 0 tA true) = Mismatch MIgnored /\
  fst (filter_match_full ex_filter 0 tB false) = Mismatch MString /\
  fst (filter_match_full ex_filter 0 [97; 98] false) = Mismatch MExpression /\
  fst (filter_match_full ex_filter 0 tB2 false) = Mismatch MDefaultFilter /\
  fst (filter_match_full (builder_new RIDefault (Some (mkpb PCount 2 2)) patterns_default []
                                      (fun _ => true) BAll) 0 tA false) = Mismatch MPartition.
Proof. repeat split; vm_compute; reflexivity. Qed.

(* the name reason wins over the expression reason; the expression reason over the default
   filter *)
Example C04_reason_preference :
  fst (filter_match_full (builder_new RIAll None (build_patterns [] [OpSkipExact tB])
                                      [fun _ => false] (fun _ => false) BDefaultSet) 0 tB false)
  = Mismatch MString /\
  fst (filter_match_full (builder_new RIAll None patterns_default
                                      [fun _ => false] (fun _ => false) BDefaultSet) 0 tB false)
  = Mismatch MExpression.
Proof. split; vm_compute; reflexivity. Qed.

(* F1 witness: `-- --exact --skip beta`. Repaired: beta is rejected, alpha and beta2 run.
   Before the repair every test ran. *)
Example C04_F1_repaired :
  merge_test_binary_args None [] [s_exact; s_skip; tB] = CliOk None (SkipOnly [] [tB]) /\
  map (fun nm => name_match_code (rname_match (resolve (SkipOnly [] [tB])) nm)) [tA; tB; tB2]
  = [1; 12; 1].
Proof. split; vm_compute; reflexivity. Qed.

Example C04_F1_unfixed_witness :
  map (fun nm => name_match_code (rname_match (resolve_unfixed (SkipOnly [] [tB])) nm)) [tA; tB; tB2]
  = [0; 0; 0].
Proof. vm_compute; reflexivity. Qed.

(* binary level: a definite mismatch of the only filterset skips the binary; an unknown answer
   keeps it; the premises of C04_binary_sound are satisfiable by non-trivial tables *)
Example C04_binary_examples :
  filter_binary_match [Some false] (Some true) BDefaultSet = BMismatch BRExpression /\
  filter_binary_match [Some false; None] (Some true) BDefaultSet = BPossible /\
  filter_binary_match [None; Some true] None BDefaultSet = BPossible /\
  filter_binary_match [None; Some true] None BAll = BDefinite /\
  filter_binary_match [] (Some false) BDefaultSet = BMismatch BRDefaultSet /\
  filter_binary_match [None] (Some false) BDefaultSet = BMismatch BRDefaultSet /\
  filter_binary_match [] (Some false) BAll = BDefinite.
Proof. repeat split; vm_compute; reflexivity. Qed.

Example C04_kleene_premise_satisfiable :
  Forall2 kleene_sound [Some false; None] [fun _ => false; fun nm => is_infix pA nm] /\
  kleene_sound (Some true) (fun _ => true).
Proof.
  split.
  - repeat constructor.
    + intros v H nm. injection H as <-. reflexivity.
    + intros v H. discriminate.
  - intros v H nm. injection H as <-. reflexivity.
Qed.

(* the second `--`: `foo -- --ignored -- str --- --ignored` (from the repository's own test) *)
Example C04_cli_two_escapes :
  merge_test_binary_args None [[102; 111; 111]]
    [s_ignored; s_dashdash; [115; 116; 114]; [45; 45; 45]; s_ignored]
  = CliOk (Some RIOnly) (Patterns [[102; 111; 111]; [115; 116; 114]; [45; 45; 45]; s_ignored] [] [] []).
Proof. vm_compute; reflexivity. Qed.

(* The same with the Kleene premise discharged: for compiled filtersets evaluated by the filterset
   model of C05 (Model/Filterset.v, any engines, any default filter, any binary), a binary that the
   pre-filter skips contains no selected test. *)
From NextestModel Require Import Model.FiltersetAst Model.Filterset Proofs.FilterBridge.
Theorem C04_binary_sound_filtersets :
  forall (E : engines) (d : cexpr) (bq : bquery) (es : list cexpr) b r,
    filter_binary_match (ebs E d bq es) (db E d bq) b = BMismatch r ->
    forall ri pb p cur name ign,
      fst (filter_match_full (builder_new ri pb p (ets E d bq es) (dt E d bq) b) cur name ign) <> Matches.
Proof. exact binary_prefilter_sound_for_filtersets. Qed.
Print Assumptions C04_binary_sound_filtersets.

(* ---- the whole two-pass listing (TestList::process_output), not one filter_match call.

   For one binary with listings [ni] (printed without --ignored) and [ig] (printed with it),
   duplicate-free, and a partition accepted by parse_shards (1 <= m <= n; Properties/C13.v,
   C13_parse_valid): a test is in the selected set of the listing iff, for its ignored class c
   (c = true: it is in the ignored listing; c = false: it is in the first listing only), the
   ignored policy admits c, the name patterns, the -E filtersets and the default filter accept
   it, and the partition takes it, where "takes" is stated for the listing as a whole:
     count   the test is the j-th (0-based) of the tests of class c of this binary that satisfy
             the four other clauses, in name order, and j mod n + 1 = m;
     hash    xxh64 (name, seed 0) mod n + 1 = m;
     none    always.
   [candidates f c ni ig] is that name-ordered list (C04_candidates_are_the_other_four).
   Which default filter [dt] stands for (the profile-level default-filter or a per-platform
   override of it) is decided before the filter is built and is not modelled here. *)
From NextestModel Require Import Proofs.PartitionWhole Proofs.FilterWhole.

Theorem C04_whole_listing_selected_iff :
  forall ri pb p ets dt b ni ig nm,
    wf_patterns p -> valid_pb pb -> NoDup ni -> NoDup ig ->
    let f := builder_new ri pb p ets dt b in
    (In nm (matched (process_output (tf_pb f) (pre_full f) ni ig)) <->
     exists c, In nm (class_names c ni ig) /\
               ignored_ok ri c /\ name_ok p nm /\ expr_ok ets nm /\ default_ok b dt nm /\
               takes pb (candidates f c ni ig) nm).
Proof. exact whole_listing_selected_iff. Qed.
Print Assumptions C04_whole_listing_selected_iff.

Theorem C04_candidates_are_the_other_four :
  forall ri pb p ets dt b c ni ig nm,
    wf_patterns p ->
    (In nm (candidates (builder_new ri pb p ets dt b) c ni ig) <->
     In nm (class_names c ni ig) /\
     ignored_ok ri c /\ name_ok p nm /\ expr_ok ets nm /\ default_ok b dt nm).
Proof. exact candidates_In. Qed.
Print Assumptions C04_candidates_are_the_other_four.

(* the same for the tests that actually run from the binary, the binary-level shortcut of
   TestList::new included (Kleene premise as in C04_binary_sound) *)
Theorem C04_run_set_iff :
  forall ebs ets db dt ri pb p b ni ig nm,
    Forall2 kleene_sound ebs ets -> kleene_sound db dt ->
    wf_patterns p -> valid_pb pb -> NoDup ni -> NoDup ig ->
    let f := builder_new ri pb p ets dt b in
    (In nm (suite_selected (list_binary f ebs db ni ig)) <->
     exists c, In nm (class_names c ni ig) /\
               ignored_ok ri c /\ name_ok p nm /\ expr_ok ets nm /\ default_ok b dt nm /\
               takes pb (candidates f c ni ig) nm).
Proof. exact run_set_iff. Qed.
Print Assumptions C04_run_set_iff.

(* the partition clause of C04_selected_iff for shards accepted by parse_shards, free of
   truncating subtraction: the count partitioner's counter is m - 1, or the hash shard is m *)
Theorem C04_partition_clause_valid :
  forall k m n cur name,
    valid_shards m n = true ->
    (partition_ok (Some (mkpb k m n)) cur name <->
     match k with PCount => cur + 1 = m | PHash => hash_shard n name = m end).
Proof. exact partition_ok_valid. Qed.
Print Assumptions C04_partition_clause_valid.

(* non-vacuity, and the seeded shape "one count partitioner shared by both passes": under
   --run-ignored all with tests a and b(ignored), b satisfies the right-hand side for count:1/2
   (it is the first candidate of the ignored class) and is selected by process_output, but not
   by the listing with a shared counter -- the theorem does not survive that change *)
Definition ex_all_count12 : tfilter :=
  builder_new RIAll (Some (mkpb PCount 1 2)) patterns_default [] (fun _ => true) BAll.

Example C04_whole_listing_example :
  matched (process_output (tf_pb ex_all_count12) (pre_full ex_all_count12) [[97]; [98]] [[98]])
    = [[97]; [98]] /\
  candidates ex_all_count12 true [[97]; [98]] [[98]] = [[98]] /\
  candidates ex_all_count12 false [[97]; [98]] [[98]] = [[97]] /\
  takes (Some (mkpb PCount 1 2)) (candidates ex_all_count12 true [[97]; [98]] [[98]]) [98].
Proof.
  repeat split; try (vm_compute; reflexivity).
  exists O. split; vm_compute; reflexivity.
Qed.

Example C04_shared_partitioner_refuted :
  ~ (forall ri pb p ets dt b ni ig nm,
        wf_patterns p -> valid_pb pb -> NoDup ni -> NoDup ig ->
        let f := builder_new ri pb p ets dt b in
        (In nm (matched (process_output_shared (tf_pb f) (pre_full f) ni ig)) <->
         exists c, In nm (class_names c ni ig) /\
                   ignored_ok ri c /\ name_ok p nm /\ expr_ok ets nm /\ default_ok b dt nm /\
                   takes pb (candidates f c ni ig) nm)).
Proof.
  intros H.
  assert (D2 : NoDup [[97]; [98]]).
  { repeat constructor; cbn [In]; intros F; repeat destruct F as [F|F]; try discriminate F; exact F. }
  assert (D1 : NoDup [[98]]).
  { repeat constructor; cbn [In]; intros F; exact F. }
  pose proof (H RIAll (Some (mkpb PCount 1 2)) patterns_default [] (fun _ => true) BAll
                [[97]; [98]] [[98]] [98] I eq_refl D2 D1) as E.
  cbv zeta in E. destruct E as [_ E].
  assert (R : In [98] (matched (process_output_shared
                 (tf_pb ex_all_count12) (pre_full ex_all_count12) [[97]; [98]] [[98]]))).
  { apply E. exists true. split; [vm_compute; left; reflexivity|].
    split; [exact I|]. split.
    - split; [intros [F|[x [F _]]]; destruct F|left; split; reflexivity].
    - split; [left; reflexivity|]. split; [left; reflexivity|].
      exists O. split; vm_compute; reflexivity. }
  vm_compute in R. destruct R as [R|R]; [discriminate R|exact R].
Qed.
