(* Run-level composition theorems: scheduler (future-queue model, C08) x executor protocol (C02)
   x dispatcher (C10 / C01), and the request channels of all units (C11).
   Statements only; proofs are in Proofs/Run.v; the composed state machine is Model/Run.v.

   A run of the composed system is a list of labels accepted by [rrun]: scheduler operations
   ([RSched]: poll-with-fill, completion of a ready future) interleaved with the events the
   dispatcher handles ([REvent]).  [rstep] only admits [Started t] while the future of t is in
   progress, only pops the future of t once its unit has returned (Finished sent, or handshake
   refused), only admits the Skipped notifications in the order in which the lazily filtered stream
   sends them, and answers every handshake with the dispatcher's own answer ([dstep]).
   [events_of xs] is the history the dispatcher sees, [ops_of xs] what the scheduler does. *)
From Coq Require Import List NArith ZArith Bool.
From NextestModel Require Import Base.Str Model.Result Model.Dispatcher Model.Unit
     Model.FutureQueue Model.Run
     Proofs.Result Proofs.Dispatcher Proofs.Unit Proofs.FutureQueue Proofs.Run.
From NextestModel Require Import Model.RunScripts Proofs.RunScripts.
From NextestModel Require Model.Scripts Proofs.Scripts Properties.C18.
Import ListNotations.
Open Scope N_scope.

(* C02_complete_if_not_cancelled.  For every run of the composed system from its initial state:
   if the scheduler's part of the run is a complete run ([OpFill :: map OpComplete ids]) for which
   the scheduler is live ([all_started]: refuted in general by finding F7, proved outside F7's class
   by C08's all_started_outside_known), every future that was started has completed (so every
   started unit has run its protocol to its end), every Skipped notification sent has been
   received, and the dispatcher is alive with cancel_state = None at the end (hence at every
   earlier moment: no failure limit reached, no signal, no report error, no script failure), then
   in the emitted stream every selected test has exactly one TestStarted and exactly one
   TestFinished (and no TestSkipped), every unselected test exactly one TestSkipped (and nothing
   else), finished_count = initial_run_count = the number of selected tests, and the exit code is
   0 iff the last attempt of every selected test passed (and something was selected, or the
   no-tests policy is pass / warn).  The history is a well-formed one ([wf_history]), so C01, C02
   and C10 apply to it as well. *)
Theorem C02_complete_if_not_cancelled :
  forall r mf dbg xs s ids d,
    cfg_ok (rc_cfg r) = true ->
    rrun r (rinit r mf dbg) xs = Some s ->
    ops_of xs = OpFill :: map OpComplete ids ->
    all_started (rc_gm r) (rc_grps r) (rc_items r) ids ->
    running (r_q s) = [] -> panicked (r_q s) = false ->
    r_nskip s = length (src_unsel (rc_src r)) ->
    r_d s = Live d -> d_cancel d = None ->
    let c := rc_cfg r in
    let h := events_of xs in
    let o := out (Live (init_for c mf dbg)) h in
    wf_history c mf dbg h = true /\
    (forall t, In t (c_sel c) ->
       count_if (is_started_of t) o = 1%nat /\ count_if (is_finished_of t) o = 1%nat /\
       count_if (is_skipped_of t) o = 0%nat) /\
    (forall t, In t (c_unsel c) ->
       count_if (is_skipped_of t) o = 1%nat /\ count_if (is_started_of t) o = 0%nat /\
       count_if (is_finished_of t) o = 0%nat) /\
    finished_count (d_stats d) = initial_run_count (d_stats d) /\
    initial_run_count (d_stats d) = N.of_nat (length (c_sel c)) /\
    (forall p, run_exit c mf dbg h p = Some 0%Z <->
       (forall t a, In t (c_sel c) -> final_of h t = Some a -> is_success (a_res a) = true) /\
       (c_sel c <> [] \/ p = Some NtPass \/ p = Some NtWarn)).
Proof. exact complete_if_not_cancelled. Qed.
Print Assumptions C02_complete_if_not_cancelled.

(* ... with the scheduler premise discharged outside the class of finding F7: unique group keys
   and all members of one group requiring the same number of threads ([uniform_b]). *)
Theorem C02_complete_outside_known :
  forall r mf dbg xs s ids d,
    cfg_ok (rc_cfg r) = true ->
    NoDup (map fst (rc_grps r)) -> uniform_b (rc_items r) = true ->
    rrun r (rinit r mf dbg) xs = Some s ->
    ops_of xs = OpFill :: map OpComplete ids ->
    running (r_q s) = [] -> panicked (r_q s) = false ->
    r_nskip s = length (src_unsel (rc_src r)) ->
    r_d s = Live d -> d_cancel d = None ->
    let c := rc_cfg r in
    let h := events_of xs in
    let o := out (Live (init_for c mf dbg)) h in
    (forall t, In t (c_sel c) ->
       count_if (is_started_of t) o = 1%nat /\ count_if (is_finished_of t) o = 1%nat) /\
    (forall t, In t (c_unsel c) -> count_if (is_skipped_of t) o = 1%nat) /\
    finished_count (d_stats d) = initial_run_count (d_stats d) /\
    (forall p, run_exit c mf dbg h p = Some 0%Z <->
       (forall t a, In t (c_sel c) -> final_of h t = Some a -> is_success (a_res a) = true) /\
       (c_sel c <> [] \/ p = Some NtPass \/ p = Some NtWarn)).
Proof. exact complete_outside_known. Qed.
Print Assumptions C02_complete_outside_known.

(* Every composed run is, for the dispatcher, a well-formed history, and for the scheduler an
   [fq_run]: the theorems of C01 / C02 / C10 (all wf histories) and of C08 / C14 (all operation
   sequences) therefore hold of every composed run, cancelled or not. *)
Theorem run_projections :
  forall r mf dbg xs s,
    cfg_ok (rc_cfg r) = true ->
    rrun r (rinit r mf dbg) xs = Some s ->
    wf_history (rc_cfg r) mf dbg (events_of xs) = true /\
    r_d s = final_state (Live (init_for (rc_cfg r) mf dbg)) (events_of xs) /\
    r_q s = fst (fq_run (fq_new (rc_gm r) (rc_grps r) (rc_items r)) (ops_of xs)).
Proof. exact rrun_projections. Qed.
Print Assumptions run_projections.

(* C11_all_units, on the system model of Model/Unit.v (dispatcher x executor protocol x one
   request channel per unit, channel reads [SConsume] at any time) extended with the channel of
   the running setup script.  For every well-formed schedule [ls] and next event [e] that
   handle_event survives: if [e] is a shutdown signal, or the step announces cancellation
   (RunBeginCancel for a report error, the failure limit or a script failure; RunBeginKill), then
   DispatcherContext::run broadcasts a cancel request (for a signal: Shutdown(Once ev), or
   Shutdown(Twice) for the second one), and that request is added to the channel of EVERY unit
   that is started and has neither finished nor been dropped at that moment (phase PRunning /
   PDelay), to the channel of the running setup script if there is one, and to no unit the
   dispatcher does not know (not started, refused, finished, skipped). *)
Theorem C11_all_units :
  forall c mf dbg ls x e x' d d' evs rsp,
    cfg_ok c = true ->
    xsys_run c (xsys0 c mf dbg) ls = Some x ->
    xsys_step c x (SEvent e) = Some x' ->
    y_d (x_sys x) = Live d -> dstep_live d e = (Live d', evs, rsp) ->
    (exists ev, e = SigShutdown ev) \/ existsb is_ann evs = true ->
    cancel_request (broadcast_of (r_resp rsp)) = true /\
    (forall ev, e = SigShutdown ev ->
       broadcast_of (r_resp rsp) =
       Some (BShutdown (match d_sig d with None => Once ev | Some _ => Twice end))) /\
    (forall t, unit_live (ps_phase (y_ps (x_sys x')) t) = true ->
       y_mail (x_sys x') t = y_mail (x_sys x) t + 1) /\
    (forall t, unit_gone (ps_phase (y_ps (x_sys x')) t) = true ->
       y_mail (x_sys x') t = y_mail (x_sys x) t) /\
    x_smail x' = x_smail x + (if ps_srun (y_ps (x_sys x')) then 1 else 0).
Proof. exact all_units. Qed.
Print Assumptions C11_all_units.

(* ---- non-vacuity (vm_compute) ---- *)

(* a 3-test run through scheduler + dispatcher: test 0 ungrouped, tests 1 and 2 in a group with
   max-threads 1 (test 2 is parked in the group's queue and started by the drain when test 1's
   future completes), test 1 is retried once, tests 3 and 4 are unselected.  All hypotheses of
   C02_complete_if_not_cancelled / _outside_known hold of it ... *)
Example C02_complete_example_hypotheses :
  cfg_ok (rc_cfg ex_rcfg) = true
  /\ NoDup (map fst (rc_grps ex_rcfg)) /\ uniform_b (rc_items ex_rcfg) = true
  /\ ops_of ex_schedule = OpFill :: map OpComplete [0; 1; 2]
  /\ run_summary (rrun ex_rcfg (rinit ex_rcfg None true) ex_schedule)
     = Some (0%nat, 0%nat, 2%nat, false, Some None)
  /\ length (src_unsel (rc_src ex_rcfg)) = 2%nat.
Proof.
  split; [vm_compute; reflexivity|]. split; [repeat constructor; intros []|].
  repeat split; vm_compute; reflexivity.
Qed.

(* ... and so do its conclusions *)
Example C02_complete_example_conclusions :
  let c := rc_cfg ex_rcfg in
  let h := events_of ex_schedule in
  let o := out (Live (init_for c None true)) h in
  map (fun t => (count_if (is_started_of t) o, count_if (is_finished_of t) o,
                 count_if (is_skipped_of t) o)) [0; 1; 2; 3; 4]
  = [(1, 1, 0); (1, 1, 0); (1, 1, 0); (0, 0, 1); (0, 0, 1)]%nat
  /\ run_exit c None true h None = Some 0%Z.
Proof. split; vm_compute; reflexivity. Qed.

(* the guards of the composed machine are not idle: a unit cannot send Started before the scheduler
   has created its future (test 2 is parked), a future cannot be popped while its unit is still
   running, and a Skipped notification cannot overtake the stream (test 4 lies behind test 2) *)
Example run_guards_reject :
  rrun ex_rcfg (rinit ex_rcfg None true) [RSched OpFill; REvent (Started 2)] = None
  /\ rrun ex_rcfg (rinit ex_rcfg None true) [RSched OpFill; REvent (Started 0); RSched (OpComplete 0)] = None
  /\ rrun ex_rcfg (rinit ex_rcfg None true) [RSched OpFill; REvent (Skipped 3); REvent (Skipped 4)] = None
  /\ rrun ex_rcfg (rinit ex_rcfg None true) [REvent (Skipped 3)] = None.
Proof. repeat split; vm_compute; reflexivity. Qed.

(* the scheduler premise cannot be dropped: finding F7 in the composed model.  The run below is
   accepted, is never cancelled, every started future has completed -- and test 1 is left in its
   group's queue: no TestStarted for it, finished_count 2 of 3, exit code 100. *)
Example C02_complete_needs_all_started :
  run_summary (rrun f7_rcfg (rinit f7_rcfg None true) f7_schedule)
  = Some (0%nat, 1%nat, 0%nat, false, Some None)
  /\ uniform_b (rc_items f7_rcfg) = false
  /\ count_if (is_started_of 1) (out (Live (init_for (rc_cfg f7_rcfg) None true)) (events_of f7_schedule)) = 0%nat
  /\ run_exit (rc_cfg f7_rcfg) None true (events_of f7_schedule) None = Some 100%Z.
Proof. repeat split; vm_compute; reflexivity. Qed.

(* C11: one setup script, three tests.  SIGINT while the script runs reaches the script's channel;
   SIGTERM while test 0 is running, test 2 waits in its retry delay and test 1 has finished reaches
   tests 0 and 2 and not test 1; a second signal (SIGHUP) reaches the same two again. *)
Example C11_example :
  mail_summary (xsys_run ex_sys_cfg (xsys0 ex_sys_cfg None true)
                  [SEvent (ScriptStarted 0); SEvent (SigShutdown SInterrupt)]) [0; 1; 2]
  = Some ([0; 0; 0], 1)
  /\ mail_summary (xsys_run ex_sys_cfg (xsys0 ex_sys_cfg None true)
                     (ex_sys_schedule ++ [SEvent (SigShutdown Term)])) [0; 1; 2]
     = Some ([1; 0; 1], 0)
  /\ mail_summary (xsys_run ex_sys_cfg (xsys0 ex_sys_cfg None true)
                     (ex_sys_schedule ++ [SEvent (SigShutdown Term); SEvent (SigShutdown Hangup)])) [0; 1; 2]
     = Some ([2; 0; 2], 0).
Proof. repeat split; vm_compute; reflexivity. Qed.

(* ---- C18 over the real dispatcher model: no abstract premise left ----
   Properties/C18.v states its run theorems for every dispatcher obeying [disp_laws] /
   [disp_live].  [real_disp p] (Model/RunScripts.v) is that interface implemented by the dispatcher
   model itself: every start request is [dstep_live] on SetupScriptStarted / Started, every script
   result [dstep_live] on SetupScriptFinished, the exit status is exit_code (summarize_final
   run_stats) under the no-tests policy [p] (release build: debug assertions off). *)

Theorem C18_real_dispatcher_obeys_laws :
  forall p, Scripts.disp_laws (real_disp p) /\ Scripts.disp_live (real_disp p).
Proof. exact real_laws_and_live. Qed.
Print Assumptions C18_real_dispatcher_obeys_laws.

(* the instance never takes its fallback arm: none of the three steps can panic *)
Theorem C18_real_dispatcher_never_panics :
  forall x r,
    (exists d' evs rsp, dstep_live (release (rd_d x)) (ScriptStarted (rd_sid x)) = (Live d', evs, rsp)) /\
    (exists d' evs rsp, dstep_live (release (rd_d x)) (Started (fresh_tid (release (rd_d x)))) = (Live d', evs, rsp)) /\
    (exists d' evs rsp, dstep_live (release (rd_d x)) (ScriptFinished (rd_sid x) (to_result r)) = (Live d', evs, rsp)).
Proof. exact real_step_never_panics. Qed.
Print Assumptions C18_real_dispatcher_never_panics.

(* script failure => no test starts and exit 105, for the dispatcher model, from any state *)
Theorem C18_failure_real_dispatcher :
  forall p (d0 : rdstate) defs rules sel outs reqs s r,
    In (Scripts.EvScriptFinished s r) (snd (Scripts.run (real_disp p) d0 defs rules sel outs reqs)) ->
    Scripts.is_success r = false ->
    (forall t env, ~ In (Scripts.EvTestStarted t env)
                        (snd (Scripts.run (real_disp p) d0 defs rules sel outs reqs)))
    /\ exit_code (summarize_final (d_stats (rd_d (fst (Scripts.run (real_disp p) d0 defs rules sel outs reqs))))) p
       = 105%Z
    /\ exists pre ss, Scripts.run_scripts_ran (real_disp p) d0 defs rules sel outs = pre ++ [ss]
                      /\ Scripts.ss_id ss = s.
Proof. exact real_failure. Qed.
Print Assumptions C18_failure_real_dispatcher.

(* ... in terms of what the scripts do, from the dispatcher as the runner creates it (any
   initial_run_count, any max-fail, facing the enabled scripts) *)
Theorem C18_failure_any_script_real_dispatcher :
  forall p n mf defs rules sel outs reqs,
    let d0 := real_init n mf (N.of_nat (length (Scripts.enabled defs rules sel))) in
    (exists ss, In ss (Scripts.enabled defs rules sel) /\
                Scripts.is_success (Scripts.script_result outs ss) = false) ->
    (forall t env, ~ In (Scripts.EvTestStarted t env)
                        (snd (Scripts.run (real_disp p) d0 defs rules sel outs reqs)))
    /\ exit_code (summarize_final (d_stats (rd_d (fst (Scripts.run (real_disp p) d0 defs rules sel outs reqs))))) p
       = 105%Z.
Proof. exact real_failure_any_script. Qed.
Print Assumptions C18_failure_any_script_real_dispatcher.

(* ... and when all of them succeed every requested test starts with its variables *)
Theorem C18_all_succeed_real_dispatcher :
  forall p n mf defs rules sel outs reqs,
    let d0 := real_init n mf (N.of_nat (length (Scripts.enabled defs rules sel))) in
    (forall ss, In ss (Scripts.enabled defs rules sel) ->
                Scripts.is_success (Scripts.script_result outs ss) = true) ->
    snd (Scripts.run (real_disp p) d0 defs rules sel outs reqs) =
    flat_map (Scripts.script_events outs) (Scripts.enabled defs rules sel)
    ++ map (fun t => Scripts.EvTestStarted t
                       (Scripts.apply_env (flat_map (Scripts.env_entry outs) (Scripts.enabled defs rules sel)) t []))
           reqs.
Proof. exact real_all_succeed. Qed.
Print Assumptions C18_all_succeed_real_dispatcher.

(* the closed examples of Properties/C18.v, now run through the dispatcher model: scripts 0 and 2
   enabled; all pass => both tests start (t0 with the variables), 2 scripts counted; script 0 writes
   a reserved key => execution failure, script 2 and the tests are refused, exit 105 *)
Example C18_real_dispatcher_examples :
  let d0 := real_init 2 None 2 in
  snd (Scripts.run (real_disp None) d0 [0; 1; 2] [C18.rA; C18.rB] [C18.t0] C18.outs_ok [C18.t1; C18.t0])
  = [Scripts.EvScriptStarted 0; Scripts.EvScriptFinished 0 Scripts.RPass;
     Scripts.EvScriptStarted 2; Scripts.EvScriptFinished 2 Scripts.RPass;
     Scripts.EvTestStarted C18.t1 []; Scripts.EvTestStarted C18.t0 [([65], [49]); ([75], [50])]]
  /\ snd (Scripts.run (real_disp None) d0 [0; 1; 2] [C18.rA; C18.rB] [C18.t0] C18.outs_f5 [C18.t1; C18.t0])
     = [Scripts.EvScriptStarted 0; Scripts.EvScriptFinished 0 Scripts.RExecFail]
  /\ Scripts.d_exit (real_disp None)
       (fst (Scripts.run (real_disp None) d0 [0; 1; 2] [C18.rA; C18.rB] [C18.t0] C18.outs_f5 [C18.t1; C18.t0]))
     = 105%Z
  /\ d_cancel (rd_d (fst (Scripts.run (real_disp None) d0 [0; 1; 2] [C18.rA; C18.rB] [C18.t0] C18.outs_f5
                                     [C18.t1; C18.t0])))
     = Some SetupScriptFailure.
Proof. repeat split; vm_compute; reflexivity. Qed.
