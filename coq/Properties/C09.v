(* C09 -- Slow tests are flagged, terminated only at the configured deadline, then killed.
   Statements only; the model is Model/UnitTimers.v, tied to nextest by the end-to-end checks. *)
From NextestModel Require Import Base.Str Model.Clocks Model.UnitTimers Model.AbsTimers
  Proofs.Timers Proofs.UnitProps.
Open Scope N_scope.

(* Never before the deadline, for every event sequence of any length, every pause table and
   every configuration: if a unit is being or has been terminated for a timeout, terminate-after
   is configured and at least terminate-after x period of real time has passed. In particular a
   unit with no terminate-after is never terminated for slowness. *)
Theorem C09_never_terminated_early :
  forall tbl cfg es r,
    cfg_valid cfg -> urun tbl cfg (uinit cfg) es = Ok r -> past_timeout (fst r) ->
    exists ta, terminate_after cfg = Some ta /\ ta * period cfg <= real_time es.
Proof. exact never_terminated_early. Qed.
Print Assumptions C09_never_terminated_early.

(* The slow mark needs at least one full period. *)
Theorem C09_slow_needs_a_period :
  forall tbl cfg es r,
    cfg_valid cfg -> urun tbl cfg (uinit cfg) es = Ok r -> 0 < hits (fst r) ->
    period cfg <= real_time es.
Proof. exact slow_needs_a_period. Qed.
Print Assumptions C09_slow_needs_a_period.

(* When the interval elapses on a running unit: it is marked slow; if the count has reached
   terminate-after the group is signalled with SIGTERM (SIGKILL when the grace period is zero),
   otherwise nothing is signalled and the unit keeps running. *)
Theorem C09_interval_expiry :
  forall tbl cfg s,
  ph s = PRunning -> timed_out s = false -> slc_due (k_isl (ck s)) = true ->
  exists r, ustep tbl cfg s FireInterval = Ok r /\ slow (fst r) = true /\ hits (fst r) = hits s + 1 /\
    (will_terminate cfg (hits s + 1) = false ->
       ph (fst r) = PRunning /\ timed_out (fst r) = false /\
       snd r = (if grace cfg =? 0 then [] else [OSlow false])) /\
    (will_terminate cfg (hits s + 1) = true -> reaped s = false ->
       snd r = (if grace cfg =? 0 then [] else [OSlow true]) ++ [OSignal (timeout_method cfg)]).
Proof. exact interval_fire. Qed.
Print Assumptions C09_interval_expiry.

Theorem C09_interval_not_due_is_silent :
  forall tbl cfg s, slc_due (k_isl (ck s)) = false -> ustep tbl cfg s FireInterval = Ok (s, []).
Proof. exact interval_not_due. Qed.
Print Assumptions C09_interval_not_due_is_silent.

Theorem C09_method :
  forall cfg, timeout_method cfg = if grace cfg =? 0 then SigKill else SigTerm.
Proof. exact timeout_method_spec. Qed.
Print Assumptions C09_method.

(* Escalation: when the grace period ends the group gets SIGKILL and the attempt is marked timed
   out; before it ends nothing happens. *)
Theorem C09_escalate :
  forall tbl cfg s x,
  ph s = PTerminating x -> slc_due (k_gsl (ck s)) = true ->
  exists s', ustep tbl cfg s FireGrace = Ok (s', [OSignal SigKill]) /\ ph s' = PRunning /\
             (x = TTimeout -> timed_out s' = true).
Proof. exact grace_expiry. Qed.
Print Assumptions C09_escalate.

Theorem C09_grace_not_early :
  forall tbl cfg s, slc_due (k_gsl (ck s)) = false -> ustep tbl cfg s FireGrace = Ok (s, []).
Proof. exact grace_not_early. Qed.
Print Assumptions C09_grace_not_early.

(* A child that exits while the unit is merely running is not signalled by that step. *)
Theorem C09_fast_untouched :
  forall tbl cfg s ok, ph s = PRunning ->
  ucore tbl cfg s (AChildExit ok) = Ok (with_ph (with_reaped s true ok) (after_exit s), []).
Proof. exact child_exit_running. Qed.
Print Assumptions C09_fast_untouched.

(* non-vacuity: a test that ignores SIGTERM, terminate-after 2, grace 7 *)
Example C09_nonvacuous :
  let cfg := {| period := 5; terminate_after := Some 2; grace := 7; leak_timeout := 1 |} in
  let tbl := {| t_run_stop := []; t_run_cont := []; t_term_stop := []; t_term_cont := [];
                t_delay_stop := []; t_delay_cont := []; t_leak_stop := []; t_leak_cont := [] |} in
  exists s, urun tbl cfg (uinit cfg)
              [Tick 5; FireInterval; Tick 5; FireInterval; Tick 7; FireGrace; ChildExit false; FdsDone]
            = Ok (s, [OSlow false; OSlow true; OSignal SigTerm; OSignal SigKill]) /\
            uresult s = UTimeout /\ slow s = true.
Proof. eexists. split; [vm_compute; reflexivity|]. split; reflexivity. Qed.
