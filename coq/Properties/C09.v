(* C09 -- Slow tests are flagged, terminated only at the configured deadline, then killed.
   Statements only; the model is Model/UnitTimers.v, tied to nextest by the end-to-end checks. *)
From NextestModel Require Import Base.Str Model.Clocks Model.UnitTimers Model.AbsTimers
  Model.UnitMonitor Proofs.Timers Proofs.UnitProps Proofs.UnitHistory Proofs.PauseCert gen.GenPauseTable.
From Coq Require Import MSets.MSetPositive.
Open Scope N_scope.

(* Never before the deadline, for every event sequence of any length, every pause table and
   every configuration: if a unit is being or has been terminated for a timeout, terminate-after
   is configured and at least terminate-after x period of real time has passed. In particular a
   unit with no terminate-after is never terminated for slowness. *)
Theorem C09_never_terminated_early :
  forall tbl cfg es r,
    cfg_valid cfg -> urun tbl cfg (uinit cfg) es = Ok r -> past_timeout (fst r) ->
    exists ta, terminate_after cfg = Some ta /\ ta * period cfg <= real_time es.
Proof. exact never_terminated_early. Qed.
Print Assumptions C09_never_terminated_early.

(* The slow mark needs at least one full period. *)
Theorem C09_slow_needs_a_period :
  forall tbl cfg es r,
    cfg_valid cfg -> urun tbl cfg (uinit cfg) es = Ok r -> 0 < hits (fst r) ->
    period cfg <= real_time es.
Proof. exact slow_needs_a_period. Qed.
Print Assumptions C09_slow_needs_a_period.

(* When the interval elapses on a running unit: it is marked slow; if the count has reached
   terminate-after the group is signalled with SIGTERM (SIGKILL when the grace period is zero),
   otherwise nothing is signalled and the unit keeps running. *)
Theorem C09_interval_expiry :
  forall tbl cfg s,
  ph s = PRunning -> timed_out s = false -> slc_due (k_isl (ck s)) = true ->
  exists r, ustep tbl cfg s FireInterval = Ok r /\ slow (fst r) = true /\ hits (fst r) = hits s + 1 /\
    (will_terminate cfg (hits s + 1) = false ->
       ph (fst r) = PRunning /\ timed_out (fst r) = false /\
       snd r = (if grace cfg =? 0 then [] else [OSlow false])) /\
    (will_terminate cfg (hits s + 1) = true -> reaped s = false ->
       snd r = (if grace cfg =? 0 then [] else [OSlow true]) ++ [OSignal (timeout_method cfg)]).
Proof. exact interval_fire. Qed.
Print Assumptions C09_interval_expiry.

Theorem C09_interval_not_due_is_silent :
  forall tbl cfg s, slc_due (k_isl (ck s)) = false -> ustep tbl cfg s FireInterval = Ok (s, []).
Proof. exact interval_not_due. Qed.
Print Assumptions C09_interval_not_due_is_silent.

Theorem C09_method :
  forall cfg, timeout_method cfg = if grace cfg =? 0 then SigKill else SigTerm.
Proof. exact timeout_method_spec. Qed.
Print Assumptions C09_method.

(* Escalation: when the grace period ends the group gets SIGKILL and the attempt is marked timed
   out; before it ends nothing happens. *)
Theorem C09_escalate :
  forall tbl cfg s x,
  ph s = PTerminating x -> slc_due (k_gsl (ck s)) = true ->
  exists s', ustep tbl cfg s FireGrace = Ok (s', [OSignal SigKill]) /\ ph s' = PRunning /\
             (x = TTimeout -> timed_out s' = true).
Proof. exact grace_expiry. Qed.
Print Assumptions C09_escalate.

Theorem C09_grace_not_early :
  forall tbl cfg s, slc_due (k_gsl (ck s)) = false -> ustep tbl cfg s FireGrace = Ok (s, []).
Proof. exact grace_not_early. Qed.
Print Assumptions C09_grace_not_early.

(* A child that exits while the unit is merely running is not signalled by that step. *)
Theorem C09_fast_untouched :
  forall tbl cfg s ok, ph s = PRunning ->
  ucore tbl cfg s (AChildExit ok) = Ok (with_ph (with_reaped s true ok) (after_exit s), []).
Proof. exact child_exit_running. Qed.
Print Assumptions C09_fast_untouched.

(* ================================================================ over whole histories
   The statements below quantify over ALL event histories the environment of Model/UnitMonitor.v
   can produce ([mrun true ... = MOk m] holds exactly for the histories accepted by [senv_trace]:
   the dispatcher's alternation of Stop / Continue, Once-then-Twice shutdown requests, and
   nextest's own stop -- inside a stopped window nothing but time happens until the resumption),
   for the pause table regenerated from the source, through its certificate (Proofs/PauseCert.v).
   The monitor [m] counts unpaused time: [m_rt] = time received while no Stop was outstanding and
   the unit was in the running or terminating loop; log entries carry the event, the phase and
   those counters at the moment an output was produced. *)

(* Never before the deadline, in RUNNING time: a signal sent because the slow-timeout interval
   expired (the timeout termination; before any shutdown request) is the timeout method, and is
   sent only after terminate-after x period of unpaused running time; and whenever a unit is being
   or has been terminated for a timeout that much unpaused running time has passed. *)
Theorem C09_never_terminated_early_running_time :
  forall cfg es m, cfg_valid cfg -> mrun true pause_table cfg (minit cfg) es = MOk m ->
  (forall l, In l (m_log m) -> le_ev l = FireInterval -> le_sh0 l = true ->
     forall sg, le_out l = OSignal sg ->
     sg = timeout_method cfg /\
     exists ta, terminate_after cfg = Some ta /\ ta * period cfg <= le_rt l) /\
  (no_shutdown_yet (m_x m) = true -> past_timeout (m_u m) ->
     exists ta, terminate_after cfg = Some ta /\ ta * period cfg <= m_rt m).
Proof.
  intros cfg es m Hv Hr.
  exact (never_terminated_early_running_time pause_table pause_reach pause_cert cfg Hv es m Hr).
Qed.
Print Assumptions C09_never_terminated_early_running_time.

(* the same for any pause table with a certificate *)
Theorem C09_never_terminated_early_running_time_certified :
  forall tbl S, cert_with tbl S = true ->
  forall cfg es m, cfg_valid cfg -> mrun true tbl cfg (minit cfg) es = MOk m ->
  forall l, In l (m_log m) -> le_ev l = FireInterval -> le_sh0 l = true ->
  forall sg, le_out l = OSignal sg ->
  sg = timeout_method cfg /\ exists ta, terminate_after cfg = Some ta /\ ta * period cfg <= le_rt l.
Proof.
  intros tbl S Hc cfg es m Hv Hr.
  exact (proj1 (never_terminated_early_running_time tbl S Hc cfg Hv es m Hr)).
Qed.
Print Assumptions C09_never_terminated_early_running_time_certified.

(* It FAILS for a table that does not pause the interval sleep (here: the empty table, which has no
   certificate): stopped for a whole period, the unit is terminated after zero running time.
   ([C09_never_terminated_early] above, which bounds real time, holds for this table too.) *)
Definition empty_table : ptable :=
  {| t_run_stop := []; t_run_cont := []; t_term_stop := []; t_term_cont := [];
     t_delay_stop := []; t_delay_cont := []; t_leak_stop := []; t_leak_cont := [] |}.
Example C09_never_terminated_early_running_time_refuted_for_the_empty_table :
  let cfg := {| period := 5; terminate_after := Some 1; grace := 7; leak_timeout := 1 |} in
  let es := [Req RStop; Tick 5; FireInterval] in
  cfg_valid cfg /\ senv_trace senv0 es = true /\ cert empty_table = false /\
  exists m l, mrun true empty_table cfg (minit cfg) es = MOk m /\ In l (m_log m) /\
    le_ev l = FireInterval /\ le_sh0 l = true /\ le_out l = OSignal SigTerm /\
    terminate_after cfg = Some 1 /\ le_rt l = 0 /\ 1 * period cfg = 5.
Proof.
  split; [cbv; discriminate|]. split; [reflexivity|]. split; [vm_compute; reflexivity|].
  eexists. eexists. split; [vm_compute; reflexivity|]. split; [left; reflexivity|]. repeat split.
Qed.

(* SIGKILL at the end of the grace period -- after the SIGTERM of the timeout path, or after a
   forwarded shutdown signal -- only after at least the grace period of unpaused time since the
   termination began. *)
Theorem C09_kill_not_before_grace :
  forall cfg es m, cfg_valid cfg -> mrun true pause_table cfg (minit cfg) es = MOk m ->
  forall l, In l (m_log m) -> le_ev l = FireGrace -> le_out l = OSignal SigKill ->
  grace cfg <= le_gun l.
Proof.
  intros cfg es m Hv Hr. exact (kill_not_before_grace pause_table pause_reach pause_cert cfg Hv es m Hr).
Qed.
Print Assumptions C09_kill_not_before_grace.

(* Why the environment premise (nextest's own stop) is needed: the audit's history -- a shutdown
   request handled by the stopped process, followed by 7 units of stopped time -- is accepted by
   the old premise [env_trace] (alternation only), rejected by [senv_trace], and run without the
   check it kills after zero unpaused time. *)
Example C09_kill_not_before_grace_needs_the_self_stop_premise :
  let cfg := {| period := 50; terminate_after := None; grace := 7; leak_timeout := 1 |} in
  let es := [Tick 1; Req RStop; Req (RShutdown (Once SInt)); Tick 7; FireGrace] in
  env_trace t0 es = true /\ senv_trace senv0 es = false /\
  exists m l, mrun false pause_table cfg (minit cfg) es = MOk m /\ In l (m_log m) /\
    le_ev l = FireGrace /\ le_out l = OSignal SigKill /\ le_gun l = 0 /\ grace cfg = 7.
Proof.
  split; [reflexivity|]. split; [reflexivity|].
  eexists. eexists. split; [vm_compute; reflexivity|]. split; [left; reflexivity|]. repeat split.
Qed.

(* A child whose exit has been observed is never signalled again: no output of any later step is a
   signal to the group. Any pause table, any history whatever (no premise at all). *)
Theorem C09_no_signal_after_exit :
  forall chk tbl cfg es m, mrun chk tbl cfg (minit cfg) es = MOk m ->
  forall l sg, In l (m_log m) -> le_out l = OSignal sg -> le_exited l = false.
Proof. exact no_signal_after_exit. Qed.
Print Assumptions C09_no_signal_after_exit.

(* The slow mark (before any shutdown request): set => at least one full period of unpaused running
   time has passed; not set => at most one period has -- provided the environment lets no time
   pass beyond the expiry of the interval without delivering it ([m_late = false]; timers fire
   when due). So, timers being timely: ran for longer than the period => slow => ran for at least
   the period. At exactly one period either is possible (the expiry races the exit). *)
Theorem C09_slow_iff :
  forall cfg es m, cfg_valid cfg -> mrun true pause_table cfg (minit cfg) es = MOk m ->
  no_shutdown_yet (m_x m) = true ->
  (slow (m_u m) = true -> period cfg <= m_rt m) /\
  (m_late m = false -> slow (m_u m) = false -> m_rt m <= period cfg).
Proof.
  intros cfg es m Hv Hr. exact (slow_iff pause_table pause_reach pause_cert cfg Hv es m Hr).
Qed.
Print Assumptions C09_slow_iff.

(* without timeliness the "if" half fails: time runs past the deadline, the expiry is never
   delivered, the child exits *)
Example C09_slow_if_refuted_without_timely_timers :
  let cfg := {| period := 5; terminate_after := None; grace := 7; leak_timeout := 1 |} in
  let es := [Tick 12; ChildExit true; FdsDone] in
  exists m, mrun true pause_table cfg (minit cfg) es = MOk m /\ no_shutdown_yet (m_x m) = true /\
    m_late m = true /\ slow (m_u m) = false /\ m_rt m = 12 /\ period cfg = 5.
Proof. eexists. split; [vm_compute; reflexivity|]. repeat split. Qed.

(* at exactly one period both outcomes exist *)
Example C09_slow_at_exactly_one_period :
  let cfg := {| period := 5; terminate_after := None; grace := 7; leak_timeout := 1 |} in
  (exists m, mrun true pause_table cfg (minit cfg) [Tick 5; FireInterval; ChildExit true; FdsDone] = MOk m /\
             m_late m = false /\ slow (m_u m) = true /\ m_rt m = 5) /\
  (exists m, mrun true pause_table cfg (minit cfg) [Tick 5; ChildExit true; FdsDone] = MOk m /\
             m_late m = false /\ slow (m_u m) = false /\ m_rt m = 5).
Proof. split; eexists; (split; [vm_compute; reflexivity|repeat split]). Qed.

(* non-vacuity of the history statements: stopped twice, terminated for the timeout after exactly
   2 x 5 units of running time (105 of real time), killed after the 7 units of grace *)
Example C09_history_nonvacuous :
  let cfg := {| period := 5; terminate_after := Some 2; grace := 7; leak_timeout := 1 |} in
  let es := [Tick 3; Req RStop; Tick 60; Req RContinue; Tick 2; FireInterval; Tick 1; Req RStop; Tick 40;
             Req RContinue; Tick 4; FireInterval; Tick 3; Req RStop; Tick 20; Req RGetInfo; Req RContinue;
             Tick 4; FireGrace; ChildExit false; FdsDone] in
  senv_trace senv0 es = true /\
  exists m, mrun true pause_table cfg (minit cfg) es = MOk m /\
    map (fun l => (le_out l, le_rt l, le_gun l)) (rev (m_log m)) =
      [(OSignal SigTstp, 3, 3); (OAck, 3, 3); (OSignal SigCont, 3, 3); (OSlow false, 5, 5);
       (OSignal SigTstp, 6, 6); (OAck, 6, 6); (OSignal SigCont, 6, 6);
       (OSlow true, 10, 10); (OSignal SigTerm, 10, 10);
       (OSignal SigTstp, 13, 3); (OAck, 13, 3); (OInfo ITerminating, 13, 3); (OSignal SigCont, 13, 3);
       (OSignal SigKill, 17, 7)] /\
    uresult (m_u m) = UTimeout /\ time_taken (m_u m) = 17 /\ m_rt m = 17 /\ m_upt m = 17.
Proof. split; [reflexivity|]. eexists. split; [vm_compute; reflexivity|]. repeat split. Qed.

(* non-vacuity: a test that ignores SIGTERM, terminate-after 2, grace 7 *)
Example C09_nonvacuous :
  let cfg := {| period := 5; terminate_after := Some 2; grace := 7; leak_timeout := 1 |} in
  let tbl := {| t_run_stop := []; t_run_cont := []; t_term_stop := []; t_term_cont := [];
                t_delay_stop := []; t_delay_cont := []; t_leak_stop := []; t_leak_cont := [] |} in
  exists s, urun tbl cfg (uinit cfg)
              [Tick 5; FireInterval; Tick 5; FireInterval; Tick 7; FireGrace; ChildExit false; FdsDone]
            = Ok (s, [OSlow false; OSlow true; OSignal SigTerm; OSignal SigKill]) /\
            uresult s = UTimeout /\ slow s = true.
Proof. eexists. split; [vm_compute; reflexivity|]. split; reflexivity. Qed.
