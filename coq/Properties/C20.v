(* C20 -- Filterset parsing is total and printing a parsed expression round-trips.
   Statements only; proofs are in Proofs/FiltersetParse.v, Proofs/FiltersetRoundtrip.v and
   Proofs/FiltersetSpec.v. [parse] is a total Gallina function (structural recursion on fuel
   = length of the input + 1), so "terminates without crashing" holds of the model by
   construction; what is proved is that the fuel never runs out. Termination of the real parser
   on deep nesting is observed by the check, not proved (known finding F6d). *)
From NextestModel Require Import Base.Str Model.FiltersetAst Model.FiltersetParse.
From NextestModel Require Import Proofs.FiltersetParse Proofs.FiltersetRoundtrip Proofs.FiltersetSpec
  Proofs.FiltersetImage.
Open Scope N_scope.

(* the fuel [parse] supplies is never exhausted: no reported error is the out-of-fuel marker *)
Theorem C20_total_model :
  forall SO s, Forall (fun e => pe_kind e <> EOutOfFuel) (snd (parse_raw SO s)).
Proof. exact never_out_of_fuel. Qed.
Print Assumptions C20_total_model.

(* parsing yields either an expression or at least one error ... *)
Theorem C20_error_nonempty : forall SO s l, parse SO s = PErr l -> l <> [].
Proof. exact error_nonempty. Qed.
Print Assumptions C20_error_nonempty.

(* ... also in the view of ParsedExpr::parse, which ignores errors when an expression results *)
Theorem C20_no_expression_some_error :
  forall SO s es, parse_raw SO s = (None, es) -> es <> [].
Proof. exact raw_error_nonempty. Qed.
Print Assumptions C20_no_expression_some_error.

(* ... whose reported span lies within the input (byte offsets). The only assumption is about
   the regex engine: the error span it reports lies inside the pattern it was given. *)
Theorem C20_spans_within :
  forall SO s l, rx_sane SO -> parse SO s = PErr l ->
    Forall (fun sp => fst sp + snd sp <= blen s) l.
Proof. exact spans_within. Qed.
Print Assumptions C20_spans_within.

(* Rendering an expression of the shape the parser produces back to text and parsing that text
   yields the same expression. [canonical]: the tree shape of the parser's left folds;
   [printable]: non-empty matcher texts of scalar values, globs / regexes the engines accept,
   no regex ending in a backslash, implicit flag only on the predicate's default matcher. *)
Theorem C20_roundtrip :
  forall SO e, canonical e -> printable SO e = true -> parse SO (print e) = POk e.
Proof. exact roundtrip. Qed.
Print Assumptions C20_roundtrip.

(* Every tree the parser accepts is of that kind ([vs s]: the input consists of Unicode scalar
   values, as every Rust string does) ... *)
Theorem C20_parse_produces_canonical :
  forall SO s e, vs s -> parse SO s = POk e -> canonical e /\ printable SO e = true.
Proof. exact parse_produces_canonical. Qed.
Print Assumptions C20_parse_produces_canonical.

(* ... hence the property in its own words: rendering a successfully parsed expression back to
   text and parsing that text yields an equal expression. *)
Theorem C20_roundtrip_parsed :
  forall SO s e, vs s -> parse SO s = POk e -> parse SO (print e) = POk e.
Proof. exact roundtrip_parsed. Qed.
Print Assumptions C20_roundtrip_parsed.

(* The printer before the repairs F6a-c (print_unfixed): the full statement is false ... *)
Theorem C20_roundtrip_unfixed_refuted :
  exists s e, parse accept_all s = POk e /\ parse accept_all (print_unfixed e) <> POk e.
Proof. exact roundtrip_unfixed_refuted. Qed.
Print Assumptions C20_roundtrip_unfixed_refuted.

(* ... with one witness per class, each of which the repaired printer handles ... *)
Theorem C20_refuted_quotes : rt_fails w_quotes_src w_quotes /\ Known_quotes w_quotes = true.
Proof. exact refuted_quotes. Qed.
Print Assumptions C20_refuted_quotes.
Theorem C20_refuted_leading_sigil : rt_fails w_leading_src w_leading /\ Known_leading w_leading = true.
Proof. exact refuted_leading. Qed.
Print Assumptions C20_refuted_leading_sigil.
Theorem C20_refuted_leading_space : rt_fails w_space_src w_space /\ Known_leading w_space = true.
Proof. exact refuted_space. Qed.
Print Assumptions C20_refuted_leading_space.
Theorem C20_refuted_regex_pair : rt_fails w_regex_src w_regex /\ Known_regex_pair w_regex = true.
Proof. exact refuted_regex. Qed.
Print Assumptions C20_refuted_regex_pair.

(* ... and it holds outside the three classes. *)
Theorem C20_roundtrip_unfixed_outside_known :
  forall SO e, canonical e -> printable SO e = true ->
    Known_quotes e = false -> Known_leading e = false -> Known_regex_pair e = false ->
    parse SO (print_unfixed e) = POk e.
Proof. exact roundtrip_unfixed_outside_known. Qed.
Print Assumptions C20_roundtrip_unfixed_outside_known.

(* ---- non-vacuity *)
Definition ex_tree : pexpr :=
  PUnion OrLiteral
    (PInter AndAmp (PSet (STest (MContains [105;116;39;115;44;32;41] true)))       (* it's, ) *)
                   (PNot NotBang (PParens (PDiff DiffMinus (PSet (SKind (MEqual [108;105;98] true)))
                                                           (PSet (SPlatform PHost))))))
    (PSet (SPackage (MRegex [97;92;47;98]))).                                        (* a\/b *)
Example ex_canonical : canonical ex_tree.
Proof. reflexivity. Qed.
Example ex_printable : printable accept_all ex_tree = true.
Proof. reflexivity. Qed.
Example ex_roundtrip : parse accept_all (print ex_tree) = POk ex_tree.
Proof. vm_compute. reflexivity. Qed.
(* an error with a proper span: "test(" ++ backslash ++ e-acute ++ ")" reports bytes 5..7 *)
Example ex_err_span : parse accept_all [116;101;115;116;40;92;233;41] = PErr [(5, 2)].
Proof. vm_compute. reflexivity. Qed.
(* a non-trivial input that is accepted, so C20_roundtrip_parsed is not vacuous:
   "!(kind(lib) - platform(host)) or test(~a\,b)" *)
Example ex_parsed :
  exists e, vs [33;40;107;105;110;100;40;108;105;98;41;32;45;32;112;108;97;116;102;111;114;109;40;104;111;115;116;41;41;32;111;114;32;116;101;115;116;40;126;97;92;44;98;41] /\
            parse accept_all [33;40;107;105;110;100;40;108;105;98;41;32;45;32;112;108;97;116;102;111;114;109;40;104;111;115;116;41;41;32;111;114;32;116;101;115;116;40;126;97;92;44;98;41] = POk e.
Proof. eexists. split; [reflexivity|]. vm_compute. reflexivity. Qed.
(* the hypothesis of C20_spans_within, for an oracle that does report errors: [paren_engine]
   rejects every regex containing "(" with the byte span of the first one (accept_all, which never
   errs, satisfies rx_sane only vacuously) ... *)
Example ex_rx_sane : rx_sane paren_engine.
Proof. exact paren_engine_sane. Qed.
(* ... and it does err: "test(/é(b/)" is rejected with the span of the "(" inside the pattern --
   byte 8 of the input (é takes two bytes), length 1 -- within the 12 bytes of the input *)
Example ex_rx_sane_errs :
  regex_check paren_engine [233; 40; 98] = RxErr 2 1
  /\ parse paren_engine [116;101;115;116;40;47;233;40;98;47;41] = PErr [(8, 1)]
  /\ blen [116;101;115;116;40;47;233;40;98;47;41] = 12
  /\ regex_check paren_engine [97; 98] = RxOk.
Proof. repeat split; vm_compute; reflexivity. Qed.
