(* C10 — After cancellation begins nothing new starts; cancellation only escalates.
   Statements only; proofs are in Proofs/Dispatcher.v. All statements quantify over EVERY event
   history [h] (well-formed or not), every max-fail value and both settings of debug assertions.
   [sig_inv s] ("a shutdown signal has been counted only if cancellation has begun") holds of every
   initial state and of every state reachable from one (C10_reachable). *)
From Coq Require Import List NArith ZArith Bool Sorted.
From NextestModel Require Import Model.Result Model.Dispatcher Model.Unit
     Proofs.Result Proofs.Dispatcher Proofs.Unit.
Import ListNotations.
Open Scope N_scope.

Theorem C10_reachable :
  forall n mf dbg h, sig_inv (final_state (Live (init n mf dbg)) h).
Proof. exact reachable_sig_inv. Qed.
Print Assumptions C10_reachable.

(* Nothing new starts: in the emitted stream no TestStarted / TestRetryStarted /
   SetupScriptStarted occurs after any RunBeginCancel (or RunBeginKill) — in particular after the
   first one; and every step after the announcing step answers a start request by dropping the
   channel (never HAccepted) and emits no start event. *)
Theorem C10_no_new_units :
  forall s h, sig_inv s ->
    (forall pre x post, out s h = pre ++ x :: post -> is_ann x = true ->
       Forall (fun y => is_start_event y = false) post) /\
    (forall tr1 x tr2, trace s h = tr1 ++ x :: tr2 -> existsb is_ann (step_events x) = true ->
       Forall (fun y => r_hs (step_resp y) <> HAccepted /\
                        Forall (fun z => is_start_event z = false) (step_events y)) tr2).
Proof. exact no_new_units. Qed.
Print Assumptions C10_no_new_units.

(* cancel_state never decreases ... *)
Theorem C10_monotone :
  forall h d d', final_state (Live d) h = Live d' -> opt_rank (d_cancel d) <= opt_rank (d_cancel d').
Proof. exact run_cancel_monotone. Qed.
Print Assumptions C10_monotone.

(* ... and never returns to None *)
Theorem C10_never_resets :
  forall d h d', final_state (Live d) h = Live d' -> d_cancel d <> None -> d_cancel d' <> None.
Proof. exact cancel_never_resets. Qed.
Print Assumptions C10_never_resets.

(* The reasons of successive RunBeginCancel events strictly increase in
   SetupScriptFailure < TestFailure < ReportError < Signal < Interrupt < SecondSignal
   (so each is announced at most once), and all exceed the cancel state the run started from. *)
Theorem C10_announce_once :
  forall s h,
    StronglySorted rank_lt (reasons (out s h)) /\
    Forall (fun r => opt_rank (dst_cancel s) < opt_rank (Some r)) (reasons (out s h)).
Proof. exact announce_once. Qed.
Print Assumptions C10_announce_once.

(* max-fail: after any history [h], the step handling [e] announces TestFailure exactly when [e] is
   a Finished that does not panic, max-fail is Some n, the number of failed tests among the
   Finished events of [h ++ [e]] (ground truth of the history) is at least n, and nothing of rank
   >= TestFailure had been announced. With max-fail = None (no-fail-fast): never. *)
Theorem C10_maxfail_exact :
  forall c0 mf dbg h e d s' evs rsp,
    final_state (Live (init c0 mf dbg)) h = Live d ->
    dstep (Live d) e = (s', evs, rsp) ->
    (In TestFailure (reasons evs) <->
     exists t a n, e = Finished t a /\ s' <> Panicked /\ mf = Some n /\
                   n <= tally ev_fail (h ++ [e]) /\
                   opt_rank (d_cancel d) < opt_rank (Some TestFailure)).
Proof. exact maxfail_exact. Qed.
Print Assumptions C10_maxfail_exact.

(* ... and for n >= 1 (the only values the CLI and the config accept) that step is the one whose
   Finished makes the count of failed tests reach n: below n before, exactly n after. *)
Theorem C10_maxfail_reach :
  forall c0 n dbg h e d s' evs rsp,
    1 <= n ->
    final_state (Live (init c0 (Some n) dbg)) h = Live d ->
    dstep (Live d) e = (s', evs, rsp) ->
    In TestFailure (reasons evs) ->
    tally ev_fail h < n /\ tally ev_fail (h ++ [e]) = n.
Proof. exact maxfail_reach. Qed.
Print Assumptions C10_maxfail_reach.

(* a failing setup script cancels whatever max-fail says *)
Theorem C10_script_failure_cancels :
  forall d s r s' evs rsp,
    dstep (Live d) (ScriptFinished s r) = (s', evs, rsp) ->
    s' <> Panicked -> is_success r = false -> d_cancel d = None ->
    In SetupScriptFailure (reasons evs) /\ r_resp rsp = RCancel CeTestFailure.
Proof. exact step_script_failure. Qed.
Print Assumptions C10_script_failure_cancels.

(* Running units are left alone unless the cause is a signal: an announcement for setup-script
   failure / test failure / report error goes with the OtherCancel broadcast, one for Signal /
   Interrupt with Shutdown(Once ev) of that very signal, RunBeginKill with Shutdown(Twice); each
   cause announces only its own reason; and no cancel broadcast is made without an announcement. *)
Theorem C10_running_left_alone :
  forall d e s' evs rsp,
    dstep (Live d) e = (s', evs, rsp) ->
    let b := broadcast_of (r_resp rsp) in
    (forall r, In r (reasons evs) ->
       (rank r <= 2 -> b = Some BOtherCancel) /\
       (3 <= rank r -> exists ev, e = SigShutdown ev /\ r = event_to_cancel_reason ev /\
                                  b = Some (BShutdown (Once ev))) /\
       match e with
       | ScriptFinished _ _ => r = SetupScriptFailure
       | Finished _ _ => r = TestFailure
       | ReportCancel => r = ReportError
       | SigShutdown ev => r = event_to_cancel_reason ev
       | _ => False
       end) /\
    (existsb is_begin_kill evs = true -> b = Some (BShutdown Twice)) /\
    (reasons evs = [] -> existsb is_begin_kill evs = false -> cancel_broadcast b = false).
Proof. exact step_broadcast. Qed.
Print Assumptions C10_running_left_alone.

(* RunBeginKill is emitted exactly for the second shutdown signal ... *)
Theorem C10_kill_exactly_second_signal :
  forall c0 mf dbg h e d s' evs rsp,
    final_state (Live (init c0 mf dbg)) h = Live d ->
    dstep (Live d) e = (s', evs, rsp) ->
    (existsb is_begin_kill evs = true <->
     (exists ev, e = SigShutdown ev) /\ shutdown_count h = 1%nat).
Proof. exact kill_exactly_second_signal. Qed.
Print Assumptions C10_kill_exactly_second_signal.

(* ... and the third one panics ("Signaled 3 times, exiting immediately") *)
Theorem C10_third_signal_panics :
  forall c0 mf dbg h ev d,
    final_state (Live (init c0 mf dbg)) h = Live d -> shutdown_count h = 2%nat ->
    dstep (Live d) (SigShutdown ev) = (Panicked, [], no_resp).
Proof. exact third_signal_panics. Qed.
Print Assumptions C10_third_signal_panics.

(* The repair of finding F10, dispatcher side: handle_event itself addresses a single unit exactly
   when that unit reports a failed attempt (with retries left) while the run is being cancelled;
   the request it repeats to it is OtherCancel. *)
Theorem C10_unit_told_again :
  forall d e s' evs rsp t,
    dstep (Live d) e = (s', evs, rsp) ->
    (r_unit rsp = Some t <->
     exists a, e = AttemptFailedWillRetry t a /\ d_cancel d <> None /\ s' <> Panicked).
Proof. exact dstep_unicast_iff. Qed.
Print Assumptions C10_unit_told_again.

(* "... rather than sitting out retry delays" (model level): over the dispatcher, the executor
   protocol and the units' request channels ([sys_step]: broadcasts reach every unit in
   running_tests, a unit whose attempt is running may take requests off its channel at any time
   and ignores OtherCancel, a unit in the delay between attempts leaves it as soon as a cancel
   request is in its channel) no unit is ever in a retry delay of a run that is being cancelled
   with an empty channel -- for every well-formed schedule [xs] of events and channel reads. *)
Theorem C10_ends_promptly :
  forall c mf dbg xs y,
    cfg_ok c = true -> sys_run true c (sys0 c mf dbg) xs = Some y ->
    forall t, stuck_in_delay y t = false.
Proof. exact ends_promptly. Qed.
Print Assumptions C10_ends_promptly.

(* ---- non-vacuity: closed examples (vm_compute) ---- *)

Example ex_reasons :
  reasons (out (Live (init 4 (Some 2) true)) ex_history) = [TestFailure; Signal].
Proof. vm_compute. reflexivity. Qed.

Example ex_handshakes :
  map (fun x => r_hs (step_resp x)) (trace (Live (init 4 (Some 2) true)) ex_history) =
  [HAccepted; HAccepted; HAccepted; HNone; HNone; HNone; HRefused; HRefused; HNone; HNone; HNone].
Proof. vm_compute. reflexivity. Qed.

Example ex_broadcasts :
  map (fun x => broadcast_of (r_resp (step_resp x))) (trace (Live (init 4 (Some 2) true)) ex_history) =
  [None; None; None; None; None; Some BOtherCancel; None; None;
   Some (BShutdown (Once Term)); None; Some (BShutdown Twice)].
Proof. vm_compute. reflexivity. Qed.

Example ex_kill :
  existsb is_begin_kill (out (Live (init 4 (Some 2) true)) ex_history) = true.
Proof. vm_compute. reflexivity. Qed.

Example ex_third_signal :
  final_state (Live (init 4 (Some 2) true)) (ex_history ++ [SigShutdown Hangup]) = Panicked.
Proof. vm_compute. reflexivity. Qed.

(* no-fail-fast: the same failures announce nothing *)
Example ex_no_fail_fast :
  reasons (out (Live (init 4 None true))
               [Started 0; Started 1; Finished 0 (fail_att 1 1); Finished 1 (fail_att 1 1); Started 2]) = []
  /\ map (fun x => r_hs (step_resp x))
         (trace (Live (init 4 None true))
                [Started 0; Started 1; Finished 0 (fail_att 1 1); Finished 1 (fail_att 1 1); Started 2])
     = [HAccepted; HAccepted; HNone; HNone; HAccepted].
Proof. split; vm_compute; reflexivity. Qed.

(* a failing setup script cancels under no-fail-fast, and the next script is refused *)
Example ex_script_failure :
  reasons (out (Live (init 1 None true)) [ScriptStarted 0; ScriptFinished 0 ExecFail; ScriptStarted 1; Started 0])
  = [SetupScriptFailure]
  /\ map (fun x => r_hs (step_resp x))
         (trace (Live (init 1 None true)) [ScriptStarted 0; ScriptFinished 0 ExecFail; ScriptStarted 1; Started 0])
     = [HAccepted; HNone; HRefused; HRefused].
Proof. split; vm_compute; reflexivity. Qed.

(* F10's witness: fail-fast; test 0 fails while test 1's first attempt is running; unit 1 takes the
   OtherCancel off its channel and ignores it; its attempt then fails with retries left. Without
   the per-unit repeat ([unicast = false], the dispatcher before the repair) unit 1 is stuck in its
   retry delay; with it, it is not. *)
Example F10_witness_before_repair :
  match sys_run false f10_cfg (sys0 f10_cfg (Some 1) true) f10_witness with
  | Some y => stuck_in_delay y 1
  | None => false
  end = true.
Proof. vm_compute. reflexivity. Qed.

Example F10_witness_after_repair :
  match sys_run true f10_cfg (sys0 f10_cfg (Some 1) true) f10_witness with
  | Some y => negb (stuck_in_delay y 1)
  | None => false
  end = true.
Proof. vm_compute. reflexivity. Qed.
