#!/usr/bin/env python3
"""Soak: many generated end-to-end scenarios, every oracle of lib/e2e_general.py applied to each.
Prints one line per flagged run (a flag on the unchanged tree is a false alarm of the oracle or a
finding to investigate). Usage: tools/soak_e2e.py <seed> <count>"""
import sys, os, json
sys.path.insert(0, os.path.join(os.path.dirname(os.path.dirname(os.path.abspath(__file__))), "lib"))
import vlib, e2e, e2e_general as G

seed, count = int(sys.argv[1]), int(sys.argv[2])
rig = e2e.Rig()
r = vlib.rng_for(seed, "soak")
flags = 0
for k in range(count):
    sc = G.gen_scenario(r)
    res = G.run(rig, sc)
    for p, f in G.ORACLES.items():
        why = f(sc, res)
        if why:
            flags += 1
            print(json.dumps(dict(k=k, prop=p, why=why, scenario=sc, rc=res["rc"], stderr=res["stderr"][-600:])), flush=True)
    rig.cleanup(res)
print(f"soak seed={seed} runs={count} flags={flags}", flush=True)
