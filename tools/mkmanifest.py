#!/usr/bin/env python3
"""Regenerates MANIFEST.json from the table below (kept in one place so it always validates)."""
import json, os, subprocess
V = os.path.dirname(os.path.dirname(os.path.abspath(__file__)))
BASE = json.load(open("/root/.vp/BASELINE.json"))
ALL = [f"C{n:02d}" for n in range(1, 21)]
props = {json.loads(l)["id"]: json.loads(l) for l in open(os.path.join(V, "properties.jsonl"))}

# id -> (category, technique, text, note, design_ref)
CLAIMS = {}
for f in sorted(os.listdir(os.path.join(V, "tools", "claims"))):
    if f.endswith(".json"):
        CLAIMS[f[:-5]] = json.load(open(os.path.join(V, "tools", "claims", f)))

hooks_commits = subprocess.run(["git", "-C", "/repo", "log", "--format=%h %s"], capture_output=True,
                               text=True).stdout.splitlines()
hook_commits = [l.split()[0] for l in hooks_commits if "verif hook" in l]

checks = []
for pid in ALL:
    if pid not in CLAIMS:
        continue
    c = CLAIMS[pid]
    checks.append(dict(
        property_id=pid,
        quick_cmd=f"./check {pid} --tier quick",
        thorough_cmd=f"./check {pid} --tier thorough",
        evidence_file=f"/verif/evidence/{pid}.json",
        replay_cmd_template=f"./check {pid} --replay {{path}}",
        engine="rocq-model+correspondence",
        level_claimed=dict(category=c["category"], text=c["text"], design_ref=c["design_ref"]),
        level_note=c["note"],
        technique=c["technique"]))
na = [dict(property_id=p, reason=CLAIMS.get("_not_applicable", {}).get(
    p, "not yet claimed: model and correspondence check for this property are not built yet "
       "(planned in DESIGN.md section 5); nothing is asserted about it"))
      for p in ALL if p not in CLAIMS]
m = dict(
    version=1,
    setup_cmd="./setup.sh",
    hooks=dict(guard="nextest_verif",
               enable='RUSTFLAGS="--cfg nextest_verif --cfg tokio_unstable" (harness and cargo-nextest builds '
                      'made by the checks; target dir /verif/.cache/target)',
               baseline_off_cmd=BASE["cmd"].split("  (fallback")[0],
               source_commits=hook_commits, add_only=True),
    engines=[dict(name="rocq-model+correspondence", path="/verif/coq + /verif/harness + /verif/props",
                  serves_properties=[c["property_id"] for c in checks],
                  kind_free_text="Rocq (Coq 8.16.1) theorems about hand-written executable models; models "
                                 "tied to /repo on every run by differential correspondence checks "
                                 "(vm_compute inside Coq vs the implementation built from the working tree)")],
    checks=checks,
    not_applicable=na,
    notes="See DESIGN.md. Known findings and repaired defects: known_findings.json.")
json.dump(m, open(os.path.join(V, "MANIFEST.json"), "w"), indent=1)
print("claimed:", [c["property_id"] for c in checks])
