#!/bin/bash
# Independent re-check of every compiled property file and everything it depends on; prints the
# context summary (axioms, type-in-type, assumed positivity, unsafe fixpoints).
cd "$(dirname "$0")/../coq"
coqchk -silent -o -Q . NextestModel $(ls Properties/*.vo | sed 's|/|.|g; s|\.vo$||; s|^|NextestModel.|') 2>&1 | tail -20
