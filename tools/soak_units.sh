#!/bin/bash
# thorough tier of the unit-timer family with several seeds (false-alarm soak)
cd "$(dirname "$0")/.."
./setup.sh > /tmp/soak_units_setup.log 2>&1
for s in "$@"; do for p in C09 C11 C12; do
  out=$(VERIF_SEED=$s ./check $p --tier thorough 2>&1 | grep -E "VIOLATION")
  echo "$p seed=$s $(echo "$out" | grep -c VIOLATION) violations"; echo "$out" | grep VIOLATION
  for f in $(echo "$out" | sed -n 's/.*replay=\([^ ]*\).*/\1/p'); do python3 -c "
import json,sys; d=json.load(open('$f')); print('   clause:', d.get('clause'), d.get('note'));
[print('   ', r['scenario'], r['diff'], r['oracle']) for r in d.get('runs',[])[:1]]"; done
done; done
