#!/bin/bash
# Runs every claimed check in the given tier (default quick) and prints one line per property.
cd "$(dirname "$0")/.."
tier=${1:-quick}
./setup.sh > /tmp/run_all_setup.log 2>&1 || echo "setup failed"
for p in $(python3 -c "import json; print(' '.join(c['property_id'] for c in json.load(open('MANIFEST.json'))['checks']))"); do
  s=$(date +%s)
  out=$(./check $p --tier $tier 2>&1 | grep -E "VIOLATION|KNOWN-FINDING")
  rc=$?
  e=$(date +%s)
  echo "$p tier=$tier wall=$((e-s))s $(echo "$out" | grep -c VIOLATION) violations $(echo "$out" | grep -c KNOWN) known"
  echo "$out" | grep VIOLATION
done
