#!/bin/bash
# tools/seedtest.sh <patch.diff> <Cxx> [<Cyy> ...]: applies a seeded patch to the dedicated scratch repo
# worktree /tmp/seedrepo (never /repo) and runs the given checks from the dedicated verif worktree
# /tmp/wa/verif-seedtest (synced to /verif's main) with VERIF_REPO pointing at it.
set -u
patch=$1; shift
V=/tmp/wa/verif-seedtest; R=/tmp/seedrepo
# the two scratch worktrees are created on first use (remove them when done:
#   git -C /repo worktree remove --force /tmp/seedrepo; git -C /verif worktree remove --force /tmp/wa/verif-seedtest)
[ -d $R ] || git -C /repo worktree add -q --detach $R HEAD
[ -d $V ] || { mkdir -p /tmp/wa; git -C /verif worktree add -q --detach $V HEAD; }
git -C $R checkout -q -- . ; git -C $R clean -fdq -e target; git -C $R checkout -q --detach $(git -C /repo rev-parse HEAD)
git -C $V checkout -q -- . ; git -C $V checkout -q --detach $(git -C /verif rev-parse HEAD)
git -C $R apply "$patch" || { echo "patch does not apply"; exit 2; }
cd $V
for p in "$@"; do
  out=$(VERIF_REPO=$R ./check $p --tier quick 2>&1 | grep -E "VIOLATION")
  echo "$p: $(echo "$out" | grep -c VIOLATION) violation line(s)"
  for f in $(echo "$out" | sed -n 's/.*replay=\([^ ]*\).*/\1/p' | head -3); do
    python3 -c "
import json; d=json.load(open('$f')); print('   ', d.get('name'), '|', str(d.get('clause') or d.get('note'))[:260])"
  done
done
git -C $R checkout -q -- .
