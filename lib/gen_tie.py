"""Decision functions regenerated from the Rust source (DESIGN 11.7).

regen()            runs harness/src/bin/decisions.rs on harness/decisions.json against the repository
                   the checks are built from (vlib.REPO, i.e. VERIF_REPO) and rewrites
                   coq/gen/GenDecisions.v when its content changed.
gate(chk, targets) regenerates, builds gen/GenDecisions.vo + Proofs/GenBridge.vo + Properties/Gen.vo
                   through the project's make, audits `Print Assumptions` of the Gen theorems of the
                   given targets, and records the outcome on the check. A target is the name of a
                   block of Proofs/GenBridge.v (= one bridge lemma = the theorems
                   `<property>_source_<target>` of Properties/Gen.v).

A translator failure or a bridge lemma that no longer checks is a broken proof obligation of the
calling property (DESIGN section 3, row 4). It is reported when the check finishes: the property's own
correspondence / oracle stages run first and report a concrete failing input if they find one; if
none of them produced a counterexample, `VIOLATION ... no-failing-input-found` with the replay
`gen-bridge:<target>` is printed. When the whole bridge file does not compile, every target is
re-checked on its own (its block plus the blocks it needs), so that a change to one function is not
attributed to properties wired to other functions."""
import json, os, re, subprocess, time
import vlib

SPEC = os.path.join(vlib.HARNESS, "decisions.json")
GEN_FILE = os.path.join(vlib.GEN, "GenDecisions.v")
MANIFEST = os.path.join(vlib.CACHE, "gen_decisions_manifest.json")
BRIDGE = os.path.join(vlib.COQ, "Proofs", "GenBridge.v")
STATEMENTS = os.path.join(vlib.COQ, "Properties", "Gen.v")
# Two families of generated definitions, each with its own spec, generated file, bridge file and statement file, so that
# a source change in the glue code (junit writer, displayer, TestSettings loop, execute stream, run_count, dispatcher
# run loop, signal_str) does not make the checks wired only to the decision functions re-probe their targets.
FAMILIES = {
    "decisions": dict(spec=SPEC, gen_file=GEN_FILE, manifest=MANIFEST, bridge=BRIDGE, statements="Gen",
                      gen_vo="gen/GenDecisions.vo", bridge_vo="Proofs/GenBridge.vo", spec_rel="harness/decisions.json",
                      gen_rel="coq/gen/GenDecisions.v"),
    "glue": dict(spec=os.path.join(vlib.HARNESS, "decisions_glue.json"), gen_file=os.path.join(vlib.GEN, "GenGlue.v"),
                 manifest=os.path.join(vlib.CACHE, "gen_glue_manifest.json"),
                 bridge=os.path.join(vlib.COQ, "Proofs", "GlueBridge.v"), statements="GenGlue",
                 gen_vo="gen/GenGlue.vo", bridge_vo="Proofs/GlueBridge.vo", spec_rel="harness/decisions_glue.json",
                 gen_rel="coq/gen/GenGlue.v"),
}
TRANSLATOR = ("harness/src/bin/decisions.rs + harness/src/decisions/*.rs (syn translator, DESIGN 11.7; scoped.rs: fragments of "
              "large functions as functions of declared free variables)")
ALLOWED_SENTENCE = re.compile(r"^(From|Module|End|Inductive|Record|Definition)\b")


def _only_definitions(text):
    """the generated file may contain nothing but Require / Module / Inductive / Record / Definition"""
    src = vlib.strip_comments(text)
    bad = [m.group(0) for m in vlib.FORBIDDEN.finditer(src)]
    for sent in re.split(r"\.\s*\n", src):
        s = sent.strip()
        if s and not ALLOWED_SENTENCE.match(s):
            bad.append(s[:60])
    return bad


def regen(family="decisions"):
    """-> dict(ok, hard, errors, manifest, text). ok: every request was translated. hard: nothing
    usable was produced (the generated file is left as it was)."""
    fam = FAMILIES[family]
    SPEC, GEN_FILE, MANIFEST = fam["spec"], fam["gen_file"], fam["manifest"]
    binary, err = vlib.build_harness()
    if binary is None:
        return dict(ok=False, hard=True, errors=["harness build failed: " + err[-1500:]], manifest=None, text=None)
    exe = os.path.join(os.path.dirname(binary), "decisions")
    os.makedirs(vlib.CACHE, exist_ok=True)
    if os.path.exists(MANIFEST):
        os.remove(MANIFEST)
    rc, o, e = vlib.sh([exe, SPEC, MANIFEST], timeout=120, env=dict(vlib.ENV, VERIF_REPO=vlib.REPO))
    errors = [l.strip() for l in e.splitlines() if l.startswith("decisions:")]
    manifest = None
    if os.path.exists(MANIFEST):
        try:
            manifest = json.load(open(MANIFEST))
        except ValueError:
            manifest = None
    if rc not in (0, 3) or not o.startswith("(* GENERATED") or manifest is None:
        return dict(ok=False, hard=True, errors=errors or [f"translator exit status {rc}: {(e or o)[-1500:]}"],
                    manifest=manifest, text=None)
    bad = _only_definitions(o)
    if bad:
        return dict(ok=False, hard=True, errors=["generated file contains something other than definitions: "
                                                 + "; ".join(bad[:5])], manifest=manifest, text=None)
    os.makedirs(vlib.GEN, exist_ok=True)
    if not os.path.exists(GEN_FILE) or open(GEN_FILE).read() != o:
        open(GEN_FILE, "w").write(o)
    return dict(ok=(rc == 0), hard=False, errors=errors, manifest=manifest, text=o)


# --------------------------------------------------------------------------- the bridge file

def blocks(family="decisions"):
    """Proofs/GenBridge.v cut at its markers -> {name: dict(needs, text, lemmas, uses)} (ordered)"""
    src = open(FAMILIES[family]["bridge"]).read()
    parts = re.split(r"^\(\* == block (\w+)(?: \(needs ([\w ]+)\))? == \*\)\n", src, flags=re.M)
    out = {}
    for i in range(1, len(parts), 3):
        name, needs, text = parts[i], (parts[i + 1] or "").split(), parts[i + 2]
        out[name] = dict(needs=needs, text=text, lemmas=re.findall(r"^Lemma\s+(\w+)", text, re.M),
                         uses=sorted(set(re.findall(r"\bG\.(\w+)", vlib.strip_comments(text)))))
    return out


def closure(bl, name):
    seen, order = set(), []

    def go(n):
        if n in seen:
            return
        seen.add(n)
        for d in bl[n]["needs"]:
            go(d)
        order.append(n)
    go(name)
    return order


def theorems_of(target, family="decisions"):
    return [n for n in vlib.theorem_names(FAMILIES[family]["statements"]) if n.endswith("_source_" + target)]


def _probe(bl, target, timeout=180):
    """compile one block on its own (preamble + what it needs); -> (ok, axioms or None, message)"""
    path = os.path.join(vlib.GEN, f"assump_bridge_{target}.v")
    with open(path, "w") as f:
        f.write(bl["preamble"]["text"])
        for n in closure(bl, target):
            f.write(f"(* block {n} *)\n" + bl[n]["text"])
        for l in bl[target]["lemmas"]:
            f.write(f'Goal True. idtac "@@ {l}". exact I. Qed.\nPrint Assumptions {l}.\n')
    rc, o, e = vlib.sh(["coqc", "-noglob", "-Q", ".", "NextestModel", path], cwd=vlib.COQ, timeout=timeout)
    for ext in (".vo", ".vok", ".vos", ".glob"):
        q = path[:-2] + ext
        if os.path.exists(q):
            os.remove(q)
    if rc != 0:
        return False, None, (o + e)[-1800:]
    axioms = {}
    chunks = re.split(r"@@ (\w+)\n", o)
    for i in range(1, len(chunks), 2):
        body = chunks[i + 1].strip()
        axioms[chunks[i]] = [] if "Closed under the global context" in body else \
            re.findall(r"^([A-Za-z0-9_.']+)\s*:", body, re.M)
    return True, axioms, ""


def _assumptions_of(names, family="decisions"):
    """Print Assumptions of the given theorems of Properties/Gen.v by a fresh coqc -> ({name: [axioms]} or None, output)"""
    os.makedirs(vlib.GEN, exist_ok=True)
    st = FAMILIES[family]["statements"]
    path = os.path.join(vlib.GEN, "assump_%s_%d.v" % (st, os.getpid()))
    with open(path, "w") as f:
        f.write("From NextestModel Require Import Properties.%s.\n" % st)
        for n in names:
            f.write(f'Goal True. idtac "@@ {n}". exact I. Qed.\nPrint Assumptions {n}.\n')
    rc, o, e = vlib.sh(["coqc", "-noglob", "-Q", ".", "NextestModel", path], cwd=vlib.COQ, timeout=600)
    for ext in (".v", ".vo", ".vok", ".vos", ".glob"):
        q = path[:-2] + ext
        if os.path.exists(q):
            os.remove(q)
    aux = os.path.join(vlib.GEN, "." + os.path.basename(path)[:-2] + ".aux")
    if os.path.exists(aux):
        os.remove(aux)
    if rc != 0:
        return None, o + e
    res = {}
    chunks = re.split(r"@@ ([A-Za-z0-9_']+)\n", o)
    for i in range(1, len(chunks), 2):
        body = chunks[i + 1].strip()
        res[chunks[i]] = [] if "Closed under the global context" in body else \
            re.findall(r"^([A-Za-z0-9_.']+)\s*:", body, re.M)
    return res, o + e


def check_targets(targets, rg, family="decisions"):
    """-> {target: dict(ok, error, theorems, axioms, source)}"""
    fam = FAMILIES[family]

    def theorems_of(t, _f=family):
        return globals()["theorems_of"](t, _f)
    bl = blocks(family)
    res = {}
    defs = {d["coq"]: d for d in (rg["manifest"] or {}).get("definitions", [])}
    present = set(re.findall(r"[A-Za-z_][A-Za-z0-9_']*", vlib.strip_comments(rg["text"] or "")))

    def source_of(t):
        names = set()
        for n in closure(bl, t):
            names.update(bl[n]["uses"])
        return {n: (f"{defs[n]['origin']} [{defs[n]['hash']}]" if n in defs else "NOT GENERATED")
                for n in sorted(names) if n in defs or n not in present}

    for t in targets:
        if t not in bl:
            res[t] = dict(ok=False, error=f"no block `{t}` in {os.path.basename(fam['bridge'])}", theorems=[], axioms={}, source={})
    todo = [t for t in targets if t not in res]
    if rg["hard"]:
        for t in todo:
            res[t] = dict(ok=False, error="translator failed: " + "; ".join(rg["errors"])[-1800:],
                          theorems=theorems_of(t), axioms={}, source={})
        return res
    ok_all, out = vlib.coq_make([fam["gen_vo"], fam["bridge_vo"], "Properties/%s.vo" % fam["statements"]], timeout=900)
    if ok_all and rg["ok"]:
        # (only the theorems of the wanted targets: Print Assumptions walks the whole proof term, and some of the
        # case analyses are large)
        ax, aout = _assumptions_of(sorted({n for t in todo for n in theorems_of(t)}), family)
        for t in todo:
            ths = theorems_of(t)
            if ax is None or not ths or any(n not in ax for n in ths):
                res[t] = dict(ok=False, error="Print Assumptions run failed or no theorem `*_source_%s` in "
                                              "Properties/Gen.v: %s" % (t, aout[-600:]), theorems=ths, axioms={},
                              source=source_of(t))
                continue
            extra = sorted({a for n in ths for a in ax[n] if a not in vlib.AXIOM_ALLOW})
            res[t] = dict(ok=not extra, error=("depends on axioms " + ", ".join(extra)) if extra else "",
                          theorems=ths, axioms={n: ax[n] for n in ths}, source=source_of(t))
        return res
    # something does not build: decide target by target
    gen_ok, gen_out = vlib.coq_make([fam["gen_vo"]], timeout=300)
    for t in todo:
        ths = theorems_of(t)
        src = source_of(t)
        missing = [n for n, v in src.items() if v == "NOT GENERATED"]
        if missing:
            res[t] = dict(ok=False, theorems=ths, axioms={}, source=src,
                          error="not translated: " + ", ".join(missing) + ". " + "; ".join(rg["errors"])[-1500:])
        elif not gen_ok:
            res[t] = dict(ok=False, theorems=ths, axioms={}, source=src,
                          error=fam["gen_vo"][:-1] + " does not compile:\n" + "\n".join(gen_out.strip().splitlines()[-12:]))
        else:
            ok, ax, msg = _probe(bl, t)
            if ok:
                lem_ax = sorted({a for l in ax.values() for a in l if a not in vlib.AXIOM_ALLOW})
                res[t] = dict(ok=not lem_ax, theorems=ths, axioms={n: sorted({a for l in ax.values() for a in l}) for n in ths},
                              source=src, error=("depends on axioms " + ", ".join(lem_ax)) if lem_ax else "",
                              note="checked on its own: another block of Proofs/GenBridge.v does not compile")
            else:
                res[t] = dict(ok=False, theorems=ths, axioms={}, source=src,
                              error="bridge lemma no longer checks:\n" + msg)
    return res


# --------------------------------------------------------------------------- wiring into a check

def gate(chk, targets, coq_gate_result=None, family="decisions"):
    """regenerate + build + audit; failures are kept on `chk` and reported by settle() when the check
    finishes (chk.finish is wrapped so that every return path settles). Returns {target: result}."""
    t0 = time.time()
    rg = regen(family)
    res = check_targets(list(targets), rg, family)
    pend = []
    for t in targets:
        r = res[t]
        chk.count("gen_bridge_functions")
        chk.count(f"gen_bridge:{t}={'ok' if r['ok'] else 'BROKEN'}")
        if not r["ok"]:
            pend.append((t, dict(obligation=f"gen-bridge:{t}", theorems=r["theorems"], error=r["error"],
                                 source=r["source"], translator_messages=rg["errors"],
                                 meaning="the function regenerated from the Rust source is no longer provably equal "
                                         "to the model function the property theorems are about (or could not be "
                                         "translated at all)")))
    if coq_gate_result is not None:
        g = coq_gate_result
        for t in targets:
            r = res[t]
            g["theorems"] = list(g["theorems"]) + r["theorems"]
            g["obligations"] += max(1, len(r["theorems"]))
            g["discharged"] += len(r["theorems"]) if r["ok"] else 0
            g["axioms"].update(r["axioms"])
    chk._gen_pending = getattr(chk, "_gen_pending", []) + pend
    chk._gen_targets = getattr(chk, "_gen_targets", []) + list(targets)
    chk._gen_sources = dict(getattr(chk, "_gen_sources", {}))
    for t in targets:
        chk._gen_sources.update(res[t]["source"])
    chk.count("gen_bridge_wall_ms", int((time.time() - t0) * 1000))
    chk._gen_families = sorted(set(getattr(chk, "_gen_families", [])) | {family})
    if not getattr(chk, "_gen_wrapped", False):
        chk._gen_wrapped = True
        orig = chk.finish

        def finish(gate_result, checker_cmd, trusted_base, extra_cov=None):
            settle(chk)
            tb = list(trusted_base)
            if TRANSLATOR not in tb:
                tb.append(TRANSLATOR)
            cov = dict(extra_cov or {})
            fams = [FAMILIES[f] for f in getattr(chk, "_gen_families", ["decisions"])]
            cov["gen_bridge"] = dict(functions=chk._gen_targets, generated_from=chk._gen_sources,
                                     checker_cmd="; ".join(
                                         "decisions %s > %s; make -C coq %s Properties/%s.vo; Print Assumptions"
                                         % (f["spec_rel"], f["gen_rel"], f["bridge_vo"], f["statements"]) for f in fams))
            return orig(gate_result, checker_cmd + " ; gen-bridge: make -C coq " +
                        " ".join("Properties/%s.vo" % f["statements"] for f in fams), tb, cov)
        chk.finish = finish
    return res


def _concrete(path):
    try:
        return json.load(open(path)).get("kind") == "counterexample"
    except (OSError, ValueError):
        return False


def settle(chk):
    pend = getattr(chk, "_gen_pending", [])
    chk._gen_pending = []
    note = ("decision functions %s are regenerated from the Rust source by the syn translator and proved equal to the "
            "model functions for all inputs (Properties/Gen.v, Properties/GenGlue.v); the translator reads the Rust subset correctly; usize "
            "is unbounded N (overflow out of scope); views reduce ExecutionStatuses / ExecuteStatus to the observers "
            "listed in harness/decisions.json; fragments of large functions (call arguments, lets, struct-literal "
            "fields, loop tails, leading guards, call lists on a Command) are found syntactically and are functions of "
            "the free variables declared in harness/decisions.json -- what is left out is named in the header of "
            "coq/gen/GenDecisions.v / coq/gen/GenGlue.v" % ", ".join(getattr(chk, "_gen_targets", [])))
    if isinstance(chk.assumptions, list) and note not in chk.assumptions:
        chk.assumptions.append(note)
    if not pend:
        return
    concrete = [p for p in chk.violations if _concrete(p)]
    for t, detail in pend:
        if concrete:
            # the property's own stages produced the failing input; keep the obligation failure as context
            chk.sample(dict(gen_bridge_broken=t, error=detail["error"][-400:], concrete_input_in=concrete[0]), cap=12)
        else:
            chk.violation("broken-obligation", f"gen-bridge:{t}", detail, no_input=True)
