"""End-to-end retry scenarios on the real cargo-nextest binary with the retry count forced from the
command line (`--retries N`), from the environment (`NEXTEST_RETRIES=N`) or both, crossed with
configured retry policies that have delays (profile-level fixed / exponential with max-delay and
jitter, default-profile policies, per-test override policies).  Used by C07 ("a --retries value given
on the command line or in NEXTEST_RETRIES replaces every test's policy, delays included") and C06
("the command-line or environment value where one exists").

The oracle is written from the property text and nextest's documented resolution order
(site/src/docs/configuration/index.md "Hierarchical configuration": command line, then environment,
then per-test overrides, then the selected profile, then the default profile) and uses only the
scenario, the puppet's own log (start / end time of every test process, CLOCK_MONOTONIC) and -- as a
secondary witness -- the event tap.  No model is involved.

  attempts made = min(first passing attempt, N + 1), N = forced value if any, else the count of the
                  test's own policy;
  forced:     NO delay between attempts: start(k+1) - end(k) < (smallest delay the test's own policy
              could have produced) - MARGIN.  Configured delays of forced scenarios are >= 1.5 s, so
              the threshold is >= 1 s while an undelayed retry takes a few tens of milliseconds;
  not forced: start(k+1) - end(k) >= configured delay (half of it with jitter), never sooner.

Second family (C06 only): the two other per-test settings with a command-line and an environment
source, success-output / failure-output (`--success-output`, `--failure-output`,
NEXTEST_SUCCESS_OUTPUT, NEXTEST_FAILURE_OUTPUT). Every test prints a unique marker; the
configuration (selected profile, default profile, per-test overrides) says one thing, the command
line / environment the opposite; the marker must (not) appear in nextest's stderr as the
command-line / environment value dictates (command line before environment), and as the
configuration dictates for the setting that is not forced.
"""
import os, threading
import vlib, e2e, e2e_general

MARGIN = 0.5          # seconds; see the module comment
EARLY = 0.005         # tolerance of the "not sooner" comparison
BINS = e2e_general.BINS


# ---------------------------------------------------------------- policies

def pol(kind, count, delay_ms, jitter=False, max_delay_ms=None):
    return dict(kind=kind, count=count, delay_ms=delay_ms, jitter=jitter, max_delay_ms=max_delay_ms)


def policy_toml(p):
    if p["delay_ms"] == 0 and p["kind"] == "fixed" and not p["jitter"]:
        return str(p["count"])
    parts = [f'backoff = "{"fixed" if p["kind"] == "fixed" else "exponential"}"', f'count = {p["count"]}',
             f'delay = "{p["delay_ms"]}ms"']
    if p["jitter"]:
        parts.append("jitter = true")
    if p.get("max_delay_ms") is not None:
        parts.append(f'max-delay = "{p["max_delay_ms"]}ms"')
    return "{ " + ", ".join(parts) + " }"


def doc_delay(p, k):
    """documented delay (seconds, before jitter) before retry k (k = 0 for the first retry)"""
    d = p["delay_ms"]
    if p["kind"] == "exp":
        d = d * 2 ** k
        if p.get("max_delay_ms") is not None:
            d = min(d, p["max_delay_ms"])
    return d / 1000.0


def least_delay(p, k):
    d = doc_delay(p, k)
    return d / 2 if p["jitter"] else d


# ---------------------------------------------------------------- scenarios

def test(bin_, name, fails, sleep=0.02):
    """a test that fails `fails` times and then passes (None: never passes)"""
    return dict(bin=bin_, name=name, fails=fails, sleep=sleep)


def scen(name, tests, selected=None, default=None, ov_selected=(), ov_default=(), cli=None, env=None,
         threads=4, profile="ci"):
    """selected / default: profile-level policy of the selected / the default profile (or None);
    ov_*: [(test name, policy)] per-test overrides of the selected / the default profile"""
    return dict(name=name, tests=tests, selected=selected, default=default, ov_selected=list(ov_selected),
                ov_default=list(ov_default), cli=cli, env=env, threads=threads, profile=profile)


def directed():
    """the fixed scenarios every run includes (quick tier too)"""
    out = []
    fixed = pol("fixed", 3, 1500)
    fixed_j = pol("fixed", 3, 3000, jitter=True)
    expo = pol("exp", 3, 1500, max_delay_ms=2500)
    expo_j = pol("exp", 4, 3000, jitter=True, max_delay_ms=5000)
    # (1) mutation M6's shape: --retries N x the test's own *fixed* policy with a delay x a failing
    # first attempt; plus a never-passing test (N + 1 attempts, not count + 1) and one that would
    # need the profile's count to pass
    out.append(scen("cli-over-fixed-profile",
                    [test("alpha::t1", "r1_flaky", 1), test("alpha::t2", "r1_never", None),
                     test("beta::t1", "r1_third", 3), test("beta::t2", "r1_pass", 0)],
                    selected=fixed, cli=2))
    # (2) the same through the environment
    out.append(scen("env-over-fixed-profile",
                    [test("alpha::t1", "r2_flaky", 1), test("beta::t1", "r2_never", None)],
                    selected=fixed_j, env=1))
    # (3) per-test override policies (fixed with jitter, exponential with a cap), no profile policy
    out.append(scen("cli-over-overrides",
                    [test("alpha::t1", "r3_fix", 1), test("alpha::t2", "r3_exp", 2), test("beta::t1", "r3_plain", 1)],
                    ov_selected=[("r3_fix", fixed_j)], ov_default=[("r3_exp", expo), ("r3_fix", pol("fixed", 0, 0))],
                    cli=3))
    # (4) exponential with delay + max-delay + jitter at profile level, forced from the environment
    out.append(scen("env-over-exponential-profile",
                    [test("beta::t2", "r4_flaky2", 2), test("alpha::t1", "r4_never", None)],
                    default=expo_j, env=2))
    # (5) both given: the command line wins over the environment (clap: `env` is read only when the
    # argument is absent; documented order: command line, then environment)
    out.append(scen("cli-beats-env",
                    [test("alpha::t1", "r5_never", None), test("beta::t1", "r5_flaky", 1)],
                    selected=fixed, ov_selected=[("r5_flaky", expo)], cli=1, env=4))
    # (6) --retries 0 switches retries off
    out.append(scen("cli-zero", [test("alpha::t2", "r6_never", None)], selected=fixed, cli=0))
    # (7) control, nothing forced: the configured delays are waited out (never sooner)
    out.append(scen("unforced-control",
                    [test("alpha::t1", "r7_fix", 1), test("beta::t1", "r7_exp", 2), test("beta::t2", "r7_dflt", 1)],
                    selected=pol("fixed", 2, 800), default=pol("fixed", 5, 1500),
                    ov_selected=[("r7_exp", pol("exp", 2, 800, max_delay_ms=1000))],
                    ov_default=[("r7_exp", pol("fixed", 4, 0)), ("r7_dflt", pol("fixed", 1, 900, jitter=True))]))
    return out


def gen(r, idx):
    """a seeded scenario: mostly forced (those cost no time), sometimes a control"""
    forced = r.random() < 0.8

    def rp():
        kind = r.choice(["fixed", "exp"])
        count = r.choice([1, 2, 3, 4])
        jit = r.random() < 0.35
        if forced:
            d = r.choice([3000, 4000]) if jit else r.choice([1500, 2000, 2500])
        else:
            d = 1600 if jit else 800
        mx = None
        if kind == "exp" and r.random() < 0.6:
            mx = d + r.choice([0, 500, 1500])
        return pol(kind, count if forced else min(count, 2), d, jit, mx)

    tests = []
    for t in range(r.choice([2, 3, 4, 5])):
        tests.append(test(r.choice(BINS), f"g{idx}_{t}", r.choice([0, 1, 1, 2, 3, None] if forced else [0, 1, 1, None])))
    names = [t["name"] for t in tests]
    sc = scen(f"gen{idx}", tests,
              selected=rp() if r.random() < 0.6 else None, default=rp() if r.random() < 0.5 else None,
              ov_selected=[(n, rp()) for n in names if r.random() < 0.3],
              ov_default=[(n, rp()) for n in names if r.random() < 0.3],
              threads=r.choice([1, 2, 4]), profile=r.choice(["ci", "ci", "default"]))
    if sc["profile"] == "default":
        # the default profile is the selected one: one profile-level policy, one override list
        sc["default"] = sc["selected"] or sc["default"]
        sc["selected"] = None
        sc["ov_default"] = sc["ov_selected"] + [o for o in sc["ov_default"]
                                                if o[0] not in {n for n, _ in sc["ov_selected"]}]
        sc["ov_selected"] = []
    if forced:
        how = r.choice(["cli", "cli", "env", "env", "both"])
        if how in ("cli", "both"):
            sc["cli"] = r.choice([0, 1, 2, 3])
        if how in ("env", "both"):
            sc["env"] = r.choice([0, 1, 2, 3, 5])
    return sc


# ---------------------------------------------------------------- running

def config_toml(sc):
    lines = ["[profile.default]", "fail-fast = false", 'slow-timeout = { period = "60s" }',
             'leak-timeout = "100ms"', f'test-threads = {sc["threads"]}']
    if sc["default"] is not None:
        lines.append("retries = " + policy_toml(sc["default"]))
    for name, p in sc["ov_default"]:
        lines += ["[[profile.default.overrides]]", f"filter = 'test(={name})'", "retries = " + policy_toml(p)]
    if sc["profile"] != "default":
        lines += ["", f"[profile.{sc['profile']}]"]
        if sc["selected"] is not None:
            lines.append("retries = " + policy_toml(sc["selected"]))
        for name, p in sc["ov_selected"]:
            lines += [f"[[profile.{sc['profile']}.overrides]]", f"filter = 'test(={name})'",
                      "retries = " + policy_toml(p)]
    return "\n".join(lines) + "\n"


def puppet_scenario(sc):
    bins = {}
    for t in sc["tests"]:
        if t["fails"] is None:
            atts = [{"sleep": t["sleep"], "exit": 1}]
        else:
            atts = [{"sleep": t["sleep"], "exit": 1}] * t["fails"] + [{"sleep": t["sleep"], "exit": 0}]
        bins.setdefault(t["bin"], {"tests": {}})["tests"][t["name"]] = {"ignored": False, "attempts": atts}
    return {"bins": bins}


def run(rig, sc, timeout=90):
    args = ["--profile", sc["profile"]]
    if sc["cli"] is not None:
        args += ["--retries", str(sc["cli"])]
    env = {"NEXTEST_RETRIES": str(sc["env"])} if sc["env"] is not None else None
    return rig.run(puppet_scenario(sc), config_toml(sc), args=args, env_extra=env, timeout=timeout)


# ---------------------------------------------------------------- oracle (property text only)

def own_policy(sc, name):
    """the test's own policy by the documented order: first matching override of the selected
    profile, then of the default profile, then the selected profile's value, then the default
    profile's, then the built-in `retries = 0`"""
    for lst in (sc["ov_selected"], sc["ov_default"]):
        for n, p in lst:
            if n == name:
                return p, "override"
    if sc["profile"] != "default" and sc["selected"] is not None:
        return sc["selected"], "profile"
    if sc["default"] is not None:
        return sc["default"], "default profile"
    return pol("fixed", 0, 0), "built-in"


def forced_value(sc):
    """command line, then environment"""
    if sc["cli"] is not None:
        return sc["cli"], "--retries"
    if sc["env"] is not None:
        return sc["env"], "NEXTEST_RETRIES"
    return None, None


def oracle(sc, res):
    w = e2e_general.basic_failures(res)
    if w:
        return w
    inv = e2e_general.invocations(res)
    tap = e2e_general.tap_by_test(res)
    forced, how = forced_value(sc)
    all_pass = True
    for t in sc["tests"]:
        key = (t["bin"], t["name"])
        own, src = own_policy(sc, t["name"])
        n = forced if forced is not None else own["count"]
        first_pass = None if t["fails"] is None else t["fails"] + 1
        want = n + 1 if first_pass is None else min(first_pass, n + 1)
        if first_pass is None or first_pass > n + 1:
            all_pass = False
        lst = sorted(inv.get(key, []), key=lambda i: i["start"])
        nums = [i["attempt"] for i in lst]
        what = (f"{how} {forced} (the test's own policy, from the {src}: {policy_toml(own)})" if forced is not None
                else f"its policy from the {src}: {policy_toml(own)}")
        if nums != list(range(1, want + 1)):
            return (f"{t['name']} (fails {t['fails']} time(s) before passing): processes were started for attempts "
                    f"{nums}; with {what} the documented attempts are 1..{want} = min(first passing attempt, N+1)")
        for k, (a, b) in enumerate(zip(lst, lst[1:])):
            if a["end"] is None:
                return f"{t['name']}: attempt {a['attempt']} left no end record"
            gap = b["start"] - a["end"]
            if forced is not None:
                # delays included: the forced policy has no delay at all
                floor = min(least_delay(own, j) for j in range(max(own["count"], k + 1)))
                if floor >= 0.8 and gap >= floor - MARGIN:
                    return (f"{t['name']}: attempt {b['attempt']} started {1000 * gap:.0f} ms after attempt "
                            f"{a['attempt']} ended although {how} {forced} replaces the test's policy, delays "
                            f"included (its own policy {policy_toml(own)} from the {src} would wait at least "
                            f"{1000 * floor:.0f} ms)")
            else:
                d = least_delay(own, k)
                if gap < d - EARLY:
                    return (f"{t['name']}: attempt {b['attempt']} started {1000 * gap:.0f} ms after attempt "
                            f"{a['attempt']} ended, sooner than the configured delay ({policy_toml(own)} from the "
                            f"{src}: at least {1000 * d:.0f} ms before retry {k + 1})")
        # what nextest itself announced (secondary witness)
        evs = tap.get(key, [])
        for e in evs:
            if e["kind"] == "TestAttemptFailedWillRetry" and forced is not None and e.get("delay_ns", 0) != 0:
                return (f"{t['name']}: nextest announced a delay of {e['delay_ns']} ns before the next attempt "
                        f"although {how} {forced} replaces the test's policy, delays included")
            if e["kind"] == "TestFinished":
                tot = {s.get("total_attempts") for s in e.get("statuses", [])}
                if tot != {n + 1}:
                    return f"{t['name']}: reported total attempts {sorted(tot)}, documented N + 1 = {n + 1} with {what}"
    want_rc = 0 if all_pass else 100
    if res["rc"] != want_rc:
        return f"exit status {res['rc']}, expected {want_rc}"
    return None


# ---------------------------------------------------------------- success-output / failure-output

BUILTIN_DISPLAY = {"success-output": "never", "failure-output": "immediate"}   # default-config.toml


def otest(bin_, name, passes, flaky=False):
    """flaky: the first attempt fails (printing marker_first), the second passes (printing marker); the run then
    has retries = 1 and the failed attempt's output follows failure-output like any failure's"""
    d = dict(bin=bin_, name=name, passes=passes, marker=f"MARKER<{name.upper()}:{'ok' if passes else 'bad'}>")
    if flaky:
        d.update(flaky=True, passes=True, marker_first=f"MARKER<{name.upper()}:first-attempt-bad>")
    return d


def oscen(name, tests, selected=None, default=None, ov_selected=(), ov_default=(), cli=None, env=None):
    """selected / default: {setting: value} at profile level; ov_*: [(test name, {setting: value})];
    cli / env: {setting: value} forced from the command line / the environment"""
    return dict(kind="output", name=name, tests=tests, selected=selected or {}, default=default or {},
                ov_selected=list(ov_selected), ov_default=list(ov_default), cli=cli or {}, env=env or {},
                profile="ci", threads=2)


def directed_output():
    S, F = "success-output", "failure-output"
    out = []
    # the configuration shows everything, the command line / the environment nothing
    out.append(oscen("output-forced-never",
                     [otest("alpha::t1", "o1_fail", False), otest("alpha::t2", "o1_fail_ov", False),
                      otest("beta::t1", "o1_pass", True), otest("beta::t2", "o1_pass_ov", True)],
                     selected={F: "immediate", S: "immediate"}, default={F: "immediate-final"},
                     ov_selected=[("o1_fail_ov", {F: "immediate-final"})], ov_default=[("o1_pass_ov", {S: "final"})],
                     cli={F: "never"}, env={S: "never"}))
    # the converse: the configuration hides everything, the command line / the environment shows it
    out.append(oscen("output-forced-immediate",
                     [otest("alpha::t1", "o2_fail", False), otest("alpha::t2", "o2_fail_ov", False),
                      otest("beta::t1", "o2_pass", True), otest("beta::t2", "o2_pass_ov", True)],
                     selected={F: "never"}, default={S: "never", F: "never"},
                     ov_selected=[("o2_pass_ov", {S: "never"})], ov_default=[("o2_fail_ov", {F: "never"})],
                     cli={S: "immediate"}, env={F: "immediate"}))
    # both sources for failure-output (the command line wins); success-output is not forced and
    # follows the configuration test by test (override, selected profile)
    out.append(oscen("output-cli-beats-env",
                     [otest("alpha::t1", "o3_fail", False), otest("beta::t1", "o3_pass_shown", True),
                      otest("beta::t2", "o3_pass_hidden", True)],
                     selected={F: "immediate", S: "never"}, ov_default=[("o3_pass_shown", {S: "immediate"})],
                     cli={F: "never"}, env={F: "immediate-final"}))
    # a failed attempt that is retried: its output follows failure-output from the command line / the
    # environment too (the configured values are decoys), the passing attempt's follows success-output
    out.append(oscen("output-retried-attempt-forced-never",
                     [otest("alpha::t1", "o4_flaky", True, flaky=True), otest("alpha::t2", "o4_flaky_ov", True, flaky=True),
                      otest("beta::t1", "o4_pass", True)],
                     selected={F: "immediate", S: "never"}, ov_selected=[("o4_flaky_ov", {F: "immediate-final"})],
                     cli={F: "never"}))
    out.append(oscen("output-retried-attempt-forced-immediate",
                     [otest("alpha::t1", "o5_flaky", True, flaky=True), otest("beta::t1", "o5_flaky_ov", True, flaky=True)],
                     selected={F: "never", S: "never"}, ov_selected=[("o5_flaky_ov", {F: "never"})],
                     env={F: "immediate"}))
    return out


def config_toml_output(sc):
    kv = lambda d: [f'{k} = "{v}"' for k, v in d.items()]
    retries = 1 if any(t.get("flaky") for t in sc["tests"]) else 0
    lines = ["[profile.default]", "fail-fast = false", f"retries = {retries}", f'test-threads = {sc["threads"]}'] + kv(sc["default"])
    for name, d in sc["ov_default"]:
        lines += ["[[profile.default.overrides]]", f"filter = 'test(={name})'"] + kv(d)
    lines += ["", f"[profile.{sc['profile']}]"] + kv(sc["selected"])
    for name, d in sc["ov_selected"]:
        lines += [f"[[profile.{sc['profile']}.overrides]]", f"filter = 'test(={name})'"] + kv(d)
    return "\n".join(lines) + "\n"


def run_output(rig, sc, timeout=60):
    bins = {}
    for t in sc["tests"]:
        beh = {"stdout": {"text": t["marker"] + "\n"}, "sleep": 0.02, "exit": 0 if t["passes"] else 1}
        atts = [beh]
        if t.get("flaky"):
            atts = [{"stdout": {"text": t["marker_first"] + "\n"}, "sleep": 0.02, "exit": 1}, beh]
        bins.setdefault(t["bin"], {"tests": {}})["tests"][t["name"]] = {"ignored": False, "attempts": atts}
    args = ["--profile", sc["profile"]]
    for k, v in sc["cli"].items():
        args += ["--" + k, v]
    env = {"NEXTEST_" + k.upper().replace("-", "_"): v for k, v in sc["env"].items()}
    return rig.run({"bins": bins}, config_toml_output(sc), args=args, env_extra=env or None, timeout=timeout)


def oracle_output(sc, res):
    w = e2e_general.basic_failures(res)
    if w:
        return w
    inv = e2e_general.invocations(res)
    def resolve(t, setting):
        if setting in sc["cli"]:
            return sc["cli"][setting], "--" + setting
        if setting in sc["env"]:
            return sc["env"][setting], "NEXTEST_" + setting.upper().replace("-", "_")
        for lst, what in ((sc["ov_selected"], "override"), (sc["ov_default"], "default-profile override")):
            for n, d in lst:
                if n == t["name"] and setting in d:
                    return d[setting], what
        if setting in sc["selected"]:
            return sc["selected"][setting], "profile"
        if setting in sc["default"]:
            return sc["default"][setting], "default profile"
        return BUILTIN_DISPLAY[setting], "built-in default"
    for t in sc["tests"]:
        if t.get("flaky"):
            if len(inv.get((t["bin"], t["name"]), [])) != 2:
                return f"{t['name']}: expected two test processes (fail, then pass), the puppet log has {len(inv.get((t['bin'], t['name']), []))}"
            val, src = resolve(t, "failure-output")
            shown = t["marker_first"] in res["stderr"]
            if shown != (val != "never"):
                return (f"{t['name']}: the output of its failed first attempt is {'shown' if shown else 'not shown'} by nextest "
                        f"although failure-output = {val} (from {src})")
        elif len(inv.get((t["bin"], t["name"]), [])) != 1:
            return f"{t['name']}: expected exactly one test process, the puppet log has {len(inv.get((t['bin'], t['name']), []))}"
        setting = "success-output" if t["passes"] else "failure-output"
        # documented order: command line, environment, first matching override (selected profile's, then
        # the default profile's), selected profile, default profile, built-in default
        if setting in sc["cli"]:
            val, src = sc["cli"][setting], "--" + setting
        elif setting in sc["env"]:
            val, src = sc["env"][setting], "NEXTEST_" + setting.upper().replace("-", "_")
        else:
            val = None
            for lst, what in ((sc["ov_selected"], "override"), (sc["ov_default"], "default-profile override")):
                for n, d in lst:
                    if val is None and n == t["name"] and setting in d:
                        val, src = d[setting], what
            if val is None and setting in sc["selected"]:
                val, src = sc["selected"][setting], "profile"
            if val is None and setting in sc["default"]:
                val, src = sc["default"][setting], "default profile"
            if val is None:
                val, src = BUILTIN_DISPLAY[setting], "built-in default"
        shown = t["marker"] in res["stderr"]
        if shown != (val != "never"):
            return (f"{t['name']} ({'passes' if t['passes'] else 'fails'}): its output is "
                    f"{'shown' if shown else 'not shown'} by nextest although {setting} = {val} (from {src})")
    want_rc = 0 if all(t["passes"] for t in sc["tests"]) else 100
    if res["rc"] != want_rc:
        return f"exit status {res['rc']}, expected {want_rc}"
    return None


# ---------------------------------------------------------------- the stage

_rig = [None]


def get_rig():
    if _rig[0] is None:
        _rig[0] = e2e.Rig()
    return _rig[0]


def stage(chk, prop, tier, seed, n_quick=4, n_thorough=40, par=4, only=None):
    """run the directed + seeded scenarios; report at most one violation (name oracle-e2e-forced:<prop>)"""
    rig = get_rig()
    r = vlib.rng_for(seed, "e2e-retries")
    scs = directed() + [gen(r, i) for i in range(n_thorough if tier == "thorough" else n_quick)]
    if prop == "C06":
        scs += directed_output()
    if only is not None:
        scs = [only]
    results = [None] * len(scs)
    idx = list(range(len(scs)))
    lock = threading.Lock()

    def worker():
        while True:
            with lock:
                if not idx:
                    return
                i = idx.pop(0)
            results[i] = (run_output if scs[i].get("kind") == "output" else run)(rig, scs[i])

    ths = [threading.Thread(target=worker) for _ in range(par)]
    [t.start() for t in ths]
    [t.join() for t in ths]
    bad = None
    for sc, res in zip(scs, results):
        if sc.get("kind") == "output":
            chk.count("e2e_output_runs")
            chk.count("e2e_output_tests", len(sc["tests"]))
            why = oracle_output(sc, res)
            if why and bad is None:
                bad = (sc, res, why)
            rig.cleanup(res)
            continue
        chk.count("e2e_forced_runs")
        f, how = forced_value(sc)
        chk.count("e2e_forced_by=" + ("none" if f is None else "both" if sc["env"] is not None and sc["cli"] is not None
                                      else how))
        for t in sc["tests"]:
            chk.count("e2e_forced_tests")
            own, src = own_policy(sc, t["name"])
            chk.count(f"e2e_own_policy={src}:{own['kind']}{'+jitter' if own['jitter'] else ''}"
                      f"{'+delay' if own['delay_ms'] else ''}")
        why = oracle(sc, res)
        if why and bad is None:
            bad = (sc, res, why)
        rig.cleanup(res)
    if bad:
        sc, res, why = bad
        chk.violation("counterexample", "oracle-e2e-forced:" + prop,
                      dict(clause=why, input=dict(forced_scenario=sc),
                           config=(config_toml_output if sc.get("kind") == "output" else config_toml)(sc),
                           args=res["cmd"][9:],
                           env=({"NEXTEST_" + k.upper().replace("-", "_"): v for k, v in sc["env"].items()}
                                if sc.get("kind") == "output" else
                                {"NEXTEST_RETRIES": str(sc["env"])} if sc["env"] is not None else {}),
                           exit_status=res["rc"], stderr_tail=res["stderr"][-1500:],
                           tap=[{k: v for k, v in e.items() if k not in ("stats",)} for e in res["tap"]][:120],
                           puppet_log=[x for x in res["log"] if x.get("ev") in ("start", "end")][:120]))
    chk.sample(dict(forced_scenario={k: v for k, v in scs[0].items() if k != "tests"},
                    tests=[(t["name"], t["fails"]) for t in scs[0]["tests"]]))
    return bad is None, len(scs), sum(len(sc["tests"]) for sc in scs)


def replay(d):
    """re-run the scenario of a replay file; returns the oracle's verdict (None = accepted)"""
    sc = d["input"]["forced_scenario"]
    for k in ("ov_selected", "ov_default"):
        sc[k] = [tuple(x) for x in sc[k]]
    rig = get_rig()
    if sc.get("kind") == "output":
        res = run_output(rig, sc)
        why = oracle_output(sc, res)
        rig.cleanup(res)
        return why
    res = run(rig, sc)
    why = oracle(sc, res)
    rig.cleanup(res)
    return why
