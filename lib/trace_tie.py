"""corr:dispatcher-trace on real schedules (DESIGN section 5, 'Shared run model').

Real cargo-nextest runs over the scripted puppet workspace (lib/e2e.py, lib/e2e_general.py).  Hook H1b
makes DispatcherContext::handle_event append one line per event it *receives* (and one line when it
answers a start request positively) to the tap file into which hook H1 writes every event it *emits*;
both run synchronously on the dispatcher task, so the file is the step-by-step record of the real
dispatcher on a real OS schedule: received event, handshake answer, emitted events.  For every run
 (i)   the received history, annotated with the real handshake answers, is checked against the executor
       protocol -- by the Python protocol checker (props/dispatcher_common.py_wf) and by `wf_history` in
       Coq (which annotates with the model's answers); this validates the assumption `wf_history` that
       the C01 / C02 / C10 theorems quantify over, on real schedules;
 (ii)  the history is replayed through `fold dstep` (vm_compute) and the model's handshake answers and
       emitted events must equal the tap's, step by step (kinds, test / script ids, attempt numbers,
       results, reasons, running counts, statistics snapshots), and the statistics of RunFinished must
       equal the model's final statistics;
 (iii) the exit status of the real process must be the model's `run_exit` of that history (= `spec_exit`
       by C01_exit_is_spec), except where the statement does not apply (injected reporter failure).
The configuration (selected / unselected tests, total attempts, number of setup scripts, max-fail) comes
from the scenario, never from nextest's own output.  Nothing here compares messages, durations or
timestamps."""
import json, os, signal, threading, time
import vlib, e2e
import e2e_general as g
from props import dispatcher_common as dc

STATS_KEYS = ["initial_run_count", "finished_count", "setup_scripts_initial_count",
              "setup_scripts_finished_count", "setup_scripts_passed", "setup_scripts_failed",
              "setup_scripts_exec_failed", "setup_scripts_timed_out", "passed", "passed_slow", "flaky",
              "failed", "failed_slow", "timed_out", "leaky", "exec_failed", "skipped"]
REASON_OF = {"setup script failure": "SetupScriptFailure", "test failure": "TestFailure",
             "reporting error": "ReportError", "signal": "Signal", "interrupt": "Interrupt",
             "second signal": "SecondSignal", None: None}
# emitted by the reporter outside handle_event (run_started / run_finished / the info loop of `run`)
OUTSIDE = ("RunStarted", "RunFinished", "InfoStarted", "InfoResponse", "InfoFinished")
HOOK_MARK = "verif_tap_in"


def hook_present():
    p = os.path.join(vlib.REPO, "nextest-runner", "src", "runner", "dispatcher.rs")
    try:
        return HOOK_MARK in open(p, errors="replace").read()
    except OSError:
        return False


# ---------------------------------------------------------------- scenarios

def gen_scenario(r):
    """lib/e2e_general.gen_scenario plus what the trace tie wants to see more of: setup scripts, other
    shutdown signals, a second signal, stop/continue, SIGUSR1, an injected reporter failure"""
    sc = g.gen_scenario(r, allow_signal=False, allow_hang=r.random() < 0.5)
    sc["scripts"] = []
    sc["signals"] = []
    sc["tap_fail_at"] = None
    if r.random() < 0.3:
        for i in range(r.choice([1, 1, 2, 3])):
            sc["scripts"].append(dict(id=f"s{i}", sleep=r.choice([0, 0.03, 0.1]),
                                      exit=r.choice([0, 0, 0, 0, 1])))
    x = r.random()
    at = r.choice([0.03, 0.08, 0.15, 0.3])
    if x < 0.16:
        sc["signals"] = [(at, r.choice(["INT", "TERM", "HUP", "QUIT"]))]
    elif x < 0.24:
        sc["signals"] = [(at, r.choice(["INT", "TERM"])), (at + r.choice([0.02, 0.1]), r.choice(["INT", "HUP"]))]
    elif x < 0.32:
        sc["signals"] = [(at, "TSTP"), (at + 0.12, "CONT")]
        if r.random() < 0.5:
            sc["signals"].append((at + 0.2, "INT"))
    elif x < 0.38:
        sc["signals"] = [(at, "USR1")]
    elif x < 0.46:
        sc["tap_fail_at"] = r.choice([2, 3, 4, 6, 9])
    return sc


def directed():
    """fixed scenarios every stage run includes: retries under fail-fast with a slow companion (refused
    retry handshake), and a failing setup script (nothing may start)"""
    def t(b, nm, atts, exp, mode):
        return dict(bin=b, name=nm, ignored=False, attempts=atts, expect=exp, mode=mode)
    base = dict(backoff="fixed", filter=None, run_ignored="default", sigint_at=None, groups=None,
                priorities=None, scripts=[], signals=[], tap_fail_at=None)
    s1 = dict(base, tests=[t("alpha::t1", "t00_a", [{"sleep": 0.25, "exit": 1}], ["fail"], "fail"),
                           t("beta::t1", "t01_b", [{"sleep": 0.02, "exit": 1}, {"sleep": 0.02, "exit": 0}],
                             ["fail", "pass"], "flaky"),
                           t("beta::t2", "t02_c", [{"sleep": 0.02, "exit": 0}], ["pass"], "pass"),
                           t("alpha::t2", "t03_a", [{"sleep": 0.02, "exit": 0}], ["pass"], "pass")],
              retries=2, delay_ms=400, failfast="ff", threads=2, retry_only="t01_b")
    s1["tests"][3]["ignored"] = True
    s2 = dict(base, tests=[t("alpha::t1", "t00_a", [{"sleep": 0.02, "exit": 0}], ["pass"], "pass"),
                           t("beta::t1", "t01_b", [{"sleep": 0.02, "exit": 0}], ["pass"], "pass")],
              retries=0, delay_ms=0, failfast="noff", threads=2,
              scripts=[dict(id="s0", sleep=0.02, exit=0), dict(id="s1", sleep=0.02, exit=3),
                       dict(id="s2", sleep=0, exit=0)])
    s3 = dict(base, tests=[t("alpha::t1", f"t{i:02d}_a", [{"sleep": 0.3, "exit": 0}], ["pass"], "pass")
                           for i in range(5)],
              retries=0, delay_ms=0, failfast="noff", threads=2, signals=[(0.1, "TERM"), (0.2, "INT")])
    return [s1, s2, s3]


SIGNO = {"INT": signal.SIGINT, "TERM": signal.SIGTERM, "HUP": signal.SIGHUP, "QUIT": signal.SIGQUIT,
         "TSTP": signal.SIGTSTP, "CONT": signal.SIGCONT, "USR1": signal.SIGUSR1}
_seq = [0]
_seq_lock = threading.Lock()


def config(sc, profile):
    cfg = g.nextest_config(sc, profile)
    if sc["scripts"]:
        head = 'experimental = ["setup-scripts"]\n'
        tail = ""
        for s in sc["scripts"]:
            tail += f'[[profile.{profile}.scripts]]\nfilter = "all()"\nsetup = "{s["id"]}"\n'
        for s in sc["scripts"]:
            tail += (f'[script.{s["id"]}]\ncommand = ["/bin/sh", "-c", "sleep {s["sleep"]}; exit {s["exit"]}"]\n')
        cfg = head + cfg + tail
    return cfg


def run(rig, sc, timeout=60):
    with _seq_lock:
        _seq[0] += 1
        profile = f"tt{os.getpid()}x{_seq[0]}"
    t_run = [None]

    def after(dt):
        # relative to the RunStarted event (nextest's signal handler is installed by then)
        def trig(ctx):
            if t_run[0] is None:
                for e in e2e.read_jsonl(ctx["tap"]):
                    if e.get("kind") == "RunStarted" and "mono" in e:
                        t_run[0] = e["mono"]
            return t_run[0] is not None and time.monotonic() >= t_run[0] + dt
        return trig
    sigs = [(after(dt), SIGNO[nm]) for dt, nm in sc["signals"]]
    res = rig.run(g.puppet_scenario(sc), config(sc, profile), args=g.cli_args(sc, profile), signals=sigs,
                  timeout=timeout, tap_fail_at=sc.get("tap_fail_at"), env_extra=g.env_for(sc))
    jd = os.path.join(e2e.PUPPET, "target", "nextest", profile)
    try:
        import shutil
        shutil.rmtree(jd, ignore_errors=True)
    except OSError:
        pass
    return res


# ---------------------------------------------------------------- the configuration, from the scenario

def case_cfg(sc):
    tests = sc["tests"]
    index = {(t["bin"], t["name"]): i for i, t in enumerate(tests)}
    sel_names = {(t["bin"], t["name"]) for t in g.selected(sc)}
    sel = [i for k, i in index.items() if k in sel_names]
    unsel = [i for k, i in index.items() if k not in sel_names]
    total = {}
    for i, t in enumerate(tests):
        tot = sc["retries"] + 1
        if sc.get("retry_only") and sc["retry_only"] not in t["name"]:
            tot = 1
        total[i] = tot
    nscripts = len(sc["scripts"]) if sel else 0      # a script is enabled iff its filter matches a selected test
    cfg = dict(ntests=len(tests), sel=sorted(sel), unsel=sorted(unsel), total=total, nscripts=nscripts)
    mf = {"ff": 1, "noff": None, "maxfail2": 2}[sc["failfast"]]
    return index, cfg, mf


# ---------------------------------------------------------------- tap -> history + per-step record

def res_code(r):
    k = r["kind"]
    if k == "pass":
        return [0, 0, 0]
    if k == "leak":
        return [1, 0, 0]
    if k == "fail":
        sg = r.get("signal")
        return [2, 0 if sg is None else sg + 1, int(bool(r.get("leaked")))]
    if k == "exec-fail":
        return [3, 0, 0]
    if k == "timeout":
        return [4, 0, 0]
    raise ValueError(r)


def att_code(s):
    return res_code(s["result"]) + [int(bool(s["is_slow"])), s["attempt"], s["total_attempts"]]


class TapError(Exception):
    pass


def parse(tap_all, index):
    """-> (events in EVENT SYNTAX, steps [{hs, emitted (harness dict form), raw}], outside [emitted lines
    written outside handle_event])"""
    script_ix = {}
    events, steps, outside = [], [], []

    def tid(rec):
        k = (rec["test"][0], rec["test"][1])
        if k not in index:
            raise TapError(f"event about a test the scenario does not contain: {k}")
        return index[k]

    def sidx(rec):
        if "index" in rec:
            script_ix[rec["script"]] = rec["index"]
        if rec["script"] not in script_ix:
            raise TapError(f"event about an unknown setup script {rec['script']}")
        return script_ix[rec["script"]]

    for rec in tap_all:
        if "unparsable" in rec:
            raise TapError("unparsable tap line: " + rec["unparsable"][:200])
        k = rec.get("kind")
        if rec.get("dir") == "in":
            if k == "Handshake":
                if not steps or steps[-1]["hs"] != "refused":
                    raise TapError("handshake answer without a pending start request")
                steps[-1]["hs"] = "accepted"
                continue
            hs = "none"
            if k == "SetupScriptStarted":
                ev, hs = ["ss", sidx(rec)], "refused"
            elif k == "SetupScriptSlow":
                ev = ["sl", sidx(rec), int(rec["will_terminate"])]
            elif k == "SetupScriptFinished":
                ev = ["sf", sidx(rec), res_code(rec["result"])]
            elif k == "Started":
                ev, hs = ["st", tid(rec)], "refused"
            elif k == "Slow":
                ev = ["slow", tid(rec), rec["attempt"], rec["total_attempts"], int(rec["will_terminate"])]
            elif k == "AttemptFailedWillRetry":
                ev = ["afwr", tid(rec), att_code(rec["status"])]
            elif k == "RetryStarted":
                ev, hs = ["rs", tid(rec), rec["attempt"], rec["total_attempts"]], "refused"
            elif k == "Finished":
                ev = ["fin", tid(rec), att_code(rec["status"])]
            elif k == "Skipped":
                ev = ["skip", tid(rec)]
            elif k == "Signal":
                s = rec["signal"]
                if s == "shutdown":
                    ev = ["sig", rec["event"]]
                elif s == "stop":
                    ev = ["stop"]
                elif s == "continue":
                    ev = ["cont"]
                else:
                    ev = ["infosig", int(rec["event"] == "Usr1")]
            elif k == "Input":
                ev = ["info"] if rec["input"] == "info" else ["enter"]
            elif k == "ReportCancel":
                ev = ["rc"]
            else:
                raise TapError(f"unknown received-event kind {k}")
            events.append(ev)
            steps.append(dict(hs=hs, emitted=[], raw=rec))
            continue
        if k in OUTSIDE:
            outside.append(rec)
            continue
        if not steps:
            raise TapError(f"{k} emitted before the dispatcher received any event")
        steps[-1]["emitted"].append(emitted_dict(rec, tid, sidx))
    return events, steps, outside


def stats_list(s):
    return [s[k] for k in STATS_KEYS]


def emitted_dict(rec, tid, sidx):
    """an H1 tap line in the dict form harness/src/dispatcher.rs produces (dispatcher_common.canon_emitted)"""
    k = rec["kind"]
    if k == "SetupScriptStarted":
        return dict(k=k, script=sidx(rec))
    if k == "SetupScriptSlow":
        return dict(k=k, script=sidx(rec), will_terminate=rec["will_terminate"])
    if k == "SetupScriptFinished":
        return dict(k=k, script=sidx(rec), result=res_code(rec["status"]["result"]))
    if k == "TestStarted":
        return dict(k=k, test=tid(rec), running=rec["running"], cancel=REASON_OF[rec["cancel_state"]],
                    stats=stats_list(rec["stats"]))
    if k == "TestSlow":
        # the H1 line does not carry total_attempts: 0 on both sides (see canon)
        return dict(k=k, test=tid(rec), attempt=rec["attempt"], total=0, will_terminate=rec["will_terminate"])
    if k == "TestAttemptFailedWillRetry":
        return dict(k=k, test=tid(rec), status=att_code(rec["status"]))
    if k == "TestRetryStarted":
        return dict(k=k, test=tid(rec), attempt=rec["attempt"], total=rec["total_attempts"])
    if k == "TestFinished":
        sts = [att_code(s) for s in rec["statuses"]]
        last_ok = sts[-1][0] in (0, 1)
        describe = (1 if len(sts) > 1 else 0) if last_ok else 2
        return dict(k=k, test=tid(rec), running=rec["running"], cancel=REASON_OF[rec["cancel_state"]],
                    stats=stats_list(rec["stats"]), statuses=sts, describe=describe)
    if k == "TestSkipped":
        return dict(k=k, test=tid(rec))
    if k in ("RunBeginCancel", "RunBeginKill"):
        return dict(k=k, scripts_running=rec["setup_scripts_running"], running=rec["running"],
                    reason=REASON_OF[rec["reason"]])
    if k in ("RunPaused", "RunContinued"):
        return dict(k=k, scripts_running=rec["setup_scripts_running"], running=rec["running"])
    if k == "InputEnter":
        return dict(k=k, bare=True)
    return dict(k="Other", name=k)


def canon(e):
    if e["k"] == "InputEnter" and e.get("bare"):
        return [13]
    c = dc.canon_emitted(e)
    if c[0] == 4:
        c[3] = 0          # TestSlow: total_attempts is not in the H1 line
    return c


def canon_model(c):
    c = list(c)
    if c[0] == 4:
        c[3] = 0
    if c[0] == 13:
        return [13]
    return c


# ---------------------------------------------------------------- the run-level statement as an oracle

def in_f7_class(sc):
    """some test group has selected members with different threads-required (finding F7, C08)"""
    ws = {}
    for t in g.selected(sc):
        grp = g.group_of(sc, t)
        if grp is not None:
            ws.setdefault(grp, set()).add(g.weight(sc, t))
    return any(len(v) > 1 for v in ws.values())


def oracle_complete(sc, res, a):
    """C02_complete_if_not_cancelled read off the real run: nothing announced a cancellation => every
    selected test exactly one TestStarted and one TestFinished, every unselected one exactly one
    TestSkipped, finished_count = initial_run_count = |selected|, exit status 0 iff every last attempt
    passed (4 for an empty selection).  Uses the scenario and the emitted stream only."""
    emitted = [e for s in a["steps"] for e in s["emitted"]]
    if any(e["k"] in ("RunBeginCancel", "RunBeginKill") for e in emitted) or in_f7_class(sc):
        return None
    cfg = a["case"]["cfg"]
    for t in cfg["sel"]:
        n_st = sum(1 for e in emitted if e["k"] == "TestStarted" and e["test"] == t)
        n_fin = sum(1 for e in emitted if e["k"] == "TestFinished" and e["test"] == t)
        if (n_st, n_fin) != (1, 1):
            return f"uncancelled run: selected test {t} has {n_st} TestStarted and {n_fin} TestFinished"
    for t in cfg["unsel"]:
        n_sk = sum(1 for e in emitted if e["k"] == "TestSkipped" and e["test"] == t)
        n_other = sum(1 for e in emitted if e.get("test") == t and e["k"] != "TestSkipped")
        if (n_sk, n_other) != (1, 0):
            return f"uncancelled run: unselected test {t} has {n_sk} TestSkipped and {n_other} other events"
    fin = [e for e in a["outside"] if e["kind"] == "RunFinished"]
    if fin:
        st = fin[-1]["stats"]
        if not (st["finished_count"] == st["initial_run_count"] == len(cfg["sel"])):
            return (f"uncancelled run: finished_count {st['finished_count']}, initial_run_count "
                    f"{st['initial_run_count']}, selected {len(cfg['sel'])}")
    if not any(s2 for s2 in sc["scripts"] if s2["exit"] != 0):
        lasts = [e["statuses"][-1][0] in (0, 1) for e in emitted if e["k"] == "TestFinished"]
        want = 4 if not cfg["sel"] else (0 if all(lasts) else 100)
        if res["rc"] != want:
            return f"uncancelled run: exit status {res['rc']}, expected {want} from the last attempts"
    return None


# ---------------------------------------------------------------- one run

def analyse(sc, res):
    """-> dict(case, steps, outside, problem=None | (kind, detail))"""
    index, cfg, mf = case_cfg(sc)
    try:
        events, steps, outside = parse(res["tap_all"], index)
    except TapError as ex:
        return dict(case=None, steps=[], outside=[], problem=("tap", str(ex)))
    case = dict(op="seq", kind="trace", ntests=max(cfg["ntests"], 1), nscripts=cfg["nscripts"],
                initial=len(cfg["sel"]), max_fail=mf, events=events, cfg=cfg)
    return dict(case=case, steps=steps, outside=outside, problem=None)


def judge(sc, res, a, model_steps, model_wf):
    """the three comparisons for one run; returns a list of (name, kind, detail)"""
    out = []
    case, steps = a["case"], a["steps"]
    full = [dict(panic=False, **{k: v for k, v in s.items() if k != "raw"}) for s in steps]
    # (i) executor protocol on the real answers, and wf_history in Coq
    why = dc.py_wf(case, full) if steps else None
    started = [e for e in a["outside"] if e["kind"] == "RunStarted"]
    if started and started[0].get("run_count") != len(case["cfg"]["sel"]):
        why = why or (f"initial_run_count {started[0].get('run_count')} differs from the number of selected "
                      f"tests {len(case['cfg']['sel'])}")
    coq_wf = bool(model_wf[0])
    if why:
        out.append(("protocol:wf-history", "counterexample",
                    dict(clause="the history the real dispatcher received is not one the executor protocol "
                                "(wf_history) admits: " + why, wf_history_in_coq=coq_wf)))
    elif not coq_wf:
        out.append(("protocol:wf-history", "counterexample",
                    dict(clause="wf_history (Coq, annotated with the model's handshake answers) rejects the "
                                "history the real dispatcher received", python_checker="accepts")))
    # (ii) replay through fold dstep
    for i, st in enumerate(steps):
        if i >= len(model_steps):
            break
        mo = model_steps[i]
        got = [dc.HS[st["hs"]], [canon(e) for e in st["emitted"]]]
        want = ([0, []] if mo[0] == [1] else [mo[1][0], [canon_model(c) for c in mo[2:]]])
        if got != want:
            out.append(("corr:dispatcher-trace", "broken-obligation",
                        dict(clause=f"step {i} ({json.dumps(case['events'][i])}): the real dispatcher answered / "
                                    f"emitted {got}, fold dstep gives {want}"
                                    + (" (model: Panicked)" if mo[0] == [1] else ""),
                             step=i)))
            break
    else:
        fin = [e for e in a["outside"] if e["kind"] == "RunFinished"]
        if fin and model_steps and model_steps[-1][0][0] == 0:
            want = model_steps[-1][0][6:]
            got = stats_list(fin[-1]["stats"])
            if got != want:
                out.append(("corr:dispatcher-trace", "broken-obligation",
                            dict(clause=f"RunFinished statistics {got} differ from the model's final statistics {want}")))
    # (iv) the conclusion of C02_complete_if_not_cancelled, on the real emitted stream of every run that
    # was never cancelled (outside the class of finding F7, where the scheduler premise is a theorem)
    if not why and coq_wf and not res["timed_out"] and not sc.get("tap_fail_at"):
        w = oracle_complete(sc, res, a)
        if w:
            out.append(("oracle:run-complete", "counterexample", dict(clause=w)))
    # (iii) process exit status = run_exit of the received history (default no-tests policy)
    if not sc.get("tap_fail_at") and not res["timed_out"] and not why and coq_wf:
        want = model_wf[1]
        if want != 999 and res["rc"] != want:
            out.append(("corr:run-exit-real", "broken-obligation",
                        dict(clause=f"process exit status {res['rc']}, run_exit of the received history = {want}")))
    # (iii') an injected reporter failure that fired: exit status 110 (WRITE_OUTPUT_ERROR) whatever the
    # statistics say (C01_exit_report_error about run_exit_real); when the injection point was never reached
    # the run is an ordinary one
    if sc.get("tap_fail_at") and not res["timed_out"]:
        fired = "error reporting results" in res["stderr"]
        want = 110 if fired else (model_wf[1] if (not why and coq_wf) else None)
        if want not in (None, 999) and res["rc"] != want:
            out.append(("corr:run-exit-real", "broken-obligation",
                        dict(clause=f"process exit status {res['rc']}, run_exit_real of the received history = {want} "
                                    f"(injected reporter failure fired: {fired})")))
    return out


# ---------------------------------------------------------------- the stage

def stage_trace(chk, tier, seed, n_quick=24, n_thorough=300, par=4, prop=None):
    """run generated end-to-end scenarios and tie the real dispatcher's received/emitted record to
    wf_history and fold dstep; reports at most one violation per comparison"""
    prop = prop or chk.prop
    if not hook_present():
        # the repo working tree does not have hook H1b (yet): nothing to read; not an alarm
        chk.count("trace_tie_skipped_hook_H1b_absent")
        return True
    rig = e2e.Rig()
    r = vlib.rng_for(seed, "trace-tie-" + str(prop))
    n = n_thorough if tier == "thorough" else n_quick
    scs = directed() + [gen_scenario(r) for _ in range(n)]
    results = [None] * len(scs)
    idx = list(range(len(scs)))
    lock = threading.Lock()

    def worker():
        while True:
            with lock:
                if not idx:
                    return
                i = idx.pop(0)
            results[i] = run(rig, scs[i])

    ths = [threading.Thread(target=worker) for _ in range(par)]
    [t.start() for t in ths]
    [t.join() for t in ths]
    analyses = [analyse(sc, res) for sc, res in zip(scs, results)]
    todo = [a for a in analyses if a["problem"] is None and a["case"]["events"]]
    exprs = []
    for a in todo:
        exprs.append(dc.coq_seq_expr(a["case"]))
        exprs.append("[[" + dc.coq_wf_expr(a["case"]) + "]]")    # same type as obs_run
    vals = dc.coq_eval("tracetie", exprs) if exprs else []
    for j, a in enumerate(todo):
        a["model_steps"], a["model_wf"] = vals[2 * j], vals[2 * j + 1][0][0]
    reported = set()
    ok = True
    for sc, res, a in zip(scs, results, analyses):
        chk.count("trace_tie_runs")
        problems = []
        w = g.basic_failures(res)
        if w and not sc.get("tap_fail_at"):
            problems.append(("e2e:run", "broken-obligation", dict(clause=w)))
        if a["problem"]:
            problems.append(("corr:dispatcher-trace", "broken-obligation", dict(clause="tap: " + a["problem"][1])))
        elif not a["case"]["events"]:
            if not any(l.get("dir") == "in" for l in res["tap_all"]) and a["case"]["cfg"]["ntests"]:
                problems.append(("corr:dispatcher-trace", "broken-obligation",
                                 dict(clause="hook H1b is in the source but the tap holds no received event")))
        else:
            steps, case = a["steps"], a["case"]
            chk.count("trace_tie_histories")
            chk.count("trace_tie_steps", len(steps))
            chk.count("trace_tie_emitted_events", sum(len(s["emitted"]) for s in steps))
            chk.count("trace_tie_refused_handshakes", sum(1 for s in steps if s["hs"] == "refused"))
            for ev in case["events"]:
                chk.count("trace_tie_in=" + ev[0])
            for s in steps:
                for e in s["emitted"]:
                    if e["k"] in ("RunBeginCancel", "RunBeginKill"):
                        chk.count(f"trace_tie_{e['k']}={e['reason']}")
            if any(s["hs"] == "refused" for s in steps):
                chk.count("trace_tie_runs_with_refusal")
            if not any(e["k"] in ("RunBeginCancel", "RunBeginKill") for s in steps for e in s["emitted"]):
                chk.count("trace_tie_uncancelled_runs")
            problems += judge(sc, res, a, a["model_steps"], a["model_wf"])
        for name, kind, detail in problems:
            ok = False
            if name in reported:
                continue
            reported.add(name)
            detail = dict(detail)
            detail.update(input=a["case"], scenario=sc, exit_status=res["rc"], stderr_tail=res["stderr"][-800:],
                          received=(a["case"] or {}).get("events"),
                          handshakes=[s["hs"] for s in a["steps"]],
                          emitted=[[e["k"] for e in s["emitted"]] for s in a["steps"]],
                          config=(a["case"] or {}).get("cfg"), max_fail=(a["case"] or {}).get("max_fail"))
            chk.violation(kind, name, detail)
        rig.cleanup(res)
    first = next((a for a in analyses if a["case"] and a["case"]["events"]), None)
    if first:
        chk.sample(dict(trace_tie_history=first["case"]["events"][:30],
                        handshakes=[s["hs"] for s in first["steps"]][:30],
                        emitted=[[e["k"] for e in s["emitted"]] for s in first["steps"]][:30]))
    return ok
