"""End-to-end correspondence for the unit timer model (C09, C11, C12): scenarios with one scripted
test (optionally a second bystander test), signals delivered to nextest at chosen times; the
observation (signals the test received and when, result kind, slow flag, time taken, nextest's own
exit) is compared with the closed-loop simulation of the Coq model (Model/UnitEnv.v) and checked
by oracles written directly from the property statements."""
import json, os, signal, time, threading
import vlib, e2e

IMPORTS = ["Base.Str", "Model.Clocks", "Model.UnitTimers", "Model.UnitEnv", "gen.GenPauseTable"]
SIGNO = {"INT": signal.SIGINT, "TERM": signal.SIGTERM, "HUP": signal.SIGHUP, "QUIT": signal.SIGQUIT,
         "TSTP": signal.SIGTSTP, "CONT": signal.SIGCONT, "USR1": signal.SIGUSR1}
SHUT = {"INT": "SInt", "TERM": "STerm", "HUP": "SHup", "QUIT": "SQuit"}


def ms(x, u):
    return int(round(x * u))


def nextest_config(sc, profile="default"):
    u = sc["u"]
    st = f'period = "{ms(sc["period"], u)}ms"'
    if sc.get("ta"):
        st += f', terminate-after = {sc["ta"]}'
    st += f', grace-period = "{ms(sc["grace"], u)}ms"'
    if sc.get("as_script"):
        # the subject is a setup script (same wait loops as a test); one trivial test needs it
        py = os.path.join(e2e.E2E, "puppet.py")
        return (f'experimental = ["setup-scripts"]\n[profile.{profile}]\nfail-fast = false\nretries = 0\n'
                f'[[profile.{profile}.scripts]]\nfilter = "all()"\nsetup = "subject"\n'
                f'[script.subject]\ncommand = "/usr/bin/python3 -S -E {py} --script subject"\n'
                f'slow-timeout = {{ {st} }}\nleak-timeout = "{ms(sc["leak"], u)}ms"\n')
    cfg = (f'[profile.{profile}]\nslow-timeout = {{ {st} }}\nleak-timeout = "{ms(sc["leak"], u)}ms"\n'
           f'fail-fast = false\nretries = 0\n')
    rc = sc.get("retry_companion")
    if rc:
        cfg += (f'[[profile.{profile}.overrides]]\nfilter = "test(a_retry)"\n'
                f'retries = {{ backoff = "fixed", count = 1, delay = "{ms(rc["delay"], u)}ms" }}\n')
    return cfg


def puppet_scenario(sc):
    u = sc["u"] / 1000.0
    beh = {"sleep": sc["dur"] * u, "exit": sc.get("exit", 0)}
    ot = sc["on_term"]
    if ot == "exit":
        beh["on_term"] = "die"
    elif ot == "ignore":
        beh["on_term"] = "ignore"
    else:
        beh["on_term"] = f"late:{ot[1] * u}"
        if ot[0] == "late_ok":
            beh["term_exit"] = 0   # a graceful-shutdown handler: exit status 0 some time after the signal
    if not sc.get("stops", True):
        beh["tstp"] = "ignore"
    if sc.get("child"):
        beh["child"] = {"for": (sc["dur"] + 12) * u, "hold": [], "on_term": "exit" if ot == "exit" else "ignore"}
    if sc.get("hold"):
        # a descendant keeps the test's stdout open for `hold` units after the test itself exited
        beh["child"] = {"for": (sc["dur"] + sc["hold"]) * u, "hold": ["stdout"], "on_term": "ignore"}
    if sc.get("as_script"):
        return {"scripts": {"subject": beh},
                "bins": {"alpha::t1": {"tests": {"after": {"attempts": [{"exit": 0}]}}}}}
    tests = {"subject": {"attempts": [beh]}}
    if sc.get("retry_companion"):
        # sorts before "subject" in the same binary; fails at once, then sits in its retry delay
        tests["a_retry"] = {"attempts": [{"sleep": 0, "exit": 1}, {"sleep": 0, "exit": 0}]}
    if sc.get("cancel_at") is not None:
        # a second test that fails `cancel_at` units after the start: with fail-fast the run is cancelled (no
        # signal involved) while the subject is wherever the scenario has put it by then
        tests["a_fail"] = {"attempts": [{"sleep": sc["cancel_at"] * u, "exit": 1}]}
    bins = {"alpha::t1": {"tests": tests}}
    if sc.get("bystander"):
        bins["beta::t1"] = {"tests": {"bystander": {"attempts": [
            {"sleep": sc["bystander"] * u, "exit": 0, "on_term": "die"}]}}}
    return {"bins": bins}


def pending_signals(sc):
    """signals (other than SIGTSTP / SIGCONT) sent to nextest while it has stopped itself: they stay pending until
    SIGCONT and are then handled immediately before or immediately after the continue (either order)"""
    out, stopped = [], False
    for t, name in sc["sigs"]:
        if name == "TSTP":
            stopped = True
        elif name == "CONT":
            stopped = False
        elif stopped:
            out.append((t, name))
    return out


def effective_sigs(sc):
    """[(time the signal takes effect, name)]: a signal sent to a stopped nextest takes effect at the next SIGCONT"""
    out, held = [], []
    stopped = False
    for t, name in sc["sigs"]:
        if name == "TSTP":
            if not stopped:
                out.append((t, name))
            stopped = True
        elif name == "CONT":
            if stopped:
                out.append((t, name))
                out += [(t, n) for _, n in held]
            held, stopped = [], False
        elif stopped:
            held.append((t, name))
        else:
            out.append((t, name))
    return out


def coq_case(sc, cont_first=True):
    u = sc["u"]
    cfg = (f"{{| period := {ms(sc['period'], u)}; terminate_after := "
           f"{'Some ' + str(sc['ta']) if sc.get('ta') else 'None'}; grace := {ms(sc['grace'], u)}; "
           f"leak_timeout := {ms(sc['leak'], u)} |}}")
    ot = sc["on_term"]
    react = {"exit": "OnTermExit", "ignore": "OnTermIgnore"}.get(ot) if isinstance(ot, str) else f"({'OnTermLateOk' if ot[0] == 'late_ok' else 'OnTermLate'} {ms(ot[1], u)})"
    beh = (f"{{| b_dur := {ms(sc['dur'], u)}; b_exit_ok := {vlib.coq_bool(sc.get('exit', 0) == 0)}; "
           f"b_on_term := {react}; b_hold := {ms(sc.get('hold', 0), u)}; b_stops := {vlib.coq_bool(sc.get('stops', True))} |}}")
    reqs, shuts = [], 0
    for t, name in sc["sigs"]:
        if name == "TSTP":
            r = "RStop"
        elif name == "CONT":
            r = "RContinue"
        elif name in SHUT:
            shuts += 1
            r = f"(RShutdown (Once {SHUT[name]}))" if shuts == 1 else "(RShutdown Twice)"
            if shuts > 2:
                continue
        else:
            r = "RGetInfo"
        reqs.append(f"({ms(t, u)}, {r})")
    if sc.get("cancel_at") is not None:
        # the dispatcher broadcasts OtherCancel when the companion's failure trips fail-fast
        reqs.append(f"({ms(sc['cancel_at'], u)}, ROtherCancel)")
        reqs.sort(key=lambda x: int(x[1:].split(",")[0]))
    return f"sim_report_o {vlib.coq_bool(cont_first)} pause_table {cfg} {beh} {vlib.coq_list(reqs)}"


def predict_alt(scs, tag="unitsalt"):
    """for the scenarios in which a signal is sent while nextest is stopped: the prediction for the other order
    (pending requests handled before the Continue); None for the others"""
    idx = [i for i, sc in enumerate(scs) if pending_signals(sc)]
    out = [None] * len(scs)
    if idx:
        for i, p in zip(idx, predict([scs[i] for i in idx], tag, cont_first=False)):
            out[i] = p
    return out


def predict(scs, tag="units", cont_first=True):
    vals = vlib.coq_eval(tag, IMPORTS, [coq_case(sc, cont_first) for sc in scs])
    out = []
    for v in vals:
        if v == [1]:
            out.append({"panicked": True})
            continue
        tr = v[6:]
        out.append({"panicked": False, "done": bool(v[1]), "result": ["pass", "leak", "fail", "timeout"][v[2]],
                    "slow": bool(v[3]), "time_taken": v[4], "end": v[5],
                    "trace": [(tr[i], tr[i + 1]) for i in range(0, len(tr), 2)]})
    return out


def run_real(rig, sc, timeout=40):
    """run nextest on the scenario; signals are timed relative to the subject's start record"""
    u = sc["u"] / 1000.0
    started = e2e.log_has("start", test="subject")
    t_start = [None]

    def mk_trigger(delay):
        def f(ctx):
            if t_start[0] is None:
                for r in e2e.read_jsonl(ctx["tap"]):
                    if "mono" in r and ((r.get("kind") == "TestStarted" and r["test"][1] == "subject") or
                                        (r.get("kind") == "SetupScriptStarted" and r.get("script") == "subject")):
                        t_start[0] = r["mono"]
                        break
            return t_start[0] is not None and time.monotonic() >= t_start[0] + delay
        return f

    sigs = [(mk_trigger(t * u), SIGNO[name]) for t, name in sc["sigs"]]
    # --no-tests=pass: a run cancelled before anything finished must still fail (the policy is about an empty selection)
    args = ["--fail-fast" if sc.get("cancel_at") is not None else "--no-fail-fast", "--test-threads", "4",
            "--no-tests=pass"]
    if sc.get("no_capture"):
        args.append("--no-capture")   # tests inherit stdout / stderr; timers, groups and signals as usual
    # direct_spawn: units are spawned without the double-spawn launcher (NEXTEST_DOUBLE_SPAWN=0)
    env_extra = {"NEXTEST_DOUBLE_SPAWN": "0"} if sc.get("direct_spawn") else {}
    if sc.get("env"):
        env_extra.update(sc["env"])     # extra variables in nextest's own environment
    if sc.get("message_format"):
        # a machine-readable message format: stdout and stderr of a unit are captured as one stream
        args += ["--message-format", sc["message_format"]]
        env_extra["NEXTEST_EXPERIMENTAL_LIBTEST_JSON"] = "1"
    res = rig.run(puppet_scenario(sc), nextest_config(sc), args=args,
                  signals=sigs, timeout=timeout, supervise_stop=True,
                  env_extra=env_extra or None)
    return res


def observe(sc, res):
    """distil a run into what the properties talk about (times in ms relative to the subject's start)"""
    log, tap = res["log"], res["tap"]
    st = [r for r in log if r.get("ev") == "start" and r.get("test") == "subject"]
    if not st:
        return {"started": False, "rc": res["rc"], "stderr": res["stderr"][-1500:]}
    t0, pid = st[0]["t"], st[0]["pid"]
    # time base: the TestStarted event (CLOCK_MONOTONIC from the tap), just before the spawn
    ts = [e for e in tap if e.get("kind") == "TestStarted" and e["test"][1] == "subject" and "mono" in e]
    if sc.get("as_script"):
        ts = [e for e in tap if e.get("kind") == "SetupScriptStarted" and e.get("script") == "subject" and "mono" in e]
    if ts:
        t0 = ts[0]["mono"]
    rel = lambda t: (t - t0) * 1000.0
    sig_test = [(rel(r["t"]), r["signo"]) for r in log if r.get("ev") == "sig" and r.get("test") == "subject"
                and r.get("who") == "test"]
    sig_child = [(rel(r["t"]), r["signo"]) for r in log if r.get("ev") == "sig" and r.get("test") == "subject"
                 and r.get("who") == "child"]
    ends = [r for r in log if r.get("ev") == "end" and r.get("test") == "subject"]
    fin = [e for e in tap if e.get("kind") == "TestFinished" and e["test"][1] == "subject"]
    slow_ev = [e for e in tap if e.get("kind") == "TestSlow" and e["test"][1] == "subject"]
    if sc.get("as_script"):
        sfin = [e for e in tap if e.get("kind") == "SetupScriptFinished" and e.get("script") == "subject"]
        fin = [dict(statuses=[e["status"]], t_ns=e["t_ns"], **({"mono": e["mono"]} if "mono" in e else {})) for e in sfin]
        slow_ev = [e for e in tap if e.get("kind") == "SetupScriptSlow" and e.get("script") == "subject"]
    runfin = [e for e in tap if e.get("kind") == "RunFinished"]
    after_started = any(r.get("ev") == "start" and r.get("test") == "after" for r in log)
    procs = {}
    for r in log:
        if r.get("ev") in ("start", "end", "sig") and r.get("who", "test") == "test" and r.get("test") is not None:
            key = f'{r["test"]}#{r.get("attempt", 1)}'
            d = procs.setdefault(key, {"start": None, "end": None, "sigs": []})
            if r["ev"] == "start":
                d["start"] = rel(r["t"])
            elif r["ev"] == "end":
                d["end"] = rel(r["t"])
            else:
                d["sigs"].append((rel(r["t"]), r["signo"]))
    o = {"started": True, "rc": res["rc"], "pid": pid, "after_started": after_started, "sig_test": sig_test, "sig_child": sig_child,
         "nextest_stops": [(rel(t), kind, sg) for t, kind, sg in (res.get("stops") or [])],
         "supervised": res.get("stops") is not None, "procs": procs,
         "tap_order": [e["kind"] for e in tap if e.get("kind") in ("RunPaused", "RunContinued", "RunBeginCancel",
                                                                      "RunBeginKill")],
         "end_how": ends[0]["how"] if ends else None, "end_t": rel(ends[0]["t"]) if ends else None,
         "slow_events": [(e["elapsed_ns"] / 1e6, e["will_terminate"]) for e in slow_ev],
         "nextest_exit_t": rel(res["t_end"]), "sent": [(rel(t), s) for t, s in res["sent"]],
         "panic": ("panicked" in res["stderr"]) or res["rc"] == 101, "timed_out": res["timed_out"],
         "pid_alive_after": e2e.alive(pid),
         "group_alive_after": [r["pid"] for r in log if r.get("test") == "subject" and r.get("ev") in
                               ("child-start", "start") and e2e.alive(r["pid"])],
         "paused_events": [e["kind"] for e in tap if e.get("kind") in ("RunPaused", "RunContinued")],
         "cancel_events": [(e["kind"], e.get("reason")) for e in tap if e.get("kind") in ("RunBeginCancel", "RunBeginKill")],
         "info": [e for e in tap if e.get("kind") in ("InfoStarted", "InfoResponse", "InfoFinished")]}
    if fin:
        s = fin[0]["statuses"][-1]
        o.update(result=s["result"]["kind"], result_signal=s["result"].get("signal"), is_slow=s["is_slow"],
                 time_taken=s["time_taken_ns"] / 1e6, finished_t=fin[0]["t_ns"] / 1e6,
                 reported_t=rel(fin[0]["mono"]) if "mono" in fin[0] else None)
    else:
        o.update(result=None)
    if runfin:
        o["run_elapsed"] = runfin[0]["elapsed_ns"] / 1e6
    return o


CATCHABLE = {1, 2, 3, 15, 18, 20}


def signals_diff(want, got, eps, who="the test"):
    """predicted [(ms, signo)] vs received; signals predicted for the same instant may be received in either order
    (nextest sends them back to back; a process that was stopped takes its pending signals in signal-number order)"""
    if sorted(c for _, c in want) != sorted(c for _, c in got) or len(want) != len(got):
        return [f"signals received by {who}: nextest {got}, model {want}"]
    bad, i = [], 0
    while i < len(want):
        j = i + 1
        while j < len(want) and want[j][0] == want[i][0]:
            j += 1
        if sorted(c for _, c in want[i:j]) != sorted(c for _, c in got[i:j]):
            return [f"signals received by {who}: nextest {got}, model {want}"]
        for (tw, c), (tg, _) in zip(want[i:j], got[i:j]):
            if abs(tw - tg) > eps + 0.05 * tw:
                bad.append(f"signal {c} at {tg:.0f} ms, model {tw} ms")
        i = j
    return bad


def compare_any(sc, preds, obs, cmp=None):
    """the order in which nextest handles signals that became ready together (sent while it was stopped) is not
    determined: the observed run must agree completely with ONE of the predictions. Returns (diffs, index)."""
    cmp = cmp or compare
    first = None
    for i, p in enumerate(preds):
        if p is None:
            continue
        d = cmp(sc, p, obs)
        if not d:
            return [], i
        if first is None:
            first = d
    return first or [], 0


def compare(sc, pred, obs, eps=None):
    """model prediction vs observation; returns a list of discrepancies (empty = agree)"""
    u = sc["u"]
    eps = eps or 0.45 * u
    bad = []
    if pred.get("panicked"):
        return ["model predicts an internal failure"]
    if not obs.get("started"):
        return ["subject never started"]
    kind_map = {"pass": "pass", "leak": "leak", "fail": "fail", "timeout": "timeout"}
    # (see slow_free below) after a kill that ends a signal-termination, "interval elapsed" and "child
    # exited" are both ready when the running loop is re-entered; if the interval wins and the count
    # reaches terminate-after the attempt is reported as timed out instead of failed
    killed_after_signal = any(c == 9 for _, c in pred["trace"]) and any(n in SHUT for _, n in sc["sigs"]) \
        and pred["end"] >= sc["period"] * u
    if obs.get("result") != kind_map[pred["result"]] and not (
            killed_after_signal and sc.get("ta") and pred["result"] == "fail" and obs.get("result") == "timeout"):
        bad.append(f"result kind: nextest {obs.get('result')}, model {pred['result']}")
    # while a unit is being terminated the slow-timeout interval is not polled; when the loop is
    # re-entered after the kill, "interval elapsed" and "child exited" are both ready and
    # tokio::select! picks either: both outcomes are accepted there
    killed_while_terminating = any(c == 9 for _, c in pred["trace"]) and pred["end"] >= sc["period"] * u
    slow_free = killed_while_terminating and any(n in SHUT for _, n in sc["sigs"])
    if obs.get("is_slow") is not None and obs["is_slow"] != pred["slow"] and not slow_free:
        bad.append(f"is_slow: nextest {obs['is_slow']}, model {pred['slow']}")
    want = [(t, c) for t, c in pred["trace"] if c in CATCHABLE]
    got = obs["sig_test"]
    bad += signals_diff(want, got, eps)
    wslow = [c == 101 for _, c in pred["trace"] if c in (100, 101)]
    if wslow != [w for _, w in obs["slow_events"]] and not slow_free:
        bad.append(f"slow events (will_terminate flags): nextest {obs['slow_events']}, model {wslow}")
    if obs.get("time_taken") is not None and abs(obs["time_taken"] - pred["time_taken"]) > eps + 0.05 * pred["time_taken"] + 40:
        bad.append(f"time_taken: nextest {obs['time_taken']:.0f} ms, model {pred['time_taken']} ms")
    return bad


# ---------------------------------------------------------------- oracles (no model involved)

def stopped_intervals(sc, obs=None):
    """[(t_stop, t_cont)] in ms: from the times the SIGTSTP / SIGCONT signals were actually sent when the run
    recorded them (the trigger thread may be late under load), else from the scenario's schedule"""
    u = sc["u"]
    out, cur = [], None
    sent = (obs or {}).get("sent")
    if sent and len(sent) <= len(sc["sigs"]):
        evs = [(t, {int(signal.SIGTSTP): "TSTP", int(signal.SIGCONT): "CONT"}.get(int(sg))) for t, sg in sent]
    else:
        evs = [(t * u, name) for t, name in sc["sigs"]]
    for t, name in evs:
        if name == "TSTP" and cur is None:
            cur = t
        elif name == "CONT" and cur is not None:
            out.append((cur, t))
            cur = None
    return out


def unstopped(t, stops):
    """running time accumulated by real time t"""
    return t - sum(max(0.0, min(t, b) - a) for a, b in stops if a < t)


def wall_when(t_from, need, stops):
    """real time at which `need` ms of unstopped time have passed since t_from"""
    t = t_from
    for a, b in sorted(stops):
        if b <= t:
            continue
        a2 = max(a, t)
        if a2 - t >= need:
            break
        need -= a2 - t
        t = b
    return t + need


def oracle_common(sc, obs):
    if obs.get("panic"):
        return "nextest failed internally (panic)"
    if obs.get("timed_out"):
        return "nextest did not exit (hung)"
    if not obs.get("started"):
        return None
    if obs.get("pid_alive_after"):
        return f"test process {obs['pid']} still alive after nextest exited"
    if sc.get("as_script") and obs.get("result") is not None:
        ok = obs["result"] in ("pass", "leak")
        if not ok and (obs.get("after_started") or obs["rc"] != 105):
            return (f"setup script result {obs['result']}: exit status {obs['rc']} (expected 105), "
                    f"test started afterwards: {obs.get('after_started')}")
        if ok and not any(n in SHUT for _, n in sc["sigs"]) and (not obs.get("after_started") or obs["rc"] != 0):
            return f"setup script passed but exit status is {obs['rc']} / the test did not run"
    # a group whose leader ignored the terminating signal is killed with SIGKILL as a whole
    if obs.get("group_alive_after") and sc["on_term"] == "ignore" and obs.get("end_how") is None and (
            obs.get("result") == "timeout" or any(k == "RunBeginCancel" for k, _ in obs.get("cancel_events", []))):
        return (f"processes {obs['group_alive_after']} of the test's process group are still alive after nextest "
                f"killed the group and exited")
    return None


def oracle_C09(sc, obs):
    """slow flag, no signal before the deadline, TERM then KILL at grace, fast tests untouched"""
    w = oracle_common(sc, obs)
    if w or not obs.get("started"):
        return w
    u = sc["u"]
    eps = 0.45 * u
    stops = stopped_intervals(sc, obs)
    if any(n in SHUT for _, n in sc["sigs"]):
        return None  # shutdown signals are C11's business
    period, ta, grace, dur = sc["period"] * u, sc.get("ta"), sc["grace"] * u, sc["dur"] * u
    term_like = [(t, s) for t, s in obs["sig_test"] if s in (1, 2, 3, 15)]
    deadline = ta * period if ta else None
    if deadline is None or dur < deadline - eps:
        if term_like:
            return f"test finishing before its deadline (or with no terminate-after) was signalled: {term_like}"
        if obs.get("result") == "timeout":
            return "reported timeout although the test finished before its deadline"
    for t, s in term_like:
        if unstopped(t, stops) < deadline - eps:
            return f"signal {s} at {t:.0f} ms of which {unstopped(t, stops):.0f} ms running, deadline {deadline:.0f} ms"
    if deadline is not None and dur > deadline + eps:
        if grace > 0 and term_like and unstopped(term_like[0][0], stops) > deadline + eps + 0.05 * deadline:
            return (f"terminated late: first signal after {unstopped(term_like[0][0], stops):.0f} ms of running time, "
                    f"the deadline (terminate-after x period) is {deadline:.0f} ms")
        if obs.get("result") != "timeout":
            return f"test ran past its deadline but result is {obs.get('result')}"
        if grace > 0 and not any(s == 15 for _, s in term_like):
            return "deadline passed with a non-zero grace period but no SIGTERM reached the test"
        if grace == 0 and term_like:
            return f"grace period is zero but the test received {term_like} instead of SIGKILL"
    # SIGKILL only when the grace period ends: a test that reacts to SIGTERM by exiting some time later, well
    # within the grace period, gets to do so (it writes its end record when it exits by itself), whatever else
    # happens in the run meanwhile
    ot = sc["on_term"]
    if deadline is not None and dur > deadline + eps and grace > 0 and isinstance(ot, tuple) \
            and ot[1] * u < grace - eps and not sc.get("hold") and obs.get("end_how") is None and not stops:
        return (f"the test exits {ot[1] * u:.0f} ms after SIGTERM, the grace period is {grace:.0f} ms, but it did not get "
                f"to exit by itself (no end record: it was killed before the grace period ended); "
                f"result {obs.get('result')}, time taken {obs.get('time_taken')}")
    if obs.get("is_slow") is not None:
        ran = min(dur, (deadline + grace) if deadline else dur)
        if dur > period + eps and not obs["is_slow"]:
            return "test ran longer than the slow-timeout period but is not marked slow"
        if ran < period - eps and obs["is_slow"]:
            return "test marked slow although it ran for less than the period"
    return None


def oracle_leak(sc, obs):
    """pipes held by a descendant for longer than the leak timeout after a clean exit: LEAK, whatever
    signals arrive while nextest is draining them"""
    u = sc["u"]
    if sc.get("hold") and sc.get("exit", 0) == 0 and not sc.get("ta"):
        first_shut = min([t for t, n in sc["sigs"] if n in SHUT], default=None)
        if first_shut is None or first_shut > sc["dur"] + 0.45:
            want = "leak" if sc["hold"] > sc["leak"] + 0.45 else ("pass" if sc["hold"] < sc["leak"] - 0.45 else None)
            if want and obs.get("result") != want:
                return (f"test exited 0 and a descendant held its stdout for {sc['hold'] * u:.0f} ms (leak timeout "
                        f"{sc['leak'] * u:.0f} ms): reported {obs.get('result')}, expected {want}")
    return None


def oracle_C11(sc, obs):
    w = oracle_common(sc, obs)
    if w or not obs.get("started"):
        return w
    w = oracle_leak(sc, obs)
    if w:
        return w
    u = sc["u"]
    eps = 0.45 * u
    # a signal sent while nextest has stopped itself is received by it when it is continued
    shut = [(t * u, n) for t, n in effective_sigs(sc) if n in SHUT]
    if not shut:
        return None
    stops = stopped_intervals(sc, obs)
    t1, n1 = shut[0]
    dur, grace = sc["dur"] * u, sc["grace"] * u
    if sc.get("stops", True):
        dur = wall_when(0, dur, stops)   # a stopped test does not get on with its work
    if t1 > dur - eps:
        return None  # the test was (nearly) over when the signal came (leak drain: see oracle_leak)
    signo = int(SIGNO[n1])
    got = [(t, s) for t, s in obs["sig_test"] if s in (1, 2, 3, 15)]
    period, ta = sc["period"] * u, sc.get("ta")
    deadline_wall = wall_when(0, ta * period, stops) if ta else None   # the deadline is in unstopped time
    terminating = bool(ta) and deadline_wall < t1 - eps and sc["on_term"] == "ignore"
    if terminating:
        # already being terminated for a timeout when the signal came: SIGKILL at once
        if obs["nextest_exit_t"] > t1 + 2.5 * eps + 150:
            return (f"shutdown signal at {t1:.0f} ms during a timeout grace period, nextest exited only at "
                    f"{obs['nextest_exit_t']:.0f} ms")
        if obs["nextest_exit_t"] < t1 - eps:
            return f"nextest exited at {obs['nextest_exit_t']:.0f} ms, before the signal at {t1:.0f} ms"
        return None
    if ta and deadline_wall < t1 + eps:
        return None  # too close to the timeout deadline to tell the phases apart
    if grace > 0:
        if not got or got[0][1] != signo:
            return f"nextest received SIG{n1} but the test received {got}"
        if got[0][0] < t1 - 5 or got[0][0] > t1 + eps:
            return f"SIG{n1} sent at {t1:.0f} ms reached the test at {got[0][0]:.0f} ms"
        if sc.get("child") and not any(s == signo for _, s in obs["sig_child"]):
            return f"descendant in the test's process group did not receive SIG{n1}: {obs['sig_child']}"
    else:
        if got:
            return f"grace period zero: expected SIGKILL, the test received {got}"
    if obs["rc"] == 0 and not (sc["on_term"] != "ignore" and False):
        # exit status must be non-zero unless the selected test passed
        if obs.get("result") not in ("pass", "leak"):
            return f"nextest exited 0 although the test result is {obs.get('result')}"
    # prompt exit: ignoring test => killed at grace (or at the second signal)
    if sc["on_term"] == "ignore":
        kill_at = wall_when(t1, grace, stops)
        if len(shut) > 1:
            kill_at = min(kill_at, shut[1][0])
        if obs["nextest_exit_t"] > kill_at + 2.5 * eps + 150:
            return f"nextest exited at {obs['nextest_exit_t']:.0f} ms, all units should be dead by {kill_at:.0f} ms"
        if obs["nextest_exit_t"] < kill_at - eps:
            return f"nextest exited at {obs['nextest_exit_t']:.0f} ms before the test could have been killed ({kill_at:.0f} ms)"
    # prompt exit: the test dies of the forwarded signal while a descendant that ignores it keeps the test's output
    # open -- the unit is over when the leak timeout has passed, and nextest exits then, not when the holder goes away
    if sc["on_term"] == "exit" and sc.get("hold") and grace > 0 and not stops and len(shut) == 1 \
            and sc["hold"] > sc["leak"] + 3:
        done_by = t1 + sc["leak"] * u
        if obs["nextest_exit_t"] > done_by + 2.5 * eps + 150:
            return (f"the test died of SIG{n1} at {t1:.0f} ms, a descendant holds its output; every unit was over by "
                    f"{done_by:.0f} ms (leak timeout), nextest exited only at {obs['nextest_exit_t']:.0f} ms")
    if not any(k == "RunBeginCancel" for k, _ in obs["cancel_events"]):
        return "no RunBeginCancel event after a shutdown signal"
    return None


SLOW_WHILE_STOPPED = "marked slow on stopped time"


def known_class_F17(sc, why):
    """finding F17: a Stop delivered while the unit is being terminated for a shutdown signal (the slow-timeout
    interval sleep is not paused by terminate_child)"""
    if not why or not why.startswith(SLOW_WHILE_STOPPED):
        return False
    u = sc["u"]
    shut = [t for t, n in effective_sigs(sc) if n in SHUT]
    return bool(shut) and any(n == "TSTP" and shut[0] < t < shut[0] + sc["grace"] for t, n in sc["sigs"]) \
        and sc["on_term"] == "ignore"


def oracle_self_stop(sc, obs):
    """"... and then nextest stops itself; on SIGCONT all are resumed": what nextest's parent saw"""
    if not obs.get("supervised"):
        return None
    eps = 0.45 * sc["u"]
    sent, ev = obs.get("sent") or [], obs.get("nextest_stops") or []
    tstp = [t for t, sg in sent if sg == int(signal.SIGTSTP)]
    cont = [t for t, sg in sent if sg == int(signal.SIGCONT)]
    for i, ts in enumerate(tstp):
        tc = cont[i] if i < len(cont) else None
        if ts > obs["nextest_exit_t"] - eps:
            continue
        horizon = tc if tc is not None else obs["nextest_exit_t"]
        st = [t for t, kind, _ in ev if kind == "stopped" and ts - 5 <= t <= horizon + 5]
        if not st:
            return (f"SIGTSTP sent to nextest at {ts:.0f} ms: nextest did not stop itself (its parent saw no stop "
                    f"before {'SIGCONT at %.0f ms' % tc if tc is not None else 'it exited'}; observed: {ev})")
        if st[0] > ts + 100 + 2.5 * eps + 150:
            return f"SIGTSTP sent at {ts:.0f} ms, nextest stopped itself only at {st[0]:.0f} ms"
        if tc is not None:
            # (a process that exits right after being continued may never be reported as continued: the exit
            # supersedes the notification)
            ct = [t for t, kind, _ in ev if kind == "continued" and t >= tc - 5]
            gone_soon = obs["nextest_exit_t"] < tc + eps + 60
            if (not ct and not gone_soon) or (ct and ct[0] > tc + eps):
                return f"SIGCONT sent at {tc:.0f} ms: nextest's parent saw it continue at {ct[:1]}"
    return None


def oracle_jobcontrol(sc, obs):
    """C12, first sentence, from the property text: "On SIGTSTP every running test's process group is stopped and then
    nextest stops itself; on SIGCONT all are resumed". Observed by nextest's parent (waitid: WSTOPPED / WCONTINUED)
    and by the scripted tests (their signal records)."""
    if not obs.get("supervised"):
        return None
    u = sc["u"]
    eps = 0.45 * u
    sent = obs.get("sent") or []
    ev = obs.get("nextest_stops") or []
    tstp = [t for t, sg in sent if sg == int(signal.SIGTSTP)]
    cont = [t for t, sg in sent if sg == int(signal.SIGCONT)]
    def ended_at(name, pr):
        # a process killed with SIGKILL writes no end record: the subject's end is then bounded by its report
        if pr["end"] is not None:
            return pr["end"]
        if name.startswith("subject#") and obs.get("reported_t") is not None:
            return obs["reported_t"]
        return None

    for i, ts in enumerate(tstp):
        tc = cont[i] if i < len(cont) else None
        if ts > obs["nextest_exit_t"] - eps:
            continue   # nextest was about to exit when the signal was sent
        horizon = tc if tc is not None else obs["nextest_exit_t"]
        st = [t for t, kind, _ in ev if kind == "stopped" and ts - 5 <= t <= horizon + 5]
        if not st:
            return (f"SIGTSTP sent to nextest at {ts:.0f} ms: nextest did not stop itself (its parent saw no stop "
                    f"before {'SIGCONT at %.0f ms' % tc if tc is not None else 'it exited'}; observed: {ev})")
        t_stopped = st[0]
        # <= 100 ms of waiting for acknowledgements, then raise(SIGSTOP)
        if t_stopped > ts + 100 + 2.5 * eps + 150:
            return f"SIGTSTP sent at {ts:.0f} ms, nextest stopped itself only at {t_stopped:.0f} ms"
        # every test running at that moment has had SIGTSTP delivered to its group by the time nextest is stopped
        # (the record is written by the test's handler, so allow it the scheduling latency)
        for name, pr in sorted((obs.get("procs") or {}).items()):
            if pr["start"] is None or pr["start"] > ts - eps:
                continue
            end = ended_at(name, pr)
            if end is not None and end < ts + eps:
                continue
            got = [t for t, sg in pr["sigs"] if sg == int(signal.SIGTSTP) and t >= ts - 5]
            if not got:
                return f"SIGTSTP sent to nextest at {ts:.0f} ms: running test {name} never received SIGTSTP ({pr['sigs']})"
            if got[0] > t_stopped + eps:
                return (f"nextest stopped itself at {t_stopped:.0f} ms, but SIGTSTP reached running test {name} only at "
                        f"{got[0]:.0f} ms (tests are to be stopped first)")
        if tc is None:
            continue
        ct = [t for t, kind, _ in ev if kind == "continued" and t >= tc - 5]
        gone_soon = obs["nextest_exit_t"] < tc + eps + 60
        if (not ct and not gone_soon) or (ct and ct[0] > tc + eps):
            return f"SIGCONT sent at {tc:.0f} ms: nextest's parent saw it continue at {ct[:1]}"
        for name, pr in sorted((obs.get("procs") or {}).items()):
            if pr["start"] is None or pr["start"] > ts - eps:
                continue
            if not any(sg == int(signal.SIGTSTP) for _, sg in pr["sigs"]):
                continue
            end = ended_at(name, pr)
            if end is not None and end < tc + eps + 60:
                continue   # ended (or was killed) before or around the continue
            got = [t for t, sg in pr["sigs"] if sg == int(signal.SIGCONT) and t >= tc - 5]
            if not got:
                return f"SIGCONT sent to nextest at {tc:.0f} ms: stopped test {name} never received SIGCONT ({pr['sigs']})"
            if got and got[0] > tc + eps + 60:
                return f"SIGCONT sent at {tc:.0f} ms reached test {name} only at {got[0]:.0f} ms"
    return None


def oracle_C12(sc, obs, baseline=None):
    w = oracle_common(sc, obs)
    if w or not obs.get("started"):
        return w
    u = sc["u"]
    eps = 0.45 * u
    stops = stopped_intervals(sc, obs)
    if not stops:
        # no completed stop / continue pair -- also when a SIGTSTP was sent and nextest, instead of stopping,
        # ran on to its end before the SIGCONT was due: "on SIGTSTP ... nextest stops itself"
        return oracle_self_stop(sc, obs)
    w = oracle_jobcontrol(sc, obs)
    if w:
        return w
    dur = sc["dur"] * u
    t_stop, t_cont = stops[0]
    ended = obs.get("end_t") or obs["nextest_exit_t"]
    if t_stop > dur - eps or t_stop > ended - eps:
        return None  # the test was over (or had been terminated) before the stop
    if sc.get("stops", True):
        got = [s for _, s in obs["sig_test"]]
        if 20 not in got:
            return f"SIGTSTP sent to nextest but the test received {obs['sig_test']}"
        gone = obs.get("end_t") if obs.get("end_t") is not None else obs.get("reported_t")
        if 18 not in got and t_cont < 1e9 and not (gone is not None and gone < t_cont + eps + 60):
            return f"SIGCONT sent to nextest but the test received {obs['sig_test']}"
    ended_while_stopped = not sc.get("stops", True) and dur < t_cont - eps
    if obs["paused_events"][:1] != ["RunPaused"] or \
            (obs["paused_events"][:2] != ["RunPaused", "RunContinued"] and not ended_while_stopped):
        return f"pause/continue events: {obs['paused_events']}"
    if obs.get("time_taken") is not None:
        wall = obs.get("end_t") or obs["nextest_exit_t"]
        running = unstopped(wall, stops)
        if obs["time_taken"] > running + eps + 60:
            return (f"reported time_taken {obs['time_taken']:.0f} ms includes stopped time "
                    f"(test ended at {wall:.0f} ms of which {running:.0f} ms not stopped)")
        # ... and nothing but the stopped time is excluded: the clocks keep working after resumption. The test's own
        # end record if it wrote one, else (killed) the moment its result was reported, minus the wait for the pipes
        wall_lo = obs.get("end_t")
        if wall_lo is None and obs.get("reported_t") is not None:
            wall_lo = obs["reported_t"] - (sc["leak"] * u if (sc.get("hold") or sc.get("child")) else 0)
        if wall_lo is not None:
            running_lo = unstopped(wall_lo, stops)
            if obs["time_taken"] < running_lo - eps - 60 - 0.05 * running_lo:
                return (f"reported time_taken {obs['time_taken']:.0f} ms, but the test ran for {running_lo:.0f} ms not "
                        f"counting the time stopped (it ended at {wall_lo:.0f} ms): a clock did not resume")
    if obs.get("run_elapsed") is not None:
        running = unstopped(obs["nextest_exit_t"], stops)
        if obs["run_elapsed"] > running + eps + 80:
            return (f"run-level elapsed time {obs['run_elapsed']:.0f} ms includes stopped time "
                    f"(nextest exited at {obs['nextest_exit_t']:.0f} ms of which {running:.0f} ms not stopped)")
    if sc.get("ta") and not any(n in SHUT for _, n in sc["sigs"]):
        deadline = sc["ta"] * sc["period"] * u
        for t, sg in obs["sig_test"]:
            if sg in (1, 2, 3, 15) and unstopped(t, stops) < deadline - eps:
                return (f"signal {sg} reached the test at {t:.0f} ms, after only {unstopped(t, stops):.0f} ms of "
                        f"running time; the deadline is {deadline:.0f} ms of running time")
    # stopped time is excluded from the slow-timeout clock: not marked slow before one period of unstopped time
    if obs.get("is_slow") or obs.get("slow_events"):
        wall = obs.get("end_t") if obs.get("end_t") is not None else (obs.get("reported_t") or obs["nextest_exit_t"])
        running = unstopped(wall, stops)
        if running < sc["period"] * u - eps:
            return (f"{SLOW_WHILE_STOPPED}: is_slow={obs.get('is_slow')}, slow events {obs.get('slow_events')} after "
                    f"{running:.0f} ms of unstopped running time (the test ended at {wall:.0f} ms); the slow-timeout "
                    f"period is {sc['period'] * u:.0f} ms")
    # the clocks keep working after resumption: a test that ignores SIGTERM is killed when
    # terminate-after periods plus the grace period of *running* time have passed
    period, ta, grace = sc["period"] * u, sc.get("ta"), sc["grace"] * u
    if ta and sc["on_term"] == "ignore" and not any(n in SHUT for _, n in sc["sigs"]) and sc.get("stops", True):
        need = ta * period + grace
        if dur > need + eps:
            t, acc, last = 0.0, 0.0, 0.0
            # real time at which `need` of running time has accumulated
            for a, b in stops:
                if acc + (a - last) >= need:
                    break
                acc += a - last
                last = b
            kill_at = last + (need - acc)
            if obs["nextest_exit_t"] > kill_at + 2.5 * eps + 150:
                return (f"test ignoring SIGTERM should be killed after {need:.0f} ms of running time (real time "
                        f"{kill_at:.0f} ms) but nextest exited at {obs['nextest_exit_t']:.0f} ms")
            if obs.get("result") != "timeout":
                return f"result {obs.get('result')} instead of timeout after stop/continue"
    if baseline is not None and baseline.get("result") != obs.get("result"):
        return f"result with pause {obs.get('result')} differs from result without pause {baseline.get('result')}"
    return None


# ---------------------------------------------------------------- driving a whole check

def regen_table():
    """run the translator; returns (ok, message). The generated file is only rewritten when its
    content changes, so the Coq build stays incremental."""
    binary, err = vlib.build_harness()
    if binary is None:
        return False, "harness build failed: " + err
    pt = os.path.join(os.path.dirname(binary), "pause_table")
    rc, o, e = vlib.sh([pt], timeout=120)
    if rc != 0:
        return False, "pause_table translator failed: " + (e or o)[-1500:]
    path = os.path.join(vlib.GEN, "GenPauseTable.v")
    if not os.path.exists(path) or open(path).read() != o:
        open(path, "w").write(o)
    return True, o


def first_bad_path():
    """shortest abstract event path to a bad transition for the regenerated table ([] if none)"""
    names = ["tick", "interval-expiry(terminate)", "interval-expiry", "grace-expiry", "leak-expiry",
             "child-exit(ok)", "child-exit(fail)", "pipes-closed", "Stop", "Continue", "Shutdown(INT)",
             "Shutdown(TERM)", "Shutdown(HUP)", "Shutdown(QUIT)", "Shutdown(second)", "OtherCancel", "GetInfo"]
    v = vlib.coq_eval("c12bad", ["Base.Str", "Model.Clocks", "Model.UnitTimers", "Model.AbsTimers",
                                 "gen.GenPauseTable"], ["first_bad_codes pause_table"])[0]
    return [names[c] for c in v[1:]] if v else []


def run_scenarios(rig, scs, par=4, timeout=40):
    out = [None] * len(scs)
    idx = list(range(len(scs)))
    lock = threading.Lock()

    def worker():
        while True:
            with lock:
                if not idx:
                    return
                i = idx.pop(0)
            res = run_real(rig, scs[i], timeout=timeout)
            out[i] = observe(scs[i], res)
            out[i]["_stderr_tail"] = res["stderr"][-600:]
            rig.cleanup(res)

    ths = [threading.Thread(target=worker) for _ in range(par)]
    for t in ths:
        t.start()
    for t in ths:
        t.join()
    return out


HARD_MARKS = ("failed internally", "did not exit", "still alive")


def hard_failure(why, o):
    """failures that do not depend on a measured time count at the first observation (DESIGN §3): an
    internal failure of nextest, nextest not exiting, a process surviving nextest. Survivors are
    re-examined after half a second (a group killed with SIGKILL dies asynchronously)."""
    if not why or not any(k in why for k in HARD_MARKS):
        return False
    if "still alive" in why:
        time.sleep(0.5)
        pids = ([o.get("pid")] if o.get("pid_alive_after") else []) + list(o.get("group_alive_after") or [])
        return any(e2e.alive(p) for p in pids if p)
    return True


def check_family(chk, rig, scs, oracle, tag, retries=2):
    """correspondence + oracle over the scenarios; timing-dependent failures must reproduce with the
    time unit doubled (twice) before they count. Returns number of scenarios evaluated."""
    # keep only scenarios whose predicted outcome does not hinge on a coincidence of two instants:
    # the same qualitative prediction (result, slow flag, sequence of signals/events) must come out
    # when the test's own duration is 0.4 units shorter or longer
    def shape(p):
        return None if p.get("panicked") else (p["result"], p["slow"], [c for _, c in p["trace"]])
    los = [dict(sc, dur=max(0.05, sc["dur"] - 0.4)) for sc in scs]
    his = [dict(sc, dur=sc["dur"] + 0.4) for sc in scs]
    lo, hi, preds = predict(los, tag + "lo"), predict(his, tag + "hi"), predict(scs, tag)
    # signals sent while nextest is stopped are handled, at the continue, in either order: second prediction
    alo, ahi, alts = predict_alt(los, tag + "alo"), predict_alt(his, tag + "ahi"), predict_alt(scs, tag + "alt")
    keep = [i for i in range(len(scs)) if shape(lo[i]) == shape(preds[i]) == shape(hi[i]) and
            (alts[i] is None or shape(alo[i]) == shape(alts[i]) == shape(ahi[i]))]
    chk.count("scenarios_dropped_as_threshold_coincidences", len(scs) - len(keep))
    scs = [scs[i] for i in keep]
    preds = [preds[i] for i in keep]
    alts = [alts[i] for i in keep]
    obss = run_scenarios(rig, scs)
    for sc, p, alt, o in zip(scs, preds, alts, obss):
        chk.count("e2e_runs")
        chk.count("on_term=" + (sc["on_term"] if isinstance(sc["on_term"], str) else sc["on_term"][0]))
        chk.count("signals=" + ",".join(n for _, n in sc["sigs"]) if sc["sigs"] else "signals=none")
        if o.get("nextest_stops"):
            chk.count("runs_in_which_nextest_was_seen_stopped_by_its_parent")
        why = oracle(sc, o)
        if known_class_F17(sc, why):
            listed = [f for f in vlib.known_findings().get("findings", []) if f.get("id") == "F17"]
            if listed:
                chk.known_finding(listed[0]["what"])
                chk.count("known_finding_F17_observed")
                why = None
        diff, which = compare_any(sc, [p, alt], o) if o.get("started") else ([], 0)
        if alt is not None and o.get("started"):
            order = [k for k in o.get("tap_order", []) if k in ("RunContinued", "RunBeginCancel")]
            chk.count("signal_sent_while_stopped:handled_" +
                      ("after_continue" if order[:1] == ["RunContinued"] else "before_continue")
                      if len(order) >= 2 else "signal_sent_while_stopped:order_unknown")
            if not diff:
                chk.count("signal_sent_while_stopped:matches_" + ("continue_first" if which == 0 else "shutdown_first")
                          + "_prediction")
            p = dict(p, other_order=alt)
        if not why and not diff:
            continue
        if hard_failure(why, o):
            chk.violation("counterexample", "oracle:" + chk.prop,
                          dict(clause=why, runs=[dict(scenario=sc, observation=o, model=p, oracle=why, diff=diff)]))
            return False
        # reproduce with a doubled time unit
        history = [dict(scenario=sc, observation=o, model=p, oracle=why, diff=diff)]
        cur = sc
        confirmed = True
        for _ in range(retries):
            cur = dict(cur, u=cur["u"] * 2)
            p2 = predict([cur], tag + "r")[0]
            a2 = predict_alt([cur], tag + "ra")[0]
            o2 = run_scenarios(rig, [cur], par=1, timeout=80)[0]
            why2, diff2 = oracle(cur, o2), (compare_any(cur, [p2, a2], o2)[0] if o2.get("started") else [])
            history.append(dict(scenario=cur, observation=o2, model=dict(p2, other_order=a2) if a2 else p2,
                                oracle=why2, diff=diff2))
            chk.count("e2e_reruns")
            if not why2 and not diff2:
                confirmed = False
                break
        if not confirmed:
            chk.count("timing_flakes_not_reproduced")
            print(f"note: property={chk.prop} a timing discrepancy did not reproduce with the time unit doubled "
                  f"and was dismissed: {str(why or diff[0])[:160]}")
            continue
        hard = [h for h in history if h["oracle"]]
        if hard:
            chk.violation("counterexample", "oracle:" + chk.prop, dict(clause=hard[0]["oracle"], runs=history))
        else:
            chk.violation("broken-obligation", "corr:unit-timers",
                          dict(note="nextest and the unit model disagree; the property oracle accepted the runs",
                               runs=history), no_input=True)
        return False
    return True


# ================================================================ a unit's whole life
# Scenario fields in addition to u / period / ta / grace / leak / sigs:
#   attempts=[dict(dur=, exit=, on_term=, hold=, stops=), ...]  one behaviour per attempt (the last one repeats)
#   retries=N, delay=D (time units), backoff="fixed"|"exponential", max_delay=None|M
#   canceller=dict(fail_at=T): a second test (other binary, no retries) failing at T with fail-fast on:
#     the subject then receives OtherCancel
# Model side: Model/UnitLifeEnv.v `life_report`.

LIFE_IMPORTS = ["Base.Str", "Model.Backoff", "Model.Clocks", "Model.UnitTimers", "Model.UnitEnv", "Model.UnitLife",
                "Model.UnitLifeEnv", "gen.GenPauseTable"]
INFO_STATE = {110: "running", 111: "terminating", 112: "exiting", 113: "delay"}


def life_delay_units(sc, k):
    """configured delay after attempt k (1-based), in time units"""
    d = sc["delay"]
    if sc.get("backoff", "fixed") == "exponential":
        d = d * 2 ** (k - 1)
        if sc.get("max_delay") is not None:
            d = min(d, sc["max_delay"])
    return d


def life_config(sc, profile="default"):
    u = sc["u"]
    st = f'period = "{ms(sc["period"], u)}ms"'
    if sc.get("ta"):
        st += f', terminate-after = {sc["ta"]}'
    st += f', grace-period = "{ms(sc["grace"], u)}ms"'
    cfg = (f'[profile.{profile}]\nslow-timeout = {{ {st} }}\nleak-timeout = "{ms(sc["leak"], u)}ms"\n'
           f'fail-fast = {"true" if sc.get("canceller") else "false"}\nretries = 0\n')
    pol = f'backoff = "{sc.get("backoff", "fixed")}", count = {sc["retries"]}, delay = "{ms(sc["delay"], u)}ms"'
    if sc.get("backoff") == "exponential" and sc.get("max_delay") is not None:
        pol += f', max-delay = "{ms(sc["max_delay"], u)}ms"'
    cfg += f'[[profile.{profile}.overrides]]\nfilter = "test(subject)"\nretries = {{ {pol} }}\n'
    return cfg


def _puppet_beh(a, u, life_dur):
    beh = {"sleep": a["dur"] * u, "exit": a.get("exit", 0)}
    ot = a.get("on_term", "exit")
    if ot == "exit":
        beh["on_term"] = "die"
    elif ot == "ignore":
        beh["on_term"] = "ignore"
    else:
        beh["on_term"] = f"late:{ot[1] * u}"
        if ot[0] == "late_ok":
            beh["term_exit"] = 0
    if not a.get("stops", True):
        beh["tstp"] = "ignore"
    if a.get("hold"):
        beh["child"] = {"for": (a["dur"] + a["hold"]) * u, "hold": ["stdout"], "on_term": "ignore"}
    return beh


def life_puppet(sc):
    u = sc["u"] / 1000.0
    atts = [_puppet_beh(a, u, 0) for a in sc["attempts"]]
    bins = {"alpha::t1": {"tests": {"subject": {"attempts": atts}}}}
    if sc.get("canceller"):
        bins["beta::t1"] = {"tests": {"canceller": {"attempts": [{"sleep": sc["canceller"]["fail_at"] * u, "exit": 1}]}}}
    return {"bins": bins}


def life_coq_case(sc, unicast=True, cont_first=True):
    u = sc["u"]
    cfg = (f"{{| period := {ms(sc['period'], u)}; terminate_after := "
           f"{'Some ' + str(sc['ta']) if sc.get('ta') else 'None'}; grace := {ms(sc['grace'], u)}; "
           f"leak_timeout := {ms(sc['leak'], u)} |}}")
    if sc.get("backoff", "fixed") == "exponential":
        md = "None" if sc.get("max_delay") is None else f"(Some {ms(sc['max_delay'], u)})"
        pol = f"(Exponential {sc['retries']} {ms(sc['delay'], u)} false {md})"
    else:
        pol = f"(Fixed {sc['retries']} {ms(sc['delay'], u)} false)"
    behs = []
    for a in sc["attempts"]:
        ot = a.get("on_term", "exit")
        react = {"exit": "OnTermExit", "ignore": "OnTermIgnore"}.get(ot) if isinstance(ot, str) else \
            f"({'OnTermLateOk' if ot[0] == 'late_ok' else 'OnTermLate'} {ms(ot[1], u)})"
        behs.append(f"{{| b_dur := {ms(a['dur'], u)}; b_exit_ok := {vlib.coq_bool(a.get('exit', 0) == 0)}; "
                    f"b_on_term := {react}; b_hold := {ms(a.get('hold', 0), u)}; "
                    f"b_stops := {vlib.coq_bool(a.get('stops', True))} |}}")
    reqs, shuts = [], 0
    evs = [(t, n) for t, n in sc["sigs"]]
    if sc.get("canceller"):
        evs.append((sc["canceller"]["fail_at"], "OTHERCANCEL"))
    evs.sort(key=lambda p: p[0])
    for t, name in evs:
        if name == "TSTP":
            r = "RStop"
        elif name == "CONT":
            r = "RContinue"
        elif name == "OTHERCANCEL":
            r = "ROtherCancel"
        elif name in SHUT:
            shuts += 1
            if shuts > 2:
                continue
            r = f"(RShutdown (Once {SHUT[name]}))" if shuts == 1 else "(RShutdown Twice)"
        else:
            r = "RGetInfo"
        reqs.append(f"({ms(t, u)}, {r})")
    return (f"life_report_o {vlib.coq_bool(cont_first)} pause_table {cfg} {pol} {vlib.coq_list(behs)} "
            f"{vlib.coq_list(reqs)} {vlib.coq_bool(unicast)}")


def predict_life_alt(scs, tag="lifealt"):
    """as predict_alt, for whole-life scenarios"""
    idx = [i for i, sc in enumerate(scs) if pending_signals(sc)]
    out = [None] * len(scs)
    if idx:
        for i, p in zip(idx, predict_life([scs[i] for i in idx], tag, cont_first=False)):
            out[i] = p
    return out


def predict_life(scs, tag="life", unicast=True, cont_first=True):
    vals = vlib.coq_eval(tag, LIFE_IMPORTS, [life_coq_case(sc, unicast, cont_first) for sc in scs])
    out = []
    for v in vals:
        if v == [[1]]:
            out.append({"panicked": True})
            continue
        hd, at, mk, tr, dl = v
        trip = lambda l: [(l[i], l[i + 1], l[i + 2]) for i in range(0, len(l), 3)]
        marks = trip(mk)
        out.append({"panicked": False,
                    "ended": {4: "finished", 5: "refused"}.get(hd[1], "running"),
                    "attempts_started": len([m for m in marks if m[0] == 1]), "end": hd[3],
                    "attempts": [dict(no=at[i], result=["pass", "leak", "fail", "timeout"][at[i + 1]],
                                      slow=bool(at[i + 2]), time_taken=at[i + 3]) for i in range(0, len(at), 4)],
                    "starts": {k: t for kind, k, t in marks if kind == 1},
                    "ends": {k: t for kind, k, t in marks if kind == 2},
                    "delay_ends": {k: t for kind, k, t in marks if kind == 3},
                    "trace": [(t, k, c) for t, k, c in trip(tr)],
                    "delays": {dl[i]: dl[i + 1] for i in range(0, len(dl), 2)}})
    return out


def run_real_life(rig, sc, timeout=60):
    u = sc["u"] / 1000.0
    t_start = [None]

    def mk_trigger(delay):
        def f(ctx):
            if t_start[0] is None:
                for r in e2e.read_jsonl(ctx["tap"]):
                    if "mono" in r and r.get("kind") == "TestStarted" and r["test"][1] == "subject":
                        t_start[0] = r["mono"]
                        break
            return t_start[0] is not None and time.monotonic() >= t_start[0] + delay
        return f

    sigs = [(mk_trigger(t * u), SIGNO[name]) for t, name in sc["sigs"]]
    args = ["--fail-fast" if sc.get("canceller") else "--no-fail-fast", "--test-threads", "4", "--no-tests=pass"]
    return rig.run(life_puppet(sc), life_config(sc), args=args, signals=sigs, timeout=timeout, supervise_stop=True,
                   env_extra={"NEXTEST_DOUBLE_SPAWN": "0"} if sc.get("direct_spawn") else None)


def observe_life(sc, res):
    log, tap = res["log"], res["tap"]
    ts = [e for e in tap if e.get("kind") == "TestStarted" and e["test"][1] == "subject" and "mono" in e]
    if not ts:
        return {"started": False, "rc": res["rc"], "stderr": res["stderr"][-1500:]}
    t0 = ts[0]["mono"]
    rel = lambda t: (t - t0) * 1000.0
    sub = lambda e: e.get("test", [None, None])[1] == "subject"
    starts = {r["attempt"]: r for r in log if r.get("ev") == "start" and r.get("test") == "subject"}
    pend = {r["attempt"]: r for r in log if r.get("ev") == "end" and r.get("test") == "subject"}
    fails = [e for e in tap if e.get("kind") == "TestAttemptFailedWillRetry" and sub(e)]
    retries = [e for e in tap if e.get("kind") == "TestRetryStarted" and sub(e)]
    fin = [e for e in tap if e.get("kind") == "TestFinished" and sub(e)]
    statuses = {}
    for e in fails:
        statuses[e["status"]["attempt"]] = dict(e["status"], mono=e["mono"])
    if fin:
        for s in fin[0]["statuses"]:
            statuses.setdefault(s["attempt"], dict(s, mono=fin[0]["mono"]))
        statuses[fin[0]["statuses"][-1]["attempt"]]["mono"] = fin[0]["mono"]
    attempts = []
    for k in sorted(statuses):
        s = statuses[k]
        attempts.append(dict(no=k, result=s["result"]["kind"], slow=s["is_slow"], time_taken=s["time_taken_ns"] / 1e6,
                             reported_t=rel(s["mono"]), delay_before=s["delay_before_start_ns"] / 1e6))
    # information requests: one InfoStarted ... InfoFinished group per request
    groups, cur = [], None
    for e in tap:
        if e.get("kind") == "InfoStarted":
            cur = dict(t=rel(e["mono"]), total=e["total"], responses=[])
            groups.append(cur)
        elif e.get("kind") == "InfoResponse" and cur is not None:
            if e["unit"].get("test", [None, None])[1] == "subject":
                cur["responses"].append(e["state"])
        elif e.get("kind") == "InfoFinished" and cur is not None:
            cur["missing"] = e["missing"]
            cur = None
    pids = [r["pid"] for r in starts.values()]
    runfin = [e for e in tap if e.get("kind") == "RunFinished"]
    o = {"started": True, "rc": res["rc"], "t0": t0,
         "attempt_starts": {k: rel(r["t"]) for k, r in starts.items()},
         "attempt_pids": {k: r["pid"] for k, r in starts.items()},
         "attempt_ends": {k: (rel(r["t"]), r["how"]) for k, r in pend.items()},
         "retry_started": {e["attempt"]: rel(e["mono"]) for e in retries},
         "failed_will_retry": {e["status"]["attempt"]: rel(e["mono"]) for e in fails},
         "fail_delays": {e["status"]["attempt"]: e["delay_ns"] / 1e6 for e in fails},
         "attempts": attempts, "finished": bool(fin), "finished_t": rel(fin[0]["mono"]) if fin else None,
         "sig_test": {k: [(rel(r["t"]), r["signo"]) for r in log if r.get("ev") == "sig" and r.get("test") == "subject"
                          and r.get("who") == "test" and r.get("attempt") == k] for k in starts},
         "info_groups": groups,
         "slow_events": [(e["attempt"], e["elapsed_ns"] / 1e6, e["will_terminate"]) for e in tap
                         if e.get("kind") == "TestSlow" and sub(e)],
         "nextest_exit_t": rel(res["t_end"]), "sent": [(rel(t), s) for t, s in res["sent"]],
         "panic": ("panicked" in res["stderr"]) or res["rc"] == 101, "timed_out": res["timed_out"],
         "pids_alive_after": [p for p in pids if e2e.alive(p)],
         "paused_events": [(e["kind"], rel(e["mono"])) for e in tap if e.get("kind") in ("RunPaused", "RunContinued")],
         "cancel_events": [(e["kind"], e.get("reason"), rel(e["mono"])) for e in tap
                           if e.get("kind") in ("RunBeginCancel", "RunBeginKill")],
         "nextest_stops": [(rel(t), kind, sg) for t, kind, sg in (res.get("stops") or [])],
         "supervised": res.get("stops") is not None,
         "canceller_end": None}
    ce = [r for r in log if r.get("ev") == "end" and r.get("test") == "canceller"]
    if ce:
        o["canceller_end"] = rel(ce[0]["t"])
    if runfin:
        o["run_elapsed"] = runfin[0]["elapsed_ns"] / 1e6
    return o


def life_shape(p):
    """the qualitative part of a prediction"""
    if p.get("panicked"):
        return None
    return (p["ended"], p["attempts_started"], [(a["result"], a["slow"]) for a in p["attempts"]],
            [(k, c) for _, k, c in p["trace"]])


def compare_life(sc, pred, obs, eps=None):
    u = sc["u"]
    eps = eps or 0.45 * u
    if pred.get("panicked"):
        return ["model predicts an internal failure"]
    if not obs.get("started"):
        return ["subject never started"]
    bad = []
    n_obs = len(obs["attempt_starts"])
    if n_obs != pred["attempts_started"]:
        bad.append(f"attempts started: nextest {n_obs}, model {pred['attempts_started']}")
        return bad
    want_end = pred["ended"]
    got_end = "finished" if obs["finished"] else "refused"
    if want_end in ("finished", "refused") and want_end != got_end:
        bad.append(f"how the unit ended: nextest {got_end} (TestFinished event: {obs['finished']}), model {want_end}")
    # attempt boundaries: attempt 1 starts at 0 by definition; later ones at the TestRetryStarted event
    for k, t in pred["starts"].items():
        if k >= 2:
            tg = obs["retry_started"].get(k)
            if tg is None:
                bad.append(f"no TestRetryStarted event for attempt {k}")
            elif abs(tg - t) > eps + 0.05 * t:
                bad.append(f"attempt {k} started at {tg:.0f} ms, model {t} ms")
    got_att = {a["no"]: a for a in obs["attempts"]}
    for a in pred["attempts"]:
        g = got_att.get(a["no"])
        if g is None:
            bad.append(f"no reported status for attempt {a['no']} (model: {a['result']})")
            continue
        if g["result"] != a["result"]:
            bad.append(f"attempt {a['no']} result: nextest {g['result']}, model {a['result']}")
        if g["slow"] != a["slow"]:
            bad.append(f"attempt {a['no']} is_slow: nextest {g['slow']}, model {a['slow']}")
        if abs(g["time_taken"] - a["time_taken"]) > eps + 0.05 * a["time_taken"] + 40:
            bad.append(f"attempt {a['no']} time_taken: nextest {g['time_taken']:.0f} ms, model {a['time_taken']} ms")
        te = pred["ends"].get(a["no"])
        if te is not None and abs(g["reported_t"] - te) > eps + 0.05 * te + 40:
            bad.append(f"attempt {a['no']} reported at {g['reported_t']:.0f} ms, model {te} ms")
    for k, d in pred["delays"].items():
        g = obs["fail_delays"].get(k)
        if g is None or abs(g - d) > 1:
            bad.append(f"delay announced after attempt {k}: nextest {g} ms, model {d} ms")
    for k in obs["attempt_starts"]:
        want = [(t, c) for t, kk, c in pred["trace"] if kk == k and c in CATCHABLE]
        got = obs["sig_test"].get(k, [])
        bad += signals_diff(want, got, eps, who=f"attempt {k}")
    if not any(n in SHUT for _, n in sc["sigs"]):
        # (after a kill that ends a signal-termination "interval elapsed" and "child exited" race: see compare)
        want_slow = [(k, c == 101) for _, k, c in pred["trace"] if c in (100, 101)]
        got_slow = [(k, w) for k, _, w in obs["slow_events"]]
        if want_slow != got_slow:
            bad.append(f"slow events (attempt, will_terminate): nextest {obs['slow_events']}, model {want_slow}")
    want_info = [INFO_STATE[c] for _, _, c in pred["trace"] if c in INFO_STATE]
    got_info = [r["state"] for g in obs["info_groups"] for r in g["responses"]]
    if want_info != got_info:
        bad.append(f"information responses: nextest {got_info}, model {want_info}")
    # when the subject is the last thing running, nextest exits when the unit ends
    if want_end in ("finished", "refused") and not sc.get("canceller"):
        if obs["nextest_exit_t"] > pred["end"] + 2.5 * eps + 150 + 0.05 * pred["end"]:
            bad.append(f"nextest exited at {obs['nextest_exit_t']:.0f} ms, the unit ends at {pred['end']} ms in the model")
        if obs["nextest_exit_t"] < pred["end"] - eps - 0.05 * pred["end"]:
            bad.append(f"nextest exited at {obs['nextest_exit_t']:.0f} ms, before the unit ends in the model ({pred['end']} ms)")
    return bad


# ---------------------------------------------------------------- oracles for the whole life (no model)

def _phase_at(sc, obs, t):
    """which wait loop the subject was in at time t (ms), from what was observed; None near a boundary"""
    u = sc["u"]
    eps = 0.45 * u
    ks = sorted(obs["attempt_starts"])
    rep = {a["no"]: a["reported_t"] for a in obs["attempts"]}
    for k in ks:
        st = 0.0 if k == 1 else obs["retry_started"].get(k)
        if st is None:
            return None
        spawned = obs["attempt_starts"][k]
        pe = obs["attempt_ends"].get(k)
        reported = rep.get(k)
        died = pe[0] if pe else reported
        if died is None:
            died = obs["nextest_exit_t"]
        if spawned + 20 < t < died - eps:
            terms = [ts for ts, s in obs["sig_test"].get(k, []) if s in (1, 2, 3, 15)]
            if terms and t > terms[0] + 20:
                return "terminating"
            if terms and t > terms[0] - eps:
                return None
            return "running"
        if pe and reported is not None and pe[0] + 30 < t < reported - eps:
            return "exiting"
        nxt = obs["retry_started"].get(k + 1)
        if reported is not None and k in obs["failed_will_retry"]:
            end_delay = nxt if nxt is not None else obs["nextest_exit_t"]
            if reported + 30 < t < end_delay - eps:
                return "delay"
    return None


def oracle_life(sc, obs):
    """written from the property statements (C07 not sooner / stretched by stopped time, C10-C11 nothing new after
    cancellation and prompt exit, C12 time excluded and no start while stopped, information requests)"""
    if obs.get("panic"):
        return "nextest failed internally (panic)"
    if obs.get("timed_out"):
        return "nextest did not exit (hung)"
    if not obs.get("started"):
        return None
    if obs.get("pids_alive_after"):
        return f"test processes {obs['pids_alive_after']} still alive after nextest exited"
    w = oracle_self_stop(sc, obs)
    if w:
        return w
    # signals are sent in order; those scheduled after nextest had already exited were never sent
    sc = dict(sc, sigs=list(sc["sigs"])[:len(obs.get("sent", sc["sigs"]))])
    u = sc["u"]
    eps = 0.45 * u
    stops = stopped_intervals(sc, obs)
    shut = [(t * u, n) for t, n in effective_sigs(sc) if n in SHUT]   # received at the continue if sent while stopped
    cancel_t = None
    if shut:
        cancel_t = shut[0][0]
    if sc.get("canceller") and obs.get("canceller_end") is not None:
        cancel_t = obs["canceller_end"] if cancel_t is None else min(cancel_t, obs["canceller_end"])
    total = sc["retries"] + 1
    if len(obs["attempt_starts"]) > total:
        return f"{len(obs['attempt_starts'])} attempts with retries = {sc['retries']}"
    rep = {a["no"]: a for a in obs["attempts"]}
    # ---- C07: the next attempt starts only after the configured delay of *unstopped* time; C12: and not
    # while the run is stopped; and the delay is stretched by exactly the stopped time
    for k, t_fail in sorted(obs["failed_will_retry"].items()):
        want = life_delay_units(sc, k) * u
        if abs(obs["fail_delays"][k] - want) > 1:
            return f"delay announced after attempt {k} is {obs['fail_delays'][k]} ms, configured {want} ms"
        t_next = obs["retry_started"].get(k + 1)
        if t_next is None:
            continue
        gap = unstopped(t_next, stops) - unstopped(t_fail, stops)
        if gap < want - 15:
            return (f"attempt {k + 1} started {gap:.0f} ms of unstopped time after attempt {k} failed "
                    f"(wall {t_next - t_fail:.0f} ms); the configured delay is {want:.0f} ms")
        if gap > want + eps + 0.05 * want + 60 and (cancel_t is None or cancel_t > t_next):
            return (f"attempt {k + 1} started {gap:.0f} ms of unstopped time after attempt {k} failed; "
                    f"the configured delay is {want:.0f} ms")
        for a, b in stops:
            if a + 150 < t_next < b - 5:
                return f"attempt {k + 1} started at {t_next:.0f} ms while the run was stopped ({a:.0f}..{b:.0f} ms)"
        if cancel_t is not None and t_next > cancel_t + eps:
            return (f"attempt {k + 1} started at {t_next:.0f} ms, after cancellation began at {cancel_t:.0f} ms")
    # no attempt after a passing one
    for k, a in rep.items():
        if a["result"] in ("pass", "leak") and (k + 1) in obs["attempt_starts"]:
            return f"attempt {k + 1} started although attempt {k} passed"
    # ---- C12: reported time excludes stopped time
    for k, a in rep.items():
        st = 0.0 if k == 1 else obs["retry_started"].get(k)
        if st is None:
            continue
        running = unstopped(a["reported_t"], stops) - unstopped(st, stops)
        if a["time_taken"] > running + eps + 60:
            return (f"attempt {k}: reported time_taken {a['time_taken']:.0f} ms, but only {running:.0f} ms of "
                    f"unstopped time passed between its start and its report")
    # ---- C10 / C11: after cancellation nothing new starts and nextest does not sit out a retry delay
    if cancel_t is not None:
        late = [k for k, t in obs["attempt_starts"].items() if t > cancel_t + eps + 60]
        if late:
            return f"attempts {late} spawned after cancellation began at {cancel_t:.0f} ms"
        # when must everything be over? the last subject process to die, or the canceller
        deaths = []
        for k in obs["attempt_starts"]:
            pe = obs["attempt_ends"].get(k)
            r = rep.get(k)
            deaths.append(r["reported_t"] if r else (pe[0] if pe else cancel_t))
        last = max(deaths + [cancel_t] + ([obs["canceller_end"]] if obs.get("canceller_end") else []))
        if all(b <= cancel_t for _, b in stops) and obs["nextest_exit_t"] > last + 2.5 * eps + 150:
            return (f"cancellation began at {cancel_t:.0f} ms, every process had ended by {last:.0f} ms, nextest exited "
                    f"only at {obs['nextest_exit_t']:.0f} ms (retry delay {life_delay_units(sc, 1) * u:.0f} ms)")
        if obs["rc"] == 0:
            return "nextest exited 0 although the run was cancelled"
        if not any(k == "RunBeginCancel" for k, _, _ in obs["cancel_events"]):
            return "no RunBeginCancel event although cancellation was requested"
    # ---- information requests: exactly one response from the subject, naming the loop it is in
    usr = [t * u for t, n in sc["sigs"] if n == "USR1"]
    if usr and len(obs["info_groups"]) != len(usr):
        return f"{len(usr)} information requests sent, {len(obs['info_groups'])} InfoStarted events"
    for t, g in zip(usr, obs["info_groups"]):
        ph = _phase_at(sc, obs, g["t"])
        if ph is None:
            continue
        if len(g["responses"]) != 1:
            return (f"information request at {g['t']:.0f} ms (subject in its {ph} phase) answered "
                    f"{len(g['responses'])} times by the subject")
        if g["responses"][0]["state"] != ph:
            return f"information request at {g['t']:.0f} ms: response state {g['responses'][0]['state']}, the unit was {ph}"
    return None


def run_life_scenarios(rig, scs, par=4, timeout=60):
    out = [None] * len(scs)
    idx = list(range(len(scs)))
    lock = threading.Lock()

    def worker():
        while True:
            with lock:
                if not idx:
                    return
                i = idx.pop(0)
            res = run_real_life(rig, scs[i], timeout=timeout)
            out[i] = observe_life(scs[i], res)
            out[i]["_stderr_tail"] = res["stderr"][-600:]
            rig.cleanup(res)

    ths = [threading.Thread(target=worker) for _ in range(par)]
    for t in ths:
        t.start()
    for t in ths:
        t.join()
    return out


def _shift_durs(sc, d):
    return dict(sc, attempts=[dict(a, dur=max(0.05, a["dur"] + d)) for a in sc["attempts"]])


def check_life_family(chk, rig, scs, tag, retries=2, oracle=oracle_life):
    """as check_family, for whole-life scenarios"""
    los, his = [_shift_durs(sc, -0.4) for sc in scs], [_shift_durs(sc, 0.4) for sc in scs]
    lo, hi, preds = predict_life(los, tag + "lo"), predict_life(his, tag + "hi"), predict_life(scs, tag)
    alo, ahi, alts = predict_life_alt(los, tag + "alo"), predict_life_alt(his, tag + "ahi"), predict_life_alt(scs, tag + "alt")
    keep = [i for i in range(len(scs)) if life_shape(lo[i]) == life_shape(preds[i]) == life_shape(hi[i]) and
            (alts[i] is None or life_shape(alo[i]) == life_shape(alts[i]) == life_shape(ahi[i]))]
    chk.count("life_scenarios_dropped_as_threshold_coincidences", len(scs) - len(keep))
    scs = [scs[i] for i in keep]
    preds = [preds[i] for i in keep]
    alts = [alts[i] for i in keep]
    obss = run_life_scenarios(rig, scs)
    for sc, p, alt, o in zip(scs, preds, alts, obss):
        chk.count("e2e_runs")
        chk.count("life_e2e_runs")
        chk.count("life:" + sc.get("family", "other"))
        why = oracle(sc, o)
        diff, which = compare_any(sc, [p, alt], o, compare_life) if o.get("started") else ([], 0)
        if alt is not None:
            p = dict(p, other_order=alt)
        if not why and not diff:
            continue
        if hard_failure(why, o):
            chk.violation("counterexample", "oracle:" + chk.prop + ":unit-life",
                          dict(clause=why, runs=[dict(scenario=sc, observation=o, model=p, oracle=why, diff=diff)]))
            return False
        history = [dict(scenario=sc, observation=o, model=p, oracle=why, diff=diff)]
        cur = sc
        confirmed = True
        for _ in range(retries):
            cur = dict(cur, u=cur["u"] * 2)
            p2 = predict_life([cur], tag + "r")[0]
            a2 = predict_life_alt([cur], tag + "ra")[0]
            o2 = run_life_scenarios(rig, [cur], par=1, timeout=120)[0]
            why2 = oracle(cur, o2)
            diff2 = compare_any(cur, [p2, a2], o2, compare_life)[0] if o2.get("started") else []
            history.append(dict(scenario=cur, observation=o2, model=dict(p2, other_order=a2) if a2 else p2,
                                oracle=why2, diff=diff2))
            chk.count("e2e_reruns")
            if not why2 and not diff2:
                confirmed = False
                break
        if not confirmed:
            chk.count("timing_flakes_not_reproduced")
            print(f"note: property={chk.prop} a timing discrepancy did not reproduce with the time unit doubled "
                  f"and was dismissed: {str(why or diff[0])[:160]}")
            continue
        hard = [h for h in history if h["oracle"]]
        if hard:
            chk.violation("counterexample", "oracle:" + chk.prop + ":unit-life",
                          dict(clause=hard[0]["oracle"], runs=history))
        else:
            chk.violation("broken-obligation", "corr:unit-life",
                          dict(note="nextest and the whole-life unit model disagree; the property oracle accepted the runs",
                               runs=history), no_input=True)
        return False
    return True


# ---- scenario families

def _att(dur, exit=1, on_term="exit", hold=0, stops=True):
    return dict(dur=dur, exit=exit, on_term=on_term, hold=hold, stops=stops)


def life_base(**kw):
    sc = dict(u=150, period=30, ta=None, grace=2, leak=0.7, retries=2, delay=5, backoff="fixed", sigs=[],
              attempts=[_att(1.5, 1), _att(1.5, 0)])
    sc.update(kw)
    return sc


def life_stop_in_delay(r=None):
    """SIGTSTP / SIGCONT landing in the retry delay: the delay stretches by the stopped time and the next
    attempt does not start while stopped"""
    scs = [life_base(family="stop-in-delay", sigs=[(3.5, "TSTP"), (8.5, "CONT")]),
           life_base(family="stop-in-delay", delay=4, sigs=[(2.5, "TSTP"), (9.5, "CONT")]),
           # two stops in one delay
           life_base(family="stop-in-delay", delay=6, sigs=[(2.5, "TSTP"), (5.5, "CONT"), (7.5, "TSTP"), (10.5, "CONT")]),
           # stop in the second delay of an exponential policy
           life_base(family="stop-in-delay", backoff="exponential", delay=2, attempts=[_att(1.5, 1), _att(1.5, 1), _att(1.5, 0)],
                     sigs=[(7.5, "TSTP"), (11.5, "CONT")]),
           # stop during attempt 1 (which then fails), continue, then the delay
           life_base(family="stop-then-delay", attempts=[_att(2.5, 1), _att(1.5, 0)], sigs=[(1.5, "TSTP"), (5.5, "CONT")]),
           # stop during attempt 2: its own fresh stopwatch and slow-timeout interval are paused (slow events shift)
           life_base(family="stop-in-attempt-2", period=2, delay=2, retries=1, attempts=[_att(1.5, 1), _att(5.0, 0)],
                     sigs=[(4.5, "TSTP"), (7.5, "CONT")]),
           # the test ignores SIGTSTP and fails while nextest is stopped: the delay starts at the continue
           life_base(family="exit-while-stopped", delay=4, attempts=[_att(2.5, 1, stops=False), _att(1.5, 0)],
                     sigs=[(1.5, "TSTP"), (6.5, "CONT")])]
    if r is not None:
        for _ in range(4):
            d = r.choice([4, 5, 6])
            a1 = r.choice([1.5, 2.5])
            t1 = a1 + r.choice([1, 2])
            scs.append(life_base(family="stop-in-delay", delay=d, attempts=[_att(a1, 1), _att(1.5, r.choice([0, 1]))],
                                 retries=1, sigs=[(t1, "TSTP"), (t1 + r.choice([3, 4, 5]), "CONT")]))
    return scs


def life_shutdown_in_delay(r=None):
    """shutdown signals landing in the retry delay: no further attempt, nextest exits promptly"""
    scs = [life_base(family="shutdown-in-delay", delay=8, sigs=[(3.5, s)]) for s in ("INT", "TERM")]
    scs.append(life_base(family="shutdown-in-delay", delay=8, sigs=[(3.5, "HUP"), (4.5, "QUIT")]))
    # stopped in the delay, continued, then interrupted while still in the (stretched) delay
    scs.append(life_base(family="stop-then-shutdown-in-delay", delay=8, sigs=[(2.5, "TSTP"), (5.5, "CONT"), (7.5, "INT")]))
    # interrupted while stopped in the delay: received at the continue; no further attempt
    scs.append(life_base(family="shutdown-while-stopped-in-delay", delay=8, sigs=[(2.5, "TSTP"), (3.5, "TERM"), (5.5, "CONT")]))
    if r is not None:
        for _ in range(3):
            scs.append(life_base(family="shutdown-in-delay", delay=r.choice([7, 9]), attempts=[_att(r.choice([1.5, 2.5]), 1), _att(1.5, 0)],
                                 sigs=[(r.choice([4, 5]), r.choice(["INT", "TERM", "HUP", "QUIT"]))]))
    return scs


def life_cancel(r=None):
    """cancellation reaching a unit that has retries left: in its delay, or mid-attempt (the F10 scenario: the
    request is consumed by the running attempt, which then fails)"""
    scs = [
        # fail-fast while the subject is in its delay
        life_base(family="failfast-in-delay", delay=9, canceller=dict(fail_at=3.5)),
        # fail-fast mid-attempt, the attempt then fails with retries left
        life_base(family="failfast-mid-attempt", delay=9, attempts=[_att(3.5, 1), _att(1.5, 0)], canceller=dict(fail_at=1.5)),
        # the same in the second attempt
        life_base(family="failfast-mid-attempt", delay=2, attempts=[_att(1.5, 1), _att(3.5, 1), _att(1.5, 0)],
                  canceller=dict(fail_at=5.5)),
        # shutdown signal mid-attempt: the test dies of it (a failed attempt with retries left)
        life_base(family="shutdown-mid-attempt", delay=9, attempts=[_att(6.5, 1), _att(1.5, 0)], sigs=[(1.5, "INT")]),
        life_base(family="shutdown-mid-attempt", delay=9, attempts=[_att(6.5, 1, on_term="ignore"), _att(1.5, 0)],
                  sigs=[(1.5, "TERM")]),
        # mid-attempt, but the attempt passes: Finished as usual
        life_base(family="failfast-mid-attempt-pass", delay=9, attempts=[_att(3.5, 0)], canceller=dict(fail_at=1.5)),
    ]
    if r is not None:
        for _ in range(3):
            a1 = r.choice([2.5, 3.5])
            scs.append(life_base(family="failfast-mid-attempt", delay=r.choice([8, 10]),
                                 attempts=[_att(a1, 1), _att(1.5, 0)], canceller=dict(fail_at=a1 - r.choice([1, 2]))))
    return scs


def life_info(r=None):
    """SIGUSR1 in each phase: running, terminating, retry delay, leak drain"""
    return [
        life_base(family="info", delay=5, attempts=[_att(2.5, 1), _att(2.5, 0)], sigs=[(1.5, "USR1"), (4.5, "USR1"), (8.5, "USR1")]),
        # terminating (timeout, test ignores SIGTERM), then the delay, then attempt 2
        life_base(family="info", period=1, ta=1, grace=4, delay=4, attempts=[_att(9, 1, on_term="ignore"), _att(0.5, 0)],
                  retries=1, sigs=[(2.5, "USR1"), (6.5, "USR1")]),
        # leak drain: the test exits, a descendant holds stdout
        life_base(family="info", leak=4, delay=3, attempts=[_att(1.5, 1, hold=8), _att(1.5, 0)], retries=1,
                  sigs=[(3.5, "USR1"), (7.0, "USR1")]),
    ]


# ---- wiring the whole-life stage into a property check

def life_gate(chk):
    """Properties/UnitLife.v builds for the regenerated pause table and its theorems are closed; when it does
    not, look for a concrete failing request sequence in the delay loop"""
    gate = vlib.coq_gate("UnitLife", extra_targets=["Model/UnitLifeEnv.vo", "gen/GenPauseTable.vo"])
    if not gate["ok"]:
        path = []
        try:
            v = vlib.coq_eval("lifebad", ["Base.Str", "Model.Clocks", "Model.UnitTimers", "Model.AbsTimers",
                                          "Model.UnitLife", "gen.GenPauseTable"], ["delay_first_bad pause_table"])[0]
            path = [{8: "Stop", 9: "Continue"}[c] for c in v[1:]] if v else []
        except Exception:
            path = []
        if path:
            chk.violation("counterexample", "cert:unit-life-delay-loop",
                          dict(clause="a request sequence the dispatcher can produce makes the retry-delay loop fail "
                                      "internally or leaves one of its two clocks in the wrong pause state",
                               request_sequence=["(attempt fails, delay begins)"] + path, problems=gate["problems"]))
        else:
            chk.violation("broken-obligation", "coq-gate:unit-life", dict(problems=gate["problems"]), no_input=True)
    return gate


def merge_gates(g, g2):
    out = dict(g)
    out["obligations"] = g["obligations"] + g2["obligations"]
    out["discharged"] = g["discharged"] + g2["discharged"]
    out["theorems"] = list(g["theorems"]) + list(g2["theorems"])
    out["axioms"] = dict(g["axioms"], **g2["axioms"])
    out["problems"] = list(g["problems"]) + list(g2["problems"])
    out["ok"] = g["ok"] and g2["ok"]
    return out


def life_stage(chk, rig, families, tag, r, thorough=False):
    """run the whole-life scenario families (functions r -> scenarios); returns the scenarios used"""
    scs = []
    for f in families:
        scs += f(r)
        if thorough:
            for _ in range(3):
                scs += [s for s in f(r) if s not in scs]
    if thorough:
        scs += life_random(r, 16)
    check_life_family(chk, rig, scs, tag)
    return scs


# ---- finding F16: the hand-over race (thorough tier only; probabilistic)

def handover_race_stage(chk, rig, trials=24, fillers=60, par=3):
    """An attempt with retries left ends between its unit's handling of Stop and nextest stopping itself: the test
    exits when it receives SIGTSTP, while a stream of short tests keeps some other unit busy spawning (such a unit
    cannot acknowledge, so the dispatcher waits). When the race is won the retry delay runs through the stop.
    Returns the number of runs in which it was observed."""
    delay_ms, stop_s = 1500, 1.8
    cfg = ('[profile.default]\nslow-timeout = { period = "30s" }\nleak-timeout = "100ms"\nfail-fast = false\n'
           'retries = 0\n[[profile.default.overrides]]\nfilter = "test(subject)"\n'
           f'retries = {{ backoff = "fixed", count = 1, delay = "{delay_ms}ms" }}\n')
    scen = {"bins": {"alpha::t1": {"tests": {"subject": {"attempts": [
                {"sleep": 30, "exit": 1, "tstp": "exit"}, {"sleep": 0.1, "exit": 0}]}}},
            "beta::t1": {"tests": {f"f{i:03d}": {"attempts": [{"sleep": 0.0, "exit": 0}]} for i in range(fillers)}}}}
    listed = [f for f in vlib.known_findings().get("findings", []) if f.get("id") == "F16"]
    out, idx, lock = [], list(range(trials)), threading.Lock()

    def one(i):
        t_start = [None]

        def trig(delay):
            def f(ctx):
                if t_start[0] is None:
                    for r in e2e.read_jsonl(ctx["log"]):
                        if r.get("ev") == "start" and r.get("test") == "subject":
                            t_start[0] = r["t"]
                            break
                return t_start[0] is not None and time.monotonic() >= t_start[0] + delay
            return f
        d1 = 0.15 + 0.013 * (i % 17)
        res = rig.run(scen, cfg, args=["--no-fail-fast", "--test-threads", "6"],
                      signals=[(trig(d1), signal.SIGTSTP), (trig(d1 + stop_s), signal.SIGCONT)], timeout=60)
        tap = res["tap"]
        sub = lambda e: e.get("test", [None, None])[1] == "subject"
        fail = [e for e in tap if e.get("kind") == "TestAttemptFailedWillRetry" and sub(e)]
        retry = [e for e in tap if e.get("kind") == "TestRetryStarted" and sub(e)]
        rec = dict(trial=i, rc=res["rc"], panic=("panicked" in res["stderr"]) or res["rc"] == 101,
                   timed_out=res["timed_out"], stderr_tail=res["stderr"][-400:] if res["rc"] == 101 else "")
        if fail and retry and len(res["sent"]) == 2:
            t_stop, t_cont = res["sent"][0][0], res["sent"][1][0]
            stopped = [(t_stop, t_cont)]
            gap = unstopped(retry[0]["mono"], stopped) - unstopped(fail[0]["mono"], stopped)
            rec.update(failed_reported_after_cont_ms=(fail[0]["mono"] - t_cont) * 1000,
                       retry_after_cont_ms=(retry[0]["mono"] - t_cont) * 1000, unstopped_gap_ms=gap * 1000,
                       delay_ms=delay_ms, stopped_ms=(t_cont - t_stop) * 1000)
            rec["hit"] = (retry[0]["mono"] - t_cont) * 1000 < delay_ms - 100
        rig.cleanup(res)
        with lock:
            out.append(rec)

    def worker():
        while True:
            with lock:
                if not idx:
                    return
                i = idx.pop(0)
            one(i)

    ths = [threading.Thread(target=worker) for _ in range(par)]
    for t in ths:
        t.start()
    for t in ths:
        t.join()
    hits = [r for r in out if r.get("hit")]
    chk.count("handover_race_trials", len(out))
    chk.count("handover_race_observed", len(hits))
    broken = [r for r in out if r["panic"] or r["timed_out"]]
    if broken:
        chk.violation("counterexample", "oracle:" + chk.prop + ":handover-race",
                      dict(clause="nextest failed internally or hung when a test exited on SIGTSTP", runs=broken[:3],
                           scenario=scen, config=cfg))
    elif hits:
        if listed:
            chk.known_finding(listed[0]["what"])
        else:
            chk.violation("counterexample", "oracle:" + chk.prop + ":handover-race",
                          dict(clause=f"the retry delay of {delay_ms} ms counted the time the run was stopped: attempt 2 "
                                      f"started {hits[0]['retry_after_cont_ms']:.0f} ms after SIGCONT",
                               runs=hits[:3], scenario=scen, config=cfg))
    return len(hits)


def life_random(r, n=12):
    """random whole-life scenarios: a stop/continue window placed inside attempt 1, the first delay or attempt 2,
    optionally followed by a shutdown signal or an information request"""
    scs = []
    for _ in range(n):
        retries = r.choice([1, 2])
        atts = [_att(r.choice([2.5, 3.5]), 1) for _ in range(retries + 1)]
        atts[-1]["exit"] = r.choice([0, 1])
        if retries == 2 and r.random() < 0.5:
            atts[1]["exit"] = 0
        d = r.choice([3, 4, 5])
        where = r.choice(["attempt-1", "delay-1", "attempt-2"])
        t1 = {"attempt-1": 1.5, "delay-1": atts[0]["dur"] + 1.5, "attempt-2": atts[0]["dur"] + d + 1.0}[where]
        ln = r.choice([3, 4])
        sigs = [(t1, "TSTP"), (t1 + ln, "CONT")]
        x = r.random()
        if x < 0.3:
            sigs.append((t1 + ln + r.choice([1, 2, 3]), r.choice(["INT", "TERM", "HUP", "QUIT"])))
        elif x < 0.55:
            sigs.append((t1 + ln + r.choice([1, 2, 3]), "USR1"))
        scs.append(life_base(family="random:" + where, retries=retries, delay=d, attempts=atts, sigs=sigs,
                             backoff=r.choice(["fixed", "fixed", "exponential"])))
    return scs


# =============================================================================================
# The request arms of every wait loop, regenerated from the source (DESIGN 11.2e): translator
# harness/src/bin/arm_table.rs -> coq/gen/GenArmTable.v; Proofs/ArmBridge.v proves, for all states
# and requests, that the interpretation of the generated table (Model/ArmTable.v) is the model's
# hand-written request handling; Properties/Arms.v states what C09 - C12 need from it.

ARM_LOOPS = ["run_test_inner", "run_setup_script_inner", "terminate_child", "detect_fd_leaks",
             "handle_delay_between_attempts"]
ARM_FIELDS = ["a_test", "a_script", "a_term", "a_leak", "a_delay"]
ARM_SHORT = ["test", "script", "term", "leak", "delay"]
ARM_REQS = ["Stop", "Continue", "Shutdown", "OtherCancel", "GetInfo", "entry", "grace-expiry"]
ARM_REQ_FIELDS = ["on_stop", "on_cont", "on_shutdown", "on_cancel", "on_info"]
ARM_REQ_SHORT = ["stop", "cont", "shutdown", "cancel", "info", "entry", "expiry"]
# which kinds of request a property's statements are about (Properties/Arms.v, block C..)
ARM_RELEVANT = {"C09": {5, 6}, "C10": {3}, "C11": {2, 5, 6}, "C12": {0, 1, 4}}
# single (loop, request) arms a property is about in addition: C11 states that BOTH cancel arms of the retry-delay loop
# end the wait (C11_source_delay_cancel_arms): the dispatcher nudges a unit out of its retry delay with OtherCancel when
# the unit's own shutdown request was consumed earlier
ARM_RELEVANT_PAIRS = {"C11": {(4, 3)}}
ARM_EVENT_NAMES = ["tick", "interval-expiry(terminate)", "interval-expiry", "grace-expiry", "leak-expiry",
                   "child-exit(ok)", "child-exit(fail)", "pipes-closed", "Stop", "Continue", "Shutdown(INT)",
                   "Shutdown(TERM)", "Shutdown(HUP)", "Shutdown(QUIT)", "Shutdown(second)", "OtherCancel", "GetInfo"]
ARM_IMPORTS = ["Base.Str", "Model.Backoff", "Model.Clocks", "Model.UnitTimers", "Model.AbsTimers", "Model.UnitLife",
               "Model.ArmTable", "gen.GenPauseTable", "gen.GenArmTable"]
ARM_TARGETS = ["gen/GenPauseTable.vo", "gen/GenArmTable.vo", "Model/ArmTable.vo", "Proofs/ArmBridge.vo",
               "Properties/Arms.vo"]
ARM_TRANSLATOR = "harness/src/bin/arm_table.rs (syn translator of the request arms, DESIGN 11.2e)"


def regen_arm_table():
    """run the arm translator -> dict(ok, hard, errors, text). ok: every arm was translated. hard: nothing
    usable was produced (the generated file is left as it was). With exit status 3 the translator still prints
    the table, the arms it could not read being `[AUntranslated]` (which no model behaviour matches)."""
    import gen_tie
    binary, err = vlib.build_harness()
    if binary is None:
        return dict(ok=False, hard=True, errors=["harness build failed: " + err[-1500:]], text=None)
    exe = os.path.join(os.path.dirname(binary), "arm_table")
    rc, o, e = vlib.sh([exe], timeout=120, env=dict(vlib.ENV, VERIF_REPO=vlib.REPO))
    errors = [l[len("arm_table: "):].strip() for l in e.splitlines() if l.startswith("arm_table: ")]
    if rc not in (0, 3) or not o.startswith("(* GENERATED") or (rc == 3 and not errors):
        return dict(ok=False, hard=True, errors=errors or [f"translator exit status {rc}: {(e or o)[-1500:]}"], text=None)
    bad = gen_tie._only_definitions(o)
    if bad:
        return dict(ok=False, hard=True, text=None,
                    errors=["generated file contains something other than definitions: " + "; ".join(bad[:5])])
    path = os.path.join(vlib.GEN, "GenArmTable.v")
    if not os.path.exists(path) or open(path).read() != o:
        open(path, "w").write(o)
    return dict(ok=(rc == 0), hard=False, errors=errors, text=o)


def _arm_text(text, loop, req):
    """the action list of one arm as printed in a generated table"""
    import re
    if text is None:
        return None
    if req >= 5:
        if req == 6:
            m = re.search(r"a_term_expiry := (\[.*\])\s*$", text, re.M)
            return m.group(1) if m else None
        return [m.group(0) for m in re.finditer(r"a_entry_\w+ := \[.*\]", text)]
    m = re.search(ARM_FIELDS[loop] + r" := \{\|(.*?)\|\}", text, re.S)
    if not m:
        return None
    m2 = re.search(ARM_REQ_FIELDS[req] + r" := (\[.*?\])\s*(;\s*$|\s*$)", m.group(1), re.M)
    return m2.group(1) if m2 else None


def arm_diffs():
    """(loop, request) pairs on which the regenerated table and the model differ, each with the shortest
    sequence of events (requests first) that leads a fresh unit to a state in which they differ"""
    v = vlib.coq_eval("armdiff", ARM_IMPORTS, ["arm_diff_codes pause_table arm_table"], timeout=300)[0]
    out = []
    for row in v:
        loop, req, path = row[0], row[1], row[3:]
        if path == [999]:
            seq = None    # only at a state no request sequence reaches
        else:
            seq = [ARM_EVENT_NAMES[c] for c in path]
            if loop == 4:
                seq = ["(attempt fails with retries left, delay begins)"] + seq
        out.append(dict(loop=loop, req=req, path=seq))
    return out


def _arm_blocks(path):
    import re
    src = open(path).read()
    parts = re.split(r"^\(\* == block (\w+)(?: \(needs ([\w ]+)\))? == \*\)\n", src, flags=re.M)
    out = {}
    for i in range(1, len(parts), 3):
        out[parts[i]] = dict(needs=(parts[i + 1] or "").split(), text=parts[i + 2])
    return out


def _arm_probe(prop, timeout=300):
    """compile, on their own, the bridge lemmas the property's block needs and the property's statements"""
    import re
    bl = _arm_blocks(os.path.join(vlib.COQ, "Proofs", "ArmBridge.v"))
    st = _arm_blocks(os.path.join(vlib.COQ, "Properties", "Arms.v"))
    blk = prop.lower()
    if blk not in bl or prop not in st:
        return False, {}, f"no block for {prop} in Proofs/ArmBridge.v / Properties/Arms.v"
    order, seen = [], set()

    def go(n):
        if n in seen:
            return
        seen.add(n)
        for d in bl[n]["needs"]:
            go(d)
        order.append(n)
    go(blk)
    names = re.findall(r"^\s*Theorem\s+([A-Za-z0-9_']+)", vlib.strip_comments(st[prop]["text"]), re.M)
    path = os.path.join(vlib.GEN, f"assump_arms_{prop}.v")
    with open(path, "w") as f:
        f.write(bl["preamble"]["text"])
        for n in order:
            f.write(f"(* block {n} *)\n" + bl[n]["text"])
        f.write(re.sub(r"^Print Assumptions (\w+)\.", r'Goal True. idtac "@@ \1". exact I. Qed.' + "\n" + r"Print Assumptions \1.",
                       st[prop]["text"], flags=re.M))
    rc, o, e = vlib.sh(["coqc", "-noglob", "-Q", ".", "NextestModel", path], cwd=vlib.COQ, timeout=timeout)
    for ext in (".vo", ".vok", ".vos", ".glob"):
        q = path[:-2] + ext
        if os.path.exists(q):
            os.remove(q)
    aux = os.path.join(vlib.GEN, f".assump_arms_{prop}.aux")
    if os.path.exists(aux):
        os.remove(aux)
    if rc != 0:
        return False, {}, (o + e)[-1800:]
    axioms = {}
    chunks = re.split(r"@@ (\w+)\n", o)
    for i in range(1, len(chunks), 2):
        body = chunks[i + 1].strip()
        axioms[chunks[i]] = [] if "Closed under the global context" in body else \
            re.findall(r"^([A-Za-z0-9_.']+)\s*:", body, re.M)
    missing = [n for n in names if n not in axioms]
    if missing:
        return False, axioms, "no assumption report for " + ", ".join(missing)
    return True, axioms, ""


def _arms_wrap_finish(chk, prop, rg):
    """evidence: trusted base, assumption and what was regenerated (every return path of the check)"""
    if getattr(chk, "_arms_wrapped", False):
        return
    chk._arms_wrapped = True
    orig = chk.finish

    def finish(gate_result, checker_cmd, trusted_base, extra_cov=None):
        note = ("the request arms of the five wait loops (and terminate_child's entry and grace-expiry arm) are "
                "regenerated from executor.rs / unix.rs by the syn translator and proved equal to the model's request "
                "handling for all states and requests (Properties/Arms.v); the translator reads the Rust subset "
                "correctly (an arm it cannot read is an error); the guards of the select! branches (which loop reads "
                "the channel when) are part of the hand-written model")
        if isinstance(chk.assumptions, list) and note not in chk.assumptions:
            chk.assumptions.append(note)
        tb = list(trusted_base)
        if ARM_TRANSLATOR not in tb:
            tb.append(ARM_TRANSLATOR)
        cov = dict(extra_cov or {})
        cov["arm_table"] = dict(loops=ARM_LOOPS, requests=ARM_REQS, property_requests=sorted(ARM_REQS[k] for k in ARM_RELEVANT[prop]) +
                                sorted(f"{ARM_LOOPS[l]}:{ARM_REQS[r]}" for (l, r) in ARM_RELEVANT_PAIRS.get(prop, ())),
                                translated=bool(rg.get("ok")), translator_messages=rg.get("errors") or [],
                                checker_cmd="arm_table > coq/gen/GenArmTable.v; make -C coq Proofs/ArmBridge.vo "
                                            "Properties/Arms.vo; Print Assumptions")
        return orig(gate_result, checker_cmd + " ; arm table: make -C coq Properties/Arms.vo", tb, cov)
    chk.finish = finish


def arms_gate(chk, prop, gate=None):
    """regenerate the arm table, rebuild the bridge, audit the property's `*_source_*` theorems. A translator
    failure or a bridge lemma that no longer checks for an arm this property is about is a VIOLATION
    `arm-table:<loop>:<request>`, with the shortest event sequence after which the source's arm and the model
    differ when there is one. Arms that belong to other properties do not fail this one: when the whole bridge
    does not build, the property's own blocks are compiled separately. The outcome is merged into `gate`."""
    import re, subprocess
    t0 = time.time()
    relevant = ARM_RELEVANT[prop]
    regen_table()      # keep the pause table in step with the source too (its failures are reported by its owners)
    rg = regen_arm_table()
    mine = [n for n in vlib.theorem_names("Arms") if n.startswith(prop + "_")]
    result = dict(ok=False, theorems=mine, axioms={})
    _arms_wrap_finish(chk, prop, rg)

    def merge(ok, axioms):
        result.update(ok=ok, axioms=axioms)
        if gate is not None:
            gate["theorems"] = list(gate["theorems"]) + mine
            gate["obligations"] += len(mine)
            gate["discharged"] += len([n for n in mine if ok and n in axioms and not axioms[n]])
            gate["axioms"].update({n: axioms.get(n, []) for n in mine})
            if not ok:
                gate["ok"] = False
                gate["problems"] = list(gate["problems"]) + [f"arm table: the {prop} obligations of Properties/Arms.v "
                                                             "are not discharged"]
        chk.count("arm_table_wall_ms", int((time.time() - t0) * 1000))
        if isinstance(chk.assumptions, list):
            pass
        return result

    if rg["hard"]:
        chk.violation("broken-obligation", "arm-table:translator", dict(errors=rg["errors"]), no_input=True)
        return merge(False, {})
    ok_build, out = vlib.coq_make(ARM_TARGETS, timeout=900)
    if ok_build and rg["ok"]:
        names, ax, aout = vlib.assumptions("Arms")
        if ax is None or any(n not in ax for n in mine):
            chk.violation("broken-obligation", "arm-table:assumptions",
                          dict(error="Print Assumptions run failed: " + aout[-800:]), no_input=True)
            return merge(False, {})
        extra = sorted({a for n in mine for a in ax[n] if a not in vlib.AXIOM_ALLOW})
        if extra:
            chk.violation("broken-obligation", "arm-table:axioms", dict(theorems=mine, axioms=extra), no_input=True)
            return merge(False, {n: ax[n] for n in mine})
        chk.count("arm_table_arms_bridged", 5 * 5 + 3)
        # the whole bridge holds: its statements (every state, every request; block `all`) are reported too
        mine.extend(n for n in names if n.startswith("Arms_") and n in ax and not ax[n])
        return merge(True, {n: ax[n] for n in mine})

    # the translator gave up on an arm, or the bridge no longer checks: which loop, which request?
    tr_err = {}
    for e in rg["errors"]:
        m = re.match(r"(\w+): ([\w-]+): (.*)", e)
        if m and m.group(1) in ARM_LOOPS and m.group(2) in ARM_REQS:
            tr_err.setdefault((ARM_LOOPS.index(m.group(1)), ARM_REQS.index(m.group(2))), []).append(m.group(3))
    try:
        committed = subprocess.run(["git", "-C", vlib.VERIF, "show", "HEAD:coq/gen/GenArmTable.v"],
                                   capture_output=True, text=True).stdout or None
    except Exception:
        committed = None
    diffs, diag_error = [], None
    try:
        ok_defs, out_defs = vlib.coq_make(ARM_TARGETS[:3], timeout=600)
        if not ok_defs:
            raise RuntimeError("the generated table does not compile:\n" + "\n".join(out_defs.strip().splitlines()[-12:]))
        diffs = arm_diffs()
    except Exception as ex:
        diag_error = str(ex)[-1500:]
    keys = {(d["loop"], d["req"]): d for d in diffs}
    for k in tr_err:
        keys.setdefault(k, dict(loop=k[0], req=k[1], path=None))
    hit = False
    for (loop, req), d in sorted(keys.items()):
        chk.count(f"arm_table_differs:{ARM_SHORT[loop]}:{ARM_REQ_SHORT[req]}")
        if req not in relevant and (loop, req) not in ARM_RELEVANT_PAIRS.get(prop, ()):
            continue
        hit = True
        detail = dict(
            obligation=f"Proofs/ArmBridge.v block {ARM_SHORT[loop]}_{ARM_REQ_SHORT[req]}",
            loop=ARM_LOOPS[loop], request=ARM_REQS[req],
            meaning="what the source's arm does on this request (as read by the translator) is no longer what the "
                    "unit model does; the theorems of Properties/Arms.v and, through the model, of this property "
                    "no longer speak about the source",
            arm_as_read=_arm_text(rg["text"], loop, req),
            arm_in_committed_table=_arm_text(committed, loop, req),
            translator_messages=tr_err.get((loop, req), []),
            theorems=mine)
        detail["clause"] = (f"{ARM_LOOPS[loop]}, {ARM_REQS[req]}: the source's arm reads {detail['arm_as_read']} "
                            f"(committed table: {detail['arm_in_committed_table']}); the model does something else"
                            + (f"; translator: {'; '.join(tr_err[(loop, req)])}" if (loop, req) in tr_err else ""))
        if d.get("path") is not None and (loop, req) not in tr_err:
            detail["request_sequence"] = d["path"] + [ARM_REQS[req] if req < 5 else
                                                      ("(terminate_child is entered: a slow-timeout termination or a "
                                                       "shutdown request)" if req == 5 else "(the grace period ends)")]
            detail["differs_at"] = "the last element of request_sequence; everything before it is handled alike"
            chk.violation("broken-obligation", f"arm-table:{ARM_LOOPS[loop]}:{ARM_REQS[req]}", detail)
        else:
            if (loop, req) not in tr_err:
                detail["note"] = "model and table differ only at states no request sequence reaches from a fresh unit"
            chk.violation("broken-obligation", f"arm-table:{ARM_LOOPS[loop]}:{ARM_REQS[req]}", detail, no_input=True)
    if hit:
        return merge(False, {})
    # nothing this property is about differs as far as the diagnosis can tell: its own obligations are re-checked
    # on their own
    ok_p, ax, msg = _arm_probe(prop)
    if not ok_p:
        chk.violation("broken-obligation", f"arm-table:{prop}-bridge",
                      dict(error=msg, diagnosis_error=diag_error, translator_messages=rg["errors"],
                           differing_arms=[f"{ARM_LOOPS[l]}:{ARM_REQS[r]}" for (l, r) in sorted(keys)],
                           build=("\n".join(out.strip().splitlines()[-15:]) if not ok_build else None)), no_input=True)
        return merge(False, ax)
    extra = sorted({a for n in mine for a in ax.get(n, []) if a not in vlib.AXIOM_ALLOW})
    if extra:
        chk.violation("broken-obligation", "arm-table:axioms", dict(theorems=mine, axioms=extra), no_input=True)
        return merge(False, ax)
    chk.sample(dict(arm_table_note="another property's arm no longer bridges; this property's blocks of "
                                   "Proofs/ArmBridge.v and Properties/Arms.v were compiled on their own",
                    differing_arms=[f"{ARM_LOOPS[l]}:{ARM_REQS[r]}" for (l, r) in sorted(keys)]), cap=12)
    return merge(True, ax)
