"""End-to-end correspondence for the unit timer model (C09, C11, C12): scenarios with one scripted
test (optionally a second bystander test), signals delivered to nextest at chosen times; the
observation (signals the test received and when, result kind, slow flag, time taken, nextest's own
exit) is compared with the closed-loop simulation of the Coq model (Model/UnitEnv.v) and checked
by oracles written directly from the property statements."""
import json, os, signal, time, threading
import vlib, e2e

IMPORTS = ["Base.Str", "Model.Clocks", "Model.UnitTimers", "Model.UnitEnv", "gen.GenPauseTable"]
SIGNO = {"INT": signal.SIGINT, "TERM": signal.SIGTERM, "HUP": signal.SIGHUP, "QUIT": signal.SIGQUIT,
         "TSTP": signal.SIGTSTP, "CONT": signal.SIGCONT, "USR1": signal.SIGUSR1}
SHUT = {"INT": "SInt", "TERM": "STerm", "HUP": "SHup", "QUIT": "SQuit"}


def ms(x, u):
    return int(round(x * u))


def nextest_config(sc, profile="default"):
    u = sc["u"]
    st = f'period = "{ms(sc["period"], u)}ms"'
    if sc.get("ta"):
        st += f', terminate-after = {sc["ta"]}'
    st += f', grace-period = "{ms(sc["grace"], u)}ms"'
    if sc.get("as_script"):
        # the subject is a setup script (same wait loops as a test); one trivial test needs it
        py = os.path.join(e2e.E2E, "puppet.py")
        return (f'experimental = ["setup-scripts"]\n[profile.{profile}]\nfail-fast = false\nretries = 0\n'
                f'[[profile.{profile}.scripts]]\nfilter = "all()"\nsetup = "subject"\n'
                f'[script.subject]\ncommand = "/usr/bin/python3 -S -E {py} --script subject"\n'
                f'slow-timeout = {{ {st} }}\nleak-timeout = "{ms(sc["leak"], u)}ms"\n')
    cfg = (f'[profile.{profile}]\nslow-timeout = {{ {st} }}\nleak-timeout = "{ms(sc["leak"], u)}ms"\n'
           f'fail-fast = false\nretries = 0\n')
    rc = sc.get("retry_companion")
    if rc:
        cfg += (f'[[profile.{profile}.overrides]]\nfilter = "test(a_retry)"\n'
                f'retries = {{ backoff = "fixed", count = 1, delay = "{ms(rc["delay"], u)}ms" }}\n')
    return cfg


def puppet_scenario(sc):
    u = sc["u"] / 1000.0
    beh = {"sleep": sc["dur"] * u, "exit": sc.get("exit", 0)}
    ot = sc["on_term"]
    if ot == "exit":
        beh["on_term"] = "die"
    elif ot == "ignore":
        beh["on_term"] = "ignore"
    else:
        beh["on_term"] = f"late:{ot[1] * u}"
        if ot[0] == "late_ok":
            beh["term_exit"] = 0   # a graceful-shutdown handler: exit status 0 some time after the signal
    if not sc.get("stops", True):
        beh["tstp"] = "ignore"
    if sc.get("child"):
        beh["child"] = {"for": (sc["dur"] + 12) * u, "hold": [], "on_term": "exit" if ot == "exit" else "ignore"}
    if sc.get("hold"):
        # a descendant keeps the test's stdout open for `hold` units after the test itself exited
        beh["child"] = {"for": (sc["dur"] + sc["hold"]) * u, "hold": ["stdout"], "on_term": "ignore"}
    if sc.get("as_script"):
        return {"scripts": {"subject": beh},
                "bins": {"alpha::t1": {"tests": {"after": {"attempts": [{"exit": 0}]}}}}}
    tests = {"subject": {"attempts": [beh]}}
    if sc.get("retry_companion"):
        # sorts before "subject" in the same binary; fails at once, then sits in its retry delay
        tests["a_retry"] = {"attempts": [{"sleep": 0, "exit": 1}, {"sleep": 0, "exit": 0}]}
    bins = {"alpha::t1": {"tests": tests}}
    if sc.get("bystander"):
        bins["beta::t1"] = {"tests": {"bystander": {"attempts": [
            {"sleep": sc["bystander"] * u, "exit": 0, "on_term": "die"}]}}}
    return {"bins": bins}


def coq_case(sc):
    u = sc["u"]
    cfg = (f"{{| period := {ms(sc['period'], u)}; terminate_after := "
           f"{'Some ' + str(sc['ta']) if sc.get('ta') else 'None'}; grace := {ms(sc['grace'], u)}; "
           f"leak_timeout := {ms(sc['leak'], u)} |}}")
    ot = sc["on_term"]
    react = {"exit": "OnTermExit", "ignore": "OnTermIgnore"}.get(ot) if isinstance(ot, str) else f"({'OnTermLateOk' if ot[0] == 'late_ok' else 'OnTermLate'} {ms(ot[1], u)})"
    beh = (f"{{| b_dur := {ms(sc['dur'], u)}; b_exit_ok := {vlib.coq_bool(sc.get('exit', 0) == 0)}; "
           f"b_on_term := {react}; b_hold := {ms(sc.get('hold', 0), u)}; b_stops := {vlib.coq_bool(sc.get('stops', True))} |}}")
    reqs, shuts = [], 0
    for t, name in sc["sigs"]:
        if name == "TSTP":
            r = "RStop"
        elif name == "CONT":
            r = "RContinue"
        elif name in SHUT:
            shuts += 1
            r = f"(RShutdown (Once {SHUT[name]}))" if shuts == 1 else "(RShutdown Twice)"
            if shuts > 2:
                continue
        else:
            r = "RGetInfo"
        reqs.append(f"({ms(t, u)}, {r})")
    return f"sim_report pause_table {cfg} {beh} {vlib.coq_list(reqs)}"


def predict(scs, tag="units"):
    vals = vlib.coq_eval(tag, IMPORTS, [coq_case(sc) for sc in scs])
    out = []
    for v in vals:
        if v == [1]:
            out.append({"panicked": True})
            continue
        tr = v[6:]
        out.append({"panicked": False, "done": bool(v[1]), "result": ["pass", "leak", "fail", "timeout"][v[2]],
                    "slow": bool(v[3]), "time_taken": v[4], "end": v[5],
                    "trace": [(tr[i], tr[i + 1]) for i in range(0, len(tr), 2)]})
    return out


def run_real(rig, sc, timeout=40):
    """run nextest on the scenario; signals are timed relative to the subject's start record"""
    u = sc["u"] / 1000.0
    started = e2e.log_has("start", test="subject")
    t_start = [None]

    def mk_trigger(delay):
        def f(ctx):
            if t_start[0] is None:
                for r in e2e.read_jsonl(ctx["tap"]):
                    if "mono" in r and ((r.get("kind") == "TestStarted" and r["test"][1] == "subject") or
                                        (r.get("kind") == "SetupScriptStarted" and r.get("script") == "subject")):
                        t_start[0] = r["mono"]
                        break
            return t_start[0] is not None and time.monotonic() >= t_start[0] + delay
        return f

    sigs = [(mk_trigger(t * u), SIGNO[name]) for t, name in sc["sigs"]]
    res = rig.run(puppet_scenario(sc), nextest_config(sc), args=["--no-fail-fast", "--test-threads", "4"],
                  signals=sigs, timeout=timeout)
    return res


def observe(sc, res):
    """distil a run into what the properties talk about (times in ms relative to the subject's start)"""
    log, tap = res["log"], res["tap"]
    st = [r for r in log if r.get("ev") == "start" and r.get("test") == "subject"]
    if not st:
        return {"started": False, "rc": res["rc"], "stderr": res["stderr"][-1500:]}
    t0, pid = st[0]["t"], st[0]["pid"]
    # time base: the TestStarted event (CLOCK_MONOTONIC from the tap), just before the spawn
    ts = [e for e in tap if e.get("kind") == "TestStarted" and e["test"][1] == "subject" and "mono" in e]
    if sc.get("as_script"):
        ts = [e for e in tap if e.get("kind") == "SetupScriptStarted" and e.get("script") == "subject" and "mono" in e]
    if ts:
        t0 = ts[0]["mono"]
    rel = lambda t: (t - t0) * 1000.0
    sig_test = [(rel(r["t"]), r["signo"]) for r in log if r.get("ev") == "sig" and r.get("test") == "subject"
                and r.get("who") == "test"]
    sig_child = [(rel(r["t"]), r["signo"]) for r in log if r.get("ev") == "sig" and r.get("test") == "subject"
                 and r.get("who") == "child"]
    ends = [r for r in log if r.get("ev") == "end" and r.get("test") == "subject"]
    fin = [e for e in tap if e.get("kind") == "TestFinished" and e["test"][1] == "subject"]
    slow_ev = [e for e in tap if e.get("kind") == "TestSlow" and e["test"][1] == "subject"]
    if sc.get("as_script"):
        sfin = [e for e in tap if e.get("kind") == "SetupScriptFinished" and e.get("script") == "subject"]
        fin = [dict(statuses=[e["status"]], t_ns=e["t_ns"]) for e in sfin]
        slow_ev = [e for e in tap if e.get("kind") == "SetupScriptSlow" and e.get("script") == "subject"]
    runfin = [e for e in tap if e.get("kind") == "RunFinished"]
    after_started = any(r.get("ev") == "start" and r.get("test") == "after" for r in log)
    o = {"started": True, "rc": res["rc"], "pid": pid, "after_started": after_started, "sig_test": sig_test, "sig_child": sig_child,
         "end_how": ends[0]["how"] if ends else None, "end_t": rel(ends[0]["t"]) if ends else None,
         "slow_events": [(e["elapsed_ns"] / 1e6, e["will_terminate"]) for e in slow_ev],
         "nextest_exit_t": rel(res["t_end"]), "sent": [(rel(t), s) for t, s in res["sent"]],
         "panic": ("panicked" in res["stderr"]) or res["rc"] == 101, "timed_out": res["timed_out"],
         "pid_alive_after": e2e.alive(pid),
         "group_alive_after": [r["pid"] for r in log if r.get("test") == "subject" and r.get("ev") in
                               ("child-start", "start") and e2e.alive(r["pid"])],
         "paused_events": [e["kind"] for e in tap if e.get("kind") in ("RunPaused", "RunContinued")],
         "cancel_events": [(e["kind"], e.get("reason")) for e in tap if e.get("kind") in ("RunBeginCancel", "RunBeginKill")],
         "info": [e for e in tap if e.get("kind") in ("InfoStarted", "InfoResponse", "InfoFinished")]}
    if fin:
        s = fin[0]["statuses"][-1]
        o.update(result=s["result"]["kind"], result_signal=s["result"].get("signal"), is_slow=s["is_slow"],
                 time_taken=s["time_taken_ns"] / 1e6, finished_t=fin[0]["t_ns"] / 1e6)
    else:
        o.update(result=None)
    if runfin:
        o["run_elapsed"] = runfin[0]["elapsed_ns"] / 1e6
    return o


CATCHABLE = {1, 2, 3, 15, 18, 20}


def compare(sc, pred, obs, eps=None):
    """model prediction vs observation; returns a list of discrepancies (empty = agree)"""
    u = sc["u"]
    eps = eps or 0.45 * u
    bad = []
    if pred.get("panicked"):
        return ["model predicts an internal failure"]
    if not obs.get("started"):
        return ["subject never started"]
    kind_map = {"pass": "pass", "leak": "leak", "fail": "fail", "timeout": "timeout"}
    # (see slow_free below) after a kill that ends a signal-termination, "interval elapsed" and "child
    # exited" are both ready when the running loop is re-entered; if the interval wins and the count
    # reaches terminate-after the attempt is reported as timed out instead of failed
    killed_after_signal = any(c == 9 for _, c in pred["trace"]) and any(n in SHUT for _, n in sc["sigs"]) \
        and pred["end"] >= sc["period"] * u
    if obs.get("result") != kind_map[pred["result"]] and not (
            killed_after_signal and sc.get("ta") and pred["result"] == "fail" and obs.get("result") == "timeout"):
        bad.append(f"result kind: nextest {obs.get('result')}, model {pred['result']}")
    # while a unit is being terminated the slow-timeout interval is not polled; when the loop is
    # re-entered after the kill, "interval elapsed" and "child exited" are both ready and
    # tokio::select! picks either: both outcomes are accepted there
    killed_while_terminating = any(c == 9 for _, c in pred["trace"]) and pred["end"] >= sc["period"] * u
    slow_free = killed_while_terminating and any(n in SHUT for _, n in sc["sigs"])
    if obs.get("is_slow") is not None and obs["is_slow"] != pred["slow"] and not slow_free:
        bad.append(f"is_slow: nextest {obs['is_slow']}, model {pred['slow']}")
    want = [(t, c) for t, c in pred["trace"] if c in CATCHABLE]
    got = obs["sig_test"]
    if [c for _, c in want] != [c for _, c in got]:
        bad.append(f"signals received by the test: nextest {got}, model {want}")
    else:
        for (tw, c), (tg, _) in zip(want, got):
            if abs(tw - tg) > eps + 0.05 * tw:
                bad.append(f"signal {c} at {tg:.0f} ms, model {tw} ms")
    wslow = [c == 101 for _, c in pred["trace"] if c in (100, 101)]
    if wslow != [w for _, w in obs["slow_events"]] and not slow_free:
        bad.append(f"slow events (will_terminate flags): nextest {obs['slow_events']}, model {wslow}")
    if obs.get("time_taken") is not None and abs(obs["time_taken"] - pred["time_taken"]) > eps + 0.05 * pred["time_taken"] + 40:
        bad.append(f"time_taken: nextest {obs['time_taken']:.0f} ms, model {pred['time_taken']} ms")
    return bad


# ---------------------------------------------------------------- oracles (no model involved)

def stopped_intervals(sc):
    """[(t_stop, t_cont)] in ms from the scenario's TSTP/CONT signals"""
    u = sc["u"]
    out, cur = [], None
    for t, name in sc["sigs"]:
        if name == "TSTP" and cur is None:
            cur = t * u
        elif name == "CONT" and cur is not None:
            out.append((cur, t * u))
            cur = None
    return out


def unstopped(t, stops):
    """running time accumulated by real time t"""
    return t - sum(max(0.0, min(t, b) - a) for a, b in stops if a < t)


def oracle_common(sc, obs):
    if obs.get("panic"):
        return "nextest failed internally (panic)"
    if obs.get("timed_out"):
        return "nextest did not exit (hung)"
    if not obs.get("started"):
        return None
    if obs.get("pid_alive_after"):
        return f"test process {obs['pid']} still alive after nextest exited"
    if sc.get("as_script") and obs.get("result") is not None:
        ok = obs["result"] in ("pass", "leak")
        if not ok and (obs.get("after_started") or obs["rc"] != 105):
            return (f"setup script result {obs['result']}: exit status {obs['rc']} (expected 105), "
                    f"test started afterwards: {obs.get('after_started')}")
        if ok and not any(n in SHUT for _, n in sc["sigs"]) and (not obs.get("after_started") or obs["rc"] != 0):
            return f"setup script passed but exit status is {obs['rc']} / the test did not run"
    # a group whose leader ignored the terminating signal is killed with SIGKILL as a whole
    if obs.get("group_alive_after") and sc["on_term"] == "ignore" and obs.get("end_how") is None and (
            obs.get("result") == "timeout" or any(k == "RunBeginCancel" for k, _ in obs.get("cancel_events", []))):
        return (f"processes {obs['group_alive_after']} of the test's process group are still alive after nextest "
                f"killed the group and exited")
    return None


def oracle_C09(sc, obs):
    """slow flag, no signal before the deadline, TERM then KILL at grace, fast tests untouched"""
    w = oracle_common(sc, obs)
    if w or not obs.get("started"):
        return w
    u = sc["u"]
    eps = 0.45 * u
    stops = stopped_intervals(sc)
    if any(n in SHUT for _, n in sc["sigs"]):
        return None  # shutdown signals are C11's business
    period, ta, grace, dur = sc["period"] * u, sc.get("ta"), sc["grace"] * u, sc["dur"] * u
    term_like = [(t, s) for t, s in obs["sig_test"] if s in (1, 2, 3, 15)]
    deadline = ta * period if ta else None
    if deadline is None or dur < deadline - eps:
        if term_like:
            return f"test finishing before its deadline (or with no terminate-after) was signalled: {term_like}"
        if obs.get("result") == "timeout":
            return "reported timeout although the test finished before its deadline"
    for t, s in term_like:
        if unstopped(t, stops) < deadline - eps:
            return f"signal {s} at {t:.0f} ms of which {unstopped(t, stops):.0f} ms running, deadline {deadline:.0f} ms"
    if deadline is not None and dur > deadline + eps:
        if obs.get("result") != "timeout":
            return f"test ran past its deadline but result is {obs.get('result')}"
        if grace > 0 and not any(s == 15 for _, s in term_like):
            return "deadline passed with a non-zero grace period but no SIGTERM reached the test"
        if grace == 0 and term_like:
            return f"grace period is zero but the test received {term_like} instead of SIGKILL"
    if obs.get("is_slow") is not None:
        ran = min(dur, (deadline + grace) if deadline else dur)
        if dur > period + eps and not obs["is_slow"]:
            return "test ran longer than the slow-timeout period but is not marked slow"
        if ran < period - eps and obs["is_slow"]:
            return "test marked slow although it ran for less than the period"
    return None


def oracle_leak(sc, obs):
    """pipes held by a descendant for longer than the leak timeout after a clean exit: LEAK, whatever
    signals arrive while nextest is draining them"""
    u = sc["u"]
    if sc.get("hold") and sc.get("exit", 0) == 0 and not sc.get("ta"):
        first_shut = min([t for t, n in sc["sigs"] if n in SHUT], default=None)
        if first_shut is None or first_shut > sc["dur"] + 0.45:
            want = "leak" if sc["hold"] > sc["leak"] + 0.45 else ("pass" if sc["hold"] < sc["leak"] - 0.45 else None)
            if want and obs.get("result") != want:
                return (f"test exited 0 and a descendant held its stdout for {sc['hold'] * u:.0f} ms (leak timeout "
                        f"{sc['leak'] * u:.0f} ms): reported {obs.get('result')}, expected {want}")
    return None


def oracle_C11(sc, obs):
    w = oracle_common(sc, obs)
    if w or not obs.get("started"):
        return w
    w = oracle_leak(sc, obs)
    if w:
        return w
    u = sc["u"]
    eps = 0.45 * u
    shut = [(t * u, n) for t, n in sc["sigs"] if n in SHUT]
    if not shut:
        return None
    t1, n1 = shut[0]
    dur, grace = sc["dur"] * u, sc["grace"] * u
    if t1 > dur - eps:
        return None  # the test was (nearly) over when the signal came (leak drain: see oracle_leak)
    signo = int(SIGNO[n1])
    got = [(t, s) for t, s in obs["sig_test"] if s in (1, 2, 3, 15)]
    period, ta = sc["period"] * u, sc.get("ta")
    terminating = bool(ta) and ta * period < t1 - eps and sc["on_term"] == "ignore"
    if terminating:
        # already being terminated for a timeout when the signal came: SIGKILL at once
        if obs["nextest_exit_t"] > t1 + 2.5 * eps + 150:
            return (f"shutdown signal at {t1:.0f} ms during a timeout grace period, nextest exited only at "
                    f"{obs['nextest_exit_t']:.0f} ms")
        if obs["nextest_exit_t"] < t1 - eps:
            return f"nextest exited at {obs['nextest_exit_t']:.0f} ms, before the signal at {t1:.0f} ms"
        return None
    if ta and ta * period < t1 + eps:
        return None  # too close to the timeout deadline to tell the phases apart
    if grace > 0:
        if not got or got[0][1] != signo:
            return f"nextest received SIG{n1} but the test received {got}"
        if got[0][0] < t1 - 5 or got[0][0] > t1 + eps:
            return f"SIG{n1} sent at {t1:.0f} ms reached the test at {got[0][0]:.0f} ms"
        if sc.get("child") and not any(s == signo for _, s in obs["sig_child"]):
            return f"descendant in the test's process group did not receive SIG{n1}: {obs['sig_child']}"
    else:
        if got:
            return f"grace period zero: expected SIGKILL, the test received {got}"
    if obs["rc"] == 0 and not (sc["on_term"] != "ignore" and False):
        # exit status must be non-zero unless the selected test passed
        if obs.get("result") not in ("pass", "leak"):
            return f"nextest exited 0 although the test result is {obs.get('result')}"
    # prompt exit: ignoring test => killed at grace (or at the second signal)
    if sc["on_term"] == "ignore":
        kill_at = t1 + grace
        if len(shut) > 1:
            kill_at = min(kill_at, shut[1][0])
        if obs["nextest_exit_t"] > kill_at + 2.5 * eps + 150:
            return f"nextest exited at {obs['nextest_exit_t']:.0f} ms, all units should be dead by {kill_at:.0f} ms"
        if obs["nextest_exit_t"] < kill_at - eps:
            return f"nextest exited at {obs['nextest_exit_t']:.0f} ms before the test could have been killed ({kill_at:.0f} ms)"
    if not any(k == "RunBeginCancel" for k, _ in obs["cancel_events"]):
        return "no RunBeginCancel event after a shutdown signal"
    return None


def oracle_C12(sc, obs, baseline=None):
    w = oracle_common(sc, obs)
    if w or not obs.get("started"):
        return w
    u = sc["u"]
    eps = 0.45 * u
    stops = stopped_intervals(sc)
    if not stops:
        return None
    dur = sc["dur"] * u
    t_stop, t_cont = stops[0]
    ended = obs.get("end_t") or obs["nextest_exit_t"]
    if t_stop > dur - eps or t_stop > ended - eps:
        return None  # the test was over (or had been terminated) before the stop
    if sc.get("stops", True):
        got = [s for _, s in obs["sig_test"]]
        if 20 not in got:
            return f"SIGTSTP sent to nextest but the test received {obs['sig_test']}"
        if 18 not in got and t_cont < 1e9:
            return f"SIGCONT sent to nextest but the test received {obs['sig_test']}"
    ended_while_stopped = not sc.get("stops", True) and dur < t_cont - eps
    if obs["paused_events"][:1] != ["RunPaused"] or \
            (obs["paused_events"][:2] != ["RunPaused", "RunContinued"] and not ended_while_stopped):
        return f"pause/continue events: {obs['paused_events']}"
    if obs.get("time_taken") is not None:
        wall = obs.get("end_t") or obs["nextest_exit_t"]
        running = unstopped(wall, stops)
        if obs["time_taken"] > running + eps + 60:
            return (f"reported time_taken {obs['time_taken']:.0f} ms includes stopped time "
                    f"(test ended at {wall:.0f} ms of which {running:.0f} ms not stopped)")
    if obs.get("run_elapsed") is not None:
        running = unstopped(obs["nextest_exit_t"], stops)
        if obs["run_elapsed"] > running + eps + 80:
            return (f"run-level elapsed time {obs['run_elapsed']:.0f} ms includes stopped time "
                    f"(nextest exited at {obs['nextest_exit_t']:.0f} ms of which {running:.0f} ms not stopped)")
    if sc.get("ta") and not any(n in SHUT for _, n in sc["sigs"]):
        deadline = sc["ta"] * sc["period"] * u
        for t, sg in obs["sig_test"]:
            if sg in (1, 2, 3, 15) and unstopped(t, stops) < deadline - eps:
                return (f"signal {sg} reached the test at {t:.0f} ms, after only {unstopped(t, stops):.0f} ms of "
                        f"running time; the deadline is {deadline:.0f} ms of running time")
    # the clocks keep working after resumption: a test that ignores SIGTERM is killed when
    # terminate-after periods plus the grace period of *running* time have passed
    period, ta, grace = sc["period"] * u, sc.get("ta"), sc["grace"] * u
    if ta and sc["on_term"] == "ignore" and not any(n in SHUT for _, n in sc["sigs"]) and sc.get("stops", True):
        need = ta * period + grace
        if dur > need + eps:
            t, acc, last = 0.0, 0.0, 0.0
            # real time at which `need` of running time has accumulated
            for a, b in stops:
                if acc + (a - last) >= need:
                    break
                acc += a - last
                last = b
            kill_at = last + (need - acc)
            if obs["nextest_exit_t"] > kill_at + 2.5 * eps + 150:
                return (f"test ignoring SIGTERM should be killed after {need:.0f} ms of running time (real time "
                        f"{kill_at:.0f} ms) but nextest exited at {obs['nextest_exit_t']:.0f} ms")
            if obs.get("result") != "timeout":
                return f"result {obs.get('result')} instead of timeout after stop/continue"
    if baseline is not None and baseline.get("result") != obs.get("result"):
        return f"result with pause {obs.get('result')} differs from result without pause {baseline.get('result')}"
    return None


# ---------------------------------------------------------------- driving a whole check

def regen_table():
    """run the translator; returns (ok, message). The generated file is only rewritten when its
    content changes, so the Coq build stays incremental."""
    binary, err = vlib.build_harness()
    if binary is None:
        return False, "harness build failed: " + err
    pt = os.path.join(os.path.dirname(binary), "pause_table")
    rc, o, e = vlib.sh([pt], timeout=120)
    if rc != 0:
        return False, "pause_table translator failed: " + (e or o)[-1500:]
    path = os.path.join(vlib.GEN, "GenPauseTable.v")
    if not os.path.exists(path) or open(path).read() != o:
        open(path, "w").write(o)
    return True, o


def first_bad_path():
    """shortest abstract event path to a bad transition for the regenerated table ([] if none)"""
    names = ["tick", "interval-expiry(terminate)", "interval-expiry", "grace-expiry", "leak-expiry",
             "child-exit(ok)", "child-exit(fail)", "pipes-closed", "Stop", "Continue", "Shutdown(INT)",
             "Shutdown(TERM)", "Shutdown(HUP)", "Shutdown(QUIT)", "Shutdown(second)", "OtherCancel", "GetInfo"]
    v = vlib.coq_eval("c12bad", ["Base.Str", "Model.Clocks", "Model.UnitTimers", "Model.AbsTimers",
                                 "gen.GenPauseTable"], ["first_bad_codes pause_table"])[0]
    return [names[c] for c in v[1:]] if v else []


def run_scenarios(rig, scs, par=4, timeout=40):
    out = [None] * len(scs)
    idx = list(range(len(scs)))
    lock = threading.Lock()

    def worker():
        while True:
            with lock:
                if not idx:
                    return
                i = idx.pop(0)
            res = run_real(rig, scs[i], timeout=timeout)
            out[i] = observe(scs[i], res)
            out[i]["_stderr_tail"] = res["stderr"][-600:]
            rig.cleanup(res)

    ths = [threading.Thread(target=worker) for _ in range(par)]
    for t in ths:
        t.start()
    for t in ths:
        t.join()
    return out


def check_family(chk, rig, scs, oracle, tag, retries=2):
    """correspondence + oracle over the scenarios; timing-dependent failures must reproduce with the
    time unit doubled (twice) before they count. Returns number of scenarios evaluated."""
    # keep only scenarios whose predicted outcome does not hinge on a coincidence of two instants:
    # the same qualitative prediction (result, slow flag, sequence of signals/events) must come out
    # when the test's own duration is 0.4 units shorter or longer
    def shape(p):
        return None if p.get("panicked") else (p["result"], p["slow"], [c for _, c in p["trace"]])
    lo = predict([dict(sc, dur=max(0.05, sc["dur"] - 0.4)) for sc in scs], tag + "lo")
    hi = predict([dict(sc, dur=sc["dur"] + 0.4) for sc in scs], tag + "hi")
    preds = predict(scs, tag)
    keep = [i for i in range(len(scs)) if shape(lo[i]) == shape(preds[i]) == shape(hi[i])]
    chk.count("scenarios_dropped_as_threshold_coincidences", len(scs) - len(keep))
    scs = [scs[i] for i in keep]
    preds = [preds[i] for i in keep]
    obss = run_scenarios(rig, scs)
    for sc, p, o in zip(scs, preds, obss):
        chk.count("e2e_runs")
        chk.count("on_term=" + (sc["on_term"] if isinstance(sc["on_term"], str) else sc["on_term"][0]))
        chk.count("signals=" + ",".join(n for _, n in sc["sigs"]) if sc["sigs"] else "signals=none")
        why = oracle(sc, o)
        diff = compare(sc, p, o) if o.get("started") else []
        if not why and not diff:
            continue
        # reproduce with a doubled time unit
        history = [dict(scenario=sc, observation=o, model=p, oracle=why, diff=diff)]
        cur = sc
        confirmed = True
        for _ in range(retries):
            cur = dict(cur, u=cur["u"] * 2)
            p2 = predict([cur], tag + "r")[0]
            o2 = run_scenarios(rig, [cur], par=1, timeout=80)[0]
            why2, diff2 = oracle(cur, o2), (compare(cur, p2, o2) if o2.get("started") else [])
            history.append(dict(scenario=cur, observation=o2, model=p2, oracle=why2, diff=diff2))
            chk.count("e2e_reruns")
            if not why2 and not diff2:
                confirmed = False
                break
        if not confirmed:
            chk.count("timing_flakes_not_reproduced")
            continue
        hard = [h for h in history if h["oracle"]]
        if hard:
            chk.violation("counterexample", "oracle:" + chk.prop, dict(clause=hard[0]["oracle"], runs=history))
        else:
            chk.violation("broken-obligation", "corr:unit-timers",
                          dict(note="nextest and the unit model disagree; the property oracle accepted the runs",
                               runs=history), no_input=True)
        return False
    return True
