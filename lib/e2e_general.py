"""General end-to-end scenarios over the scripted puppet workspace: several binaries and tests with
per-attempt behaviours, retries, fail-fast / max-fail, test threads, groups, priorities, optional
interrupt. One run feeds the oracles of several properties (C01, C02, C03, C07, C08, C10, C14, C15);
each oracle is written from the property text and uses only the scenario, the puppet's own log, the
event tap and the process exit status -- never a model."""
import json, os, signal, time, threading
import vlib, e2e

BINS = ["alpha::t1", "alpha::t2", "beta::t1", "beta::t2"]
PKG_DIR = {"alpha": "alpha", "beta": "beta"}
EPS = 0.06  # seconds


# ---------------------------------------------------------------- scenario generation

def gen_behaviour(r, kind, hang=2.0):
    """one attempt: returns (puppet behaviour dict, expected result kind)"""
    dur = r.choice([0.0, 0.02, 0.05, 0.12])
    if kind == "pass":
        return {"sleep": dur, "exit": 0}, "pass"
    if kind == "fail":
        code = r.choice([1, 2, 101, 255, 70, 69, 126, 127])   # 70 is also the launcher's own exec-failure code
        return {"sleep": dur, "exit": code}, "fail"
    if kind == "signal":
        sg = r.choice([signal.SIGSEGV, signal.SIGABRT, signal.SIGKILL, signal.SIGTERM, signal.SIGUSR2, signal.SIGUSR1,
                       signal.SIGBUS, signal.SIGHUP, signal.SIGSYS, signal.SIGFPE, signal.SIGILL, signal.SIGPIPE])
        return {"sleep": dur, "signal": int(sg)}, "fail"
    if kind == "hang":
        if r.random() < 0.5:
            # a graceful shutdown handler: exits with status 0 when nextest terminates it at its
            # deadline -- still a timeout ("timeout iff nextest terminated it for exceeding its limit")
            return {"sleep": hang, "exit": 0, "on_term": "exit", "term_exit": 0, "graceful": True}, "timeout"
        return {"sleep": hang, "exit": 0, "on_term": "die"}, "timeout"
    if kind == "leak":
        return {"sleep": dur, "exit": 0, "child": {"for": 0.5, "hold": ["stdout"]}}, "leak"
    if kind == "leakfail":
        # exits with a failure code AND a descendant keeps its output open past the leak timeout: a failure
        return {"sleep": dur, "exit": r.choice([1, 3, 101]), "child": {"for": 0.5, "hold": ["stdout"]}}, "fail"
    if kind == "daemon":
        # leaves a descendant behind that has closed stdout and stderr: nothing of the test's is held open -- a pass
        return {"sleep": dur, "exit": 0, "child": {"for": 0.6, "hold": []}}, "pass"
    raise ValueError(kind)


def gen_scenario(r, n_tests=None, allow_signal=True, allow_hang=True):
    n = n_tests if n_tests is not None else r.choice([1, 2, 3, 4, 5, 6, 8, 10])
    retries = r.choice([0, 0, 1, 2])
    delay_ms = r.choice([0, 0, 120, 250]) if retries else 0
    backoff = r.choice(["fixed", "exponential"]) if delay_ms else "fixed"
    tests = []
    names = [f"t{i:02d}_{r.choice(['a', 'b', 'c'])}" for i in range(n)]
    # some names contain a space (custom harnesses); every argument reaches the test process as one word
    names = [nm + " x" if r.random() < 0.12 else nm for nm in names]
    for i, nm in enumerate(names):
        b = r.choice(BINS)
        ignored = r.random() < 0.12
        mode = r.choices(["pass", "fail", "flaky", "signal", "hang", "leak", "leakfail", "daemon"],
                         [8, 3, 3, 1, 1 if allow_hang else 0, 1, 0.6, 0.6])[0]
        atts, exp = [], []
        if mode == "flaky":
            k = r.randint(1, 2)
            for _ in range(k):
                a, e = gen_behaviour(r, r.choice(["fail", "signal"]))
                atts.append(a); exp.append(e)
            a, e = gen_behaviour(r, "pass")
            atts.append(a); exp.append(e)
        else:
            a, e = gen_behaviour(r, mode)
            atts.append(a); exp.append(e)
        tests.append(dict(bin=b, name=nm, ignored=ignored, attempts=atts, expect=exp, mode=mode))
    ff = r.choice(["ff", "noff", "noff", "maxfail2"])
    threads = r.choice([1, 2, 4, 8])
    sc = dict(tests=tests, retries=retries, delay_ms=delay_ms, backoff=backoff, failfast=ff, threads=threads,
              filter=r.choice([None, None, None, None, "_a", "_b"]),
              run_ignored=r.choice(["default", "default", "default", "all", "all", "only"]),
              sigint_at=None, groups=None, priorities=None)
    # how threads / fail-fast / (delay-free) retries reach nextest: profile config, command line, or
    # environment -- with a different decoy value in the config when it is not the source ("the
    # command-line or environment value wins")
    r2 = __import__("random").Random(r.random())
    sc["via"] = dict(threads=r2.choices(["config", "cli", "env"], [6, 3, 2])[0],
                     failfast=r2.choices(["config", "cli"], [6, 4])[0],
                     retries=r2.choices(["config", "cli", "env"], [6, 2, 2])[0] if not delay_ms else "config")
    # run modes, crossed with everything else at low probability: units spawned without the launcher, a
    # machine-readable message format (combined capture), --no-capture (serial run), a negative thread count
    sc["direct_spawn"] = r2.random() < 0.15
    # (the experimental libtest-json reporter keeps a per-binary count of tests still to finish that does not
    # include ignored tests; with ignored tests in a binary it underflows -- a panic in debug builds. That is
    # outside the twenty properties (observation O3 in DESIGN 11.3), so those formats are only crossed with
    # scenarios that have no ignored test.)
    plain = sc["run_ignored"] == "default" and not any(t["ignored"] for t in tests)
    sc["message_format"] = r2.choice(["libtest-json", "libtest-json-plus"]) if plain and r2.random() < 0.12 else None
    if r2.random() < 0.08:
        # (--no-capture with a libtest-json format panics as soon as a test fails: "libtest output requires
        # CaptureStrategy::Combined" -- observation O4; that combination is only used by the directed
        # all-passing C08 scenarios)
        sc["no_capture"] = "human"
    if r2.random() < 0.12:
        nn = r2.choice([2, 3])
        sc["partition"] = f"{r2.choice(['count', 'hash'])}:{r2.randint(1, nn)}/{nn}"
    if sc["threads"] in (1, 2) and r2.random() < 0.3:
        sc["threads_spelling"] = f"-{max(ncpu() - sc['threads'], 0)}" if ncpu() > sc["threads"] else str(sc["threads"])
    if r.random() < 0.3 and n >= 3:
        # one test group with a max-threads limit, and threads-required on some tests
        sc["groups"] = dict(name="g1", max_threads=r.choice([1, 2]), members=r.choice(["_a", "_b", "_c"]),
                            heavy=r.choice([None, "_a", "_c"]), heavy_weight=r.choice([2, 2, "num-test-threads"]))
        if r2.random() < 0.4:
            sc["groups"]["tool"] = "vtool"      # the group comes from a tool's config file
    if r.random() < 0.3:
        sc["priorities"] = dict(high=r.choice(["_a", "_b", "_c"]), value=r.choice([10, 50]), low=r.choice(["_a", "_b", "_c"]))
    if allow_signal and r.random() < 0.15:
        sc["sigint_at"] = r.choice([0.05, 0.15, 0.3])
        for t in tests:
            for a in t["attempts"]:
                if a.pop("graceful", None):
                    # exiting 0 on the forwarded SIGINT would be a genuine pass; keep ground truth simple
                    a.update(on_term="die")
                    a.pop("term_exit", None)
    return sc


def puppet_scenario(sc):
    bins = {}
    for t in sc["tests"]:
        bins.setdefault(t["bin"], {"tests": {}})["tests"][t["name"]] = {
            "ignored": t["ignored"], "attempts": t["attempts"]}
    return {"bins": bins}


def nextest_config(sc, profile):
    lines = [f"[profile.{profile}]"]
    via = sc.get("via") or {}
    if sc.get("retry_only"):
        lines.append("retries = 0")
    elif via.get("retries", "config") != "config":
        lines.append(f"retries = {sc['retries'] + 2}")   # decoy: the forced value replaces it
    elif sc["retries"]:
        if sc["delay_ms"]:
            if sc["backoff"] == "fixed":
                lines.append(f'retries = {{ backoff = "fixed", count = {sc["retries"]}, delay = "{sc["delay_ms"]}ms" }}')
            else:
                lines.append(f'retries = {{ backoff = "exponential", count = {sc["retries"]}, delay = "{sc["delay_ms"]}ms" }}')
        else:
            lines.append(f'retries = {sc["retries"]}')
    else:
        lines.append("retries = 0")
    lines.append('slow-timeout = { period = "300ms", terminate-after = 2, grace-period = "%dms" }' % sc.get("grace_ms", 100))
    lines.append('leak-timeout = "150ms"')
    if via.get("threads", "config") == "config":
        lines.append(f'test-threads = {threads_text(sc)}')
    else:
        lines.append(f'test-threads = {8 if sc["threads"] == 1 else 1}')   # decoy
    ff = sc["failfast"]
    if via.get("failfast", "config") != "config":
        ff = {"ff": "noff", "noff": "ff", "maxfail2": "ff"}[ff]              # decoy
    if ff == "ff":
        lines.append("fail-fast = true")
    elif ff == "noff":
        lines.append("fail-fast = false")
    else:
        lines.append("fail-fast = { max-fail = 2 }")
    lines.append(f'[profile.{profile}.junit]\npath = "junit.xml"')
    g = sc.get("groups")
    if g:
        if not g.get("tool"):
            lines.insert(0, f'[test-groups]\n{g["name"]} = {{ max-threads = {g["max_threads"]} }}\n')
            lines.append(f'[[profile.{profile}.overrides]]\nfilter = "test({g["members"]})"\ntest-group = "{g["name"]}"')
        if g.get("heavy"):
            lines.append(f'[[profile.{profile}.overrides]]\nfilter = "test({g["heavy"]})"\nthreads-required = {json.dumps(g["heavy_weight"])}')
    if sc.get("retry_only"):
        lines.append(f'[[profile.{profile}.overrides]]\nfilter = "test({sc["retry_only"]})"\n'
                     f'retries = {{ backoff = "fixed", count = {sc["retries"]}, delay = "{sc["delay_ms"]}ms" }}')
    for pkg, n in (sc.get("pkg_retries") or {}).items():
        lines.append(f'[[profile.{profile}.overrides]]\nfilter = "package({pkg})"\nretries = {n}')
    p = sc.get("priorities")
    if p:
        lines.append(f'[[profile.{profile}.overrides]]\nfilter = "test({p["high"]})"\npriority = {p["value"]}')
        lines.append(f'[[profile.{profile}.overrides]]\nfilter = "test({p["low"]})"\npriority = -{p["value"]}')
    return "\n".join(lines) + "\n"


def group_name(g):
    """a group defined by a tool's config file is named @tool:<tool>:<name>, everywhere it is named"""
    return f'@tool:{g["tool"]}:{g["name"]}' if g.get("tool") else g["name"]


def tool_configs(sc):
    """the group (and the override that puts tests into it) defined by a tool's config file instead of the
    repository's: --tool-config-file <tool>:<path>"""
    g = sc.get("groups")
    if not g or not g.get("tool"):
        return ()
    name = group_name(g)
    return ((g["tool"],
             f'[test-groups]\n"{name}" = {{ max-threads = {g["max_threads"]} }}\n\n'
             f'[[profile.default.overrides]]\nfilter = "test({g["members"]})"\ntest-group = "{name}"\n'),)


def ncpu():
    """std::thread::available_parallelism as nextest sees it: scheduler affinity capped by the cgroup quota"""
    n = len(os.sched_getaffinity(0))
    try:
        q, per = open("/sys/fs/cgroup/cpu.max").read().split()
        if q != "max":
            n = max(1, min(n, -(-int(q) // int(per))))
    except (OSError, ValueError):
        pass
    return n


def threads_text(sc):
    """how the thread count is written: as a number, or as the documented negative form (num-cpus minus n, at least 1)"""
    return str(sc.get("threads_spelling", sc["threads"]))


def env_for(sc):
    env = {}
    via = sc.get("via") or {}
    if via.get("threads") == "env":
        env["NEXTEST_TEST_THREADS"] = threads_text(sc)
    if via.get("retries") == "env":
        env["NEXTEST_RETRIES"] = str(sc["retries"])
    if sc.get("no_capture") or sc.get("message_format"):
        env["NEXTEST_EXPERIMENTAL_LIBTEST_JSON"] = "1"
    if sc.get("direct_spawn"):
        env["NEXTEST_DOUBLE_SPAWN"] = "0"
    if sc.get("no_tests") and sc.get("no_tests_via") == "env":
        env["NEXTEST_NO_TESTS"] = sc["no_tests"]
    return env or None


def cli_args(sc, profile):
    a = ["--profile", profile]
    if sc["run_ignored"] == "all":
        a += ["--run-ignored", "all"]
    elif sc["run_ignored"] == "only":
        a += ["--run-ignored", "only"]
    if sc["filter"]:
        a += [sc["filter"]]
    via = sc.get("via") or {}
    if via.get("threads") == "cli":
        a += ["--test-threads=" + threads_text(sc)]
    if via.get("failfast") == "cli":
        a += {"ff": ["--fail-fast"], "noff": ["--no-fail-fast"], "maxfail2": ["--max-fail", "2"]}[sc["failfast"]]
    if via.get("retries") == "cli":
        a += ["--retries", str(sc["retries"])]
    if sc.get("partition"):
        a += ["--partition", sc["partition"]]
    if sc.get("message_format") and not sc.get("no_capture"):
        a += ["--message-format", sc["message_format"]]
    if sc.get("no_tests") and sc.get("no_tests_via") != "env":
        a += ["--no-tests", sc["no_tests"]]
    if sc.get("no_capture"):
        a += ["--no-capture"]
        if sc["no_capture"] != "human":
            a += ["--message-format", sc["no_capture"]]
    return a


# ---------------------------------------------------------------- ground truth from the scenario

def selected(sc):
    out = []
    for t in sc["tests"]:
        if sc["run_ignored"] == "default" and t["ignored"]:
            continue
        if sc["run_ignored"] == "only" and not t["ignored"]:
            continue
        if sc["filter"] and sc["filter"] not in t["name"]:
            continue
        out.append(t)
    part = sc.get("partition")
    if part:
        # the documented sharding, applied last: count = every n-th test in name order beginning with the m-th,
        # within each binary and separately for ignored and non-ignored tests; hash = xxh64(name) mod n
        kind, mn = part.split(":")
        m, n = (int(x) for x in mn.split("/"))
        if kind == "hash":
            from props.C13 import py_xxh64
            out = [t for t in out if py_xxh64(t["name"].encode()) % n == m - 1]
        else:
            keep = []
            for b in sorted({t["bin"] for t in out}):
                for cls in (False, True):
                    names = sorted(t["name"] for t in out if t["bin"] == b and t["ignored"] == cls)
                    keep += [(b, nm) for nm in names[m - 1::n]]
            out = [t for t in out if (t["bin"], t["name"]) in keep]
    return out


def expected_attempts(sc, t):
    """attempt result kinds if the test runs to its final result without cancellation"""
    total = sc["retries"] + 1
    if sc.get("retry_only") and sc["retry_only"] not in t["name"]:
        total = 1
    if sc.get("pkg_retries"):
        # retries given per package by overrides with a package() filter (the first matching override wins)
        total = sc["pkg_retries"].get(t["bin"].split("::")[0], sc["retries"]) + 1
    res = []
    for k in range(total):
        e = t["expect"][min(k, len(t["expect"]) - 1)]
        if e == "leak" and sc.get("no_capture"):
            e = "pass"   # without capture there are no pipes a descendant could hold open
        res.append(e)
        if e in ("pass", "leak"):
            break
    return res


def weight(sc, t):
    g = sc.get("groups")
    if g and g.get("heavy") and g["heavy"] in t["name"]:
        # "num-test-threads" = the thread count the run actually uses (command line / environment included)
        return sc["threads"] if g["heavy_weight"] == "num-test-threads" else g["heavy_weight"]
    return 1


def group_of(sc, t):
    g = sc.get("groups")
    if g and g["members"] in t["name"]:
        return group_name(g)
    return None


def priority_of(sc, t):
    p = sc.get("priorities")
    if not p:
        return 0
    if p["high"] in t["name"]:       # the first matching override wins
        return p["value"]
    if p["low"] in t["name"]:
        return -p["value"]
    return 0


# ---------------------------------------------------------------- running

_seq = [0]
_seq_lock = threading.Lock()


def run(rig, sc, timeout=60):
    with _seq_lock:
        _seq[0] += 1
        profile = f"g{os.getpid()}x{_seq[0]}"
    sigs = []
    if sc.get("sigint_at") is not None:
        # relative to the RunStarted event (nextest's signal handler is installed by then)
        t_run = [None]

        def trig(ctx):
            if t_run[0] is None:
                for e in e2e.read_jsonl(ctx["tap"]):
                    if e.get("kind") == "RunStarted" and "mono" in e:
                        t_run[0] = e["mono"]
            return t_run[0] is not None and time.monotonic() >= t_run[0] + sc["sigint_at"]
        sigs = [(trig, signal.SIGINT)]
    res = rig.run(puppet_scenario(sc), nextest_config(sc, profile), args=cli_args(sc, profile), signals=sigs,
                  timeout=timeout,
                  env_extra=env_for(sc), tool_configs=tool_configs(sc), no_binaries=bool(sc.get("no_binaries")))
    res["profile"] = profile
    jp = os.path.join(e2e.PUPPET, "target", "nextest", profile, "junit.xml")
    res["junit_path"] = jp
    res["junit"] = open(jp, errors="replace").read() if os.path.exists(jp) else None
    try:
        import shutil
        shutil.rmtree(os.path.dirname(jp), ignore_errors=True)
    except OSError:
        pass
    return res


def invocations(res):
    """puppet log grouped per (bin, test): list of dict(attempt, start, end, how, rec)"""
    inv = {}
    for r in res["log"]:
        if r.get("ev") == "start":
            inv.setdefault((r["bin"], r["test"]), []).append(dict(attempt=r["attempt"], start=r["t"], end=None,
                                                                how=None, rec=r))
    for r in res["log"]:
        if r.get("ev") == "end":
            for (b, tn), lst in inv.items():
                if tn == r.get("test"):
                    for i in lst:
                        if i["attempt"] == r.get("attempt") and i["rec"]["pid"] == r["pid"]:
                            i["end"], i["how"] = r["t"], r["how"]
    return inv


def tap_by_test(res):
    d = {}
    for e in res["tap"]:
        if "test" in e and isinstance(e["test"], list):
            d.setdefault((e["test"][0], e["test"][1]), []).append(e)
    return d


def cancelled(res):
    return [e for e in res["tap"] if e.get("kind") == "RunBeginCancel"]


def basic_failures(res):
    if res["timed_out"]:
        return "nextest did not exit within the time limit"
    if "panicked" in res["stderr"] or res["rc"] == 101:
        return "nextest failed internally: " + res["stderr"][-400:]
    return None


# ---------------------------------------------------------------- oracles

def oracle_C01(sc, res):
    w = basic_failures(res)
    if w:
        return w
    sel = selected(sc)
    inv = invocations(res)
    all_passed = True
    for t in sel:
        lst = inv.get((t["bin"], t["name"]), [])
        if not lst:
            all_passed = False
            continue
        last = max(lst, key=lambda i: i["attempt"])
        exp = expected_attempts(sc, t)
        # passing final attempt: the last invocation exited 0 by itself and was the expected passing one
        if not (last["how"] == "exit-0" and exp[-1] in ("pass", "leak") and last["attempt"] == len(exp)):
            all_passed = False
    if not sel:
        # no test selected: 4 under the default (and explicit fail) policy, success under pass / warn
        want = 0 if sc.get("no_tests") in ("pass", "warn") else 4
    elif all_passed:
        want = 0
    else:
        want = 100
    if res["rc"] != want:
        return (f"exit status {res['rc']}, expected {want}: selected {[t['name'] for t in sel]}, "
                f"all passed per the test processes' own log = {all_passed}")
    return None


def oracle_C02(sc, res):
    w = basic_failures(res)
    if w:
        return w
    sel = {(t["bin"], t["name"]): t for t in selected(sc)}
    allt = {(t["bin"], t["name"]): t for t in sc["tests"]}
    inv = invocations(res)
    tap = tap_by_test(res)
    canc = bool(cancelled(res))
    for key, t in allt.items():
        evs = tap.get(key, [])
        kinds = [e["kind"] for e in evs]
        if kinds.count("TestStarted") > 1 or kinds.count("TestFinished") > 1 or kinds.count("TestSkipped") > 1:
            return f"{key}: reported started/finished/skipped more than once: {kinds}"
        if "TestFinished" in kinds and "TestStarted" not in kinds:
            return f"{key}: finished without having started"
        if "TestFinished" in kinds and kinds.index("TestFinished") < kinds.index("TestStarted"):
            return f"{key}: finished before started"
        if key not in sel:
            if inv.get(key):
                return f"{key} is not selected but a process was spawned for it"
            if "TestStarted" in kinds:
                return f"{key} is not selected but was reported started"
            if "TestSkipped" not in kinds:
                return f"{key} is not selected but was not reported skipped: {kinds}"
            continue
        if "TestSkipped" in kinds:
            return f"{key} is selected but was reported skipped"
        lst = sorted(inv.get(key, []), key=lambda i: i["start"])
        nums = [i["attempt"] for i in lst]
        if nums != list(range(1, len(nums) + 1)) and not any(
                c["reason"] in ("interrupt", "signal", "second signal") for c in cancelled(res)):
            return f"{key}: attempt numbers of the spawned processes are {nums}"
        fin = [e for e in evs if e["kind"] == "TestFinished"]
        by_signal = any(c["reason"] in ("interrupt", "signal", "second signal") for c in cancelled(res))
        # (a process killed by a forwarded signal may die before it could write its start record)
        if fin and len(fin[0]["statuses"]) != len(nums) and t["mode"] != "hang" and not by_signal:
            return f"{key}: {len(nums)} processes but {len(fin[0]['statuses'])} reported attempts"
        for a, b in zip(lst, lst[1:]):
            if a["end"] is not None and b["start"] < a["end"] - 0.002:
                return f"{key}: attempts {a['attempt']} and {b['attempt']} overlap in time"
        if not canc:
            if kinds.count("TestStarted") != 1 or kinds.count("TestFinished") != 1:
                return f"{key}: run not cancelled but events are {kinds}"
            exp = expected_attempts(sc, t)
            if len(nums) != len(exp):
                return f"{key}: {len(nums)} attempts were made, expected {len(exp)} ({exp})"
    return None


def misnamed_signal(res, test_name, signo):
    import re
    right = signal.Signals(signo).name   # e.g. SIGUSR1
    for line in res["stderr"].splitlines():
        if not line.rstrip().endswith(" " + test_name):
            continue
        m = re.match(r"\s*(?:TRY \d+ )?(SIG[A-Z0-9]+)\b", line)
        if m and m.group(1) != right:
            return f"the status line says {m.group(1)}: {line.strip()[:120]}"
    for m in re.finditer(r"signal (\d+) \((SIG[A-Z0-9]+)\)", (res.get("junit") or "") + res["stderr"]):
        if int(m.group(1)) == signo and m.group(2) != right:
            return f"the report says 'signal {m.group(1)} ({m.group(2)})'"
    return None


def oracle_C03(sc, res):
    w = basic_failures(res)
    if w:
        return w
    tap = tap_by_test(res)
    if any(c["reason"] in ("interrupt", "signal", "second signal") for c in cancelled(res)):
        return None  # tests killed by the forwarded signal: covered by C11's scenarios
    for t in selected(sc):
        key = (t["bin"], t["name"])
        fin = [e for e in tap.get(key, []) if e["kind"] == "TestFinished"]
        if not fin:
            continue
        sts = fin[0]["statuses"]
        exp = expected_attempts(sc, t)
        for k, s in enumerate(sts):
            if k >= len(exp):
                return f"{key}: more attempts reported than expected"
            got = s["result"]["kind"]
            want = exp[k]
            beh = t["attempts"][min(k, len(t["attempts"]) - 1)]
            if got != want:
                # a run being cancelled by a signal kills tests: those attempts legitimately fail
                if cancelled(res) and any(c["reason"] in ("interrupt", "signal", "second signal") for c in cancelled(res)):
                    continue
                return f"{key} attempt {k + 1}: reported {got}, the process did {beh} (expected {want})"
            if want == "fail" and "signal" in beh and s["result"].get("signal") != beh["signal"]:
                return f"{key} attempt {k + 1}: died of signal {beh['signal']}, reported signal {s['result'].get('signal')}"
            if want == "fail" and "signal" in beh:
                # where the report NAMES a signal (status words, JUnit message) the name is this platform's name
                # of the signal that ended the process; a bare number is fine
                w = misnamed_signal(res, t["name"], beh["signal"])
                if w:
                    return f"{key} attempt {k + 1}: died of signal {beh['signal']} ({signal.Signals(beh['signal']).name}); {w}"
            if want == "fail" and "signal" not in beh and s["result"].get("signal") is not None:
                return f"{key} attempt {k + 1}: exited with a code but a signal {s['result'].get('signal')} is reported"
        last = sts[-1]["result"]["kind"]
        if not cancelled(res):
            if last != exp[-1]:
                return f"{key}: final result {last}, expected {exp[-1]}"
    return None


def oracle_C07(sc, res):
    w = basic_failures(res)
    if w:
        return w
    inv = invocations(res)
    canc = cancelled(res)
    t_cancel = min((c["mono"] for c in canc if "mono" in c), default=None)
    if canc:
        idx = res["tap"].index(canc[0])
        late = [e for e in res["tap"][idx + 1:] if e["kind"] == "TestRetryStarted"]
        if late:
            return f"retry of {late[0]['test']} started after the run began to be cancelled"
    for t in selected(sc):
        key = (t["bin"], t["name"])
        lst = sorted(inv.get(key, []), key=lambda i: i["attempt"])
        exp = expected_attempts(sc, t)
        allowed = (sc["pkg_retries"].get(t["bin"].split("::")[0], sc["retries"]) if sc.get("pkg_retries") else sc["retries"])
        if len(lst) > allowed + 1:
            return f"{key}: {len(lst)} attempts with retries = {allowed}"
        if len(lst) > len(exp):
            return f"{key}: an attempt was made after a passing one ({len(lst)} attempts, expected {exp})"
        if not canc and len(lst) != len(exp):
            return f"{key}: {len(lst)} attempts, expected {len(exp)}"
        for k, (a, b) in enumerate(zip(lst, lst[1:])):
            if a["end"] is None:
                continue
            d = sc["delay_ms"] / 1000.0
            if sc["backoff"] == "exponential":
                d = d * (2 ** k)
            if b["start"] - a["end"] < d - 0.005:
                return (f"{key}: attempt {b['attempt']} started {1000 * (b['start'] - a['end']):.0f} ms after attempt "
                        f"{a['attempt']} ended; configured delay {1000 * d:.0f} ms")
            if t_cancel is not None and b["start"] > t_cancel + 0.3:
                return f"{key}: attempt {b['attempt']} started after the run began to be cancelled"
    return None


def alive_intervals(sc, res):
    """[(start, end, test)] per invocation; the end of a killed process is bounded by the matching
    TestFinished / AttemptFailedWillRetry tap time"""
    inv = invocations(res)
    tap = tap_by_test(res)
    out = []
    for t in sc["tests"]:
        key = (t["bin"], t["name"])
        ends = sorted(e["mono"] for e in tap.get(key, []) if e["kind"] in ("TestFinished", "TestAttemptFailedWillRetry")
                      and "mono" in e)
        for i in inv.get(key, []):
            end = i["end"]
            if end is None:
                later = [x for x in ends if x >= i["start"]]
                end = later[0] if later else res["t_end"]
            out.append((i["start"], end, t, i))
    return out


def oracle_C08(sc, res):
    w = basic_failures(res)
    if w:
        return w
    iv = alive_intervals(sc, res)
    # with --no-capture at most one test runs at a time, whatever the configured thread count
    threads = 1 if sc.get("no_capture") else sc["threads"]
    g = sc.get("groups")
    points = sorted({s for s, _, _, _ in iv})
    for p in points:
        alive = [(t, i) for s, e, t, i in iv if s <= p < e - 0.003]
        tot = sum(min(weight(sc, t), threads) for t, _ in alive)
        if tot > threads:
            return (f"at t={p:.3f} the running tests {[t['name'] for t, _ in alive]} need {tot} threads, "
                    f"test-threads = {threads}")
        if g:
            gt = [t for t, _ in alive if group_of(sc, t)]
            gs = sum(min(weight(sc, t), g["max_threads"]) for t in gt)
            if gs > g["max_threads"]:
                return f"at t={p:.3f} group {g['name']} runs {[t['name'] for t in gt]} (weight {gs}) > max-threads {g['max_threads']}"
    if threads == 1 and not cancelled(res):
        # serial execution: start order = priority desc, then binary id, then test name
        first = {}
        for s, e, t, i in iv:
            if i["attempt"] == 1:
                first[(t["bin"], t["name"])] = s
        sel = [t for t in selected(sc) if (t["bin"], t["name"]) in first]
        got = [t["name"] for t in sorted(sel, key=lambda t: first[(t["bin"], t["name"])])]
        want = [t["name"] for t in sorted(sel, key=lambda t: (-priority_of(sc, t), t["bin"], t["name"]))]
        if got != want:
            return f"serial start order {got}, expected by priority / binary id / name {want}"
    return None


def oracle_C14(sc, res):
    w = basic_failures(res)
    if w:
        return w
    iv = alive_intervals(sc, res)
    g = sc.get("groups")
    slots = {}
    for s, e, t, i in iv:
        env = i["rec"]["env"]
        gs, grp, gslot = env.get("NEXTEST_TEST_GLOBAL_SLOT"), env.get("NEXTEST_TEST_GROUP"), env.get("NEXTEST_TEST_GROUP_SLOT")
        key = (t["bin"], t["name"])
        if gs is None or not gs.isdigit():
            return f"{key}: NEXTEST_TEST_GLOBAL_SLOT = {gs!r}"
        if int(gs) >= sc["threads"]:
            return f"{key}: global slot {gs} with test-threads {sc['threads']}"
        want_grp = group_of(sc, t) or "@global"
        if grp != want_grp:
            return f"{key}: NEXTEST_TEST_GROUP = {grp!r}, expected {want_grp!r}"
        if group_of(sc, t):
            if gslot is None or not gslot.isdigit() or int(gslot) >= g["max_threads"]:
                return f"{key}: group slot {gslot!r} with max-threads {g['max_threads']}"
        elif gslot != "none":
            return f"{key}: NEXTEST_TEST_GROUP_SLOT = {gslot!r} for a test outside any group"
        if key in slots and slots[key] != (gs, gslot):
            return f"{key}: slots changed between attempts: {slots[key]} then {(gs, gslot)}"
        slots[key] = (gs, gslot)
    for a in range(len(iv)):
        for b in range(a + 1, len(iv)):
            s1, e1, t1, i1 = iv[a]
            s2, e2, t2, i2 = iv[b]
            if (t1["bin"], t1["name"]) == (t2["bin"], t2["name"]):
                continue
            if max(s1, s2) < min(e1, e2) - 0.004:
                if i1["rec"]["env"].get("NEXTEST_TEST_GLOBAL_SLOT") == i2["rec"]["env"].get("NEXTEST_TEST_GLOBAL_SLOT"):
                    return (f"{t1['name']} and {t2['name']} alive at the same time share global slot "
                            f"{i1['rec']['env'].get('NEXTEST_TEST_GLOBAL_SLOT')}")
                if group_of(sc, t1) and group_of(sc, t1) == group_of(sc, t2) and \
                        i1["rec"]["env"].get("NEXTEST_TEST_GROUP_SLOT") == i2["rec"]["env"].get("NEXTEST_TEST_GROUP_SLOT"):
                    return f"{t1['name']} and {t2['name']} alive at the same time share a group slot"
    # compact: each global slot is the smallest one free when the test was dispatched. A test holds its slot from
    # its dispatch (shortly before its first process starts) until its last attempt has been dealt with (retry
    # delays and the leak check included), so slot j counts as taken at time s when some other test with slot j
    # started before s (+ spawn latency) and had not ended 0.3 s before s.
    span = {}
    for s0, e0, t0, i0 in iv:
        key = (t0["bin"], t0["name"])
        gs = i0["rec"]["env"].get("NEXTEST_TEST_GLOBAL_SLOT")
        a = span.get(key)
        span[key] = (min(a[0], s0) if a else s0, max(a[1], e0) if a else e0, int(gs))
    tapd = tap_by_test(res)
    for key in list(span):
        fin = [e["mono"] for e in tapd.get(key, []) if e["kind"] == "TestFinished" and "mono" in e]
        if fin:
            span[key] = (span[key][0], max(span[key][1], fin[-1]), span[key][2])
        else:
            span[key] = (span[key][0], res["t_end"], span[key][2])   # never reported finished: held to the end
    if True:
        for key, (s0, e0, k) in span.items():
            for j in range(k):
                if not any(o != key and oj == j and os_ < s0 + 0.05 and oe > s0 - 0.3 for o, (os_, oe, oj) in span.items()):
                    return (f"{key} was given global slot {k} although slot {j} was free when it was dispatched "
                            f"(no other test holding slot {j} was alive around its start)")
    return None


def oracle_C15(sc, res):
    w = basic_failures(res)
    if w:
        return w
    run_ids = set()
    for (b, tn), lst in invocations(res).items():
        t = [x for x in sc["tests"] if x["bin"] == b and x["name"] == tn][0]
        for i in lst:
            rec = i["rec"]
            want = ["--exact", tn, "--nocapture"] + (["--ignored"] if t["ignored"] else [])
            if rec["argv"][:len(want)] != want or len(rec["argv"]) != len(want):
                return f"{b} {tn}: argv {rec['argv']}, expected {want}"
            pkg = b.split("::")[0]
            if os.path.realpath(rec["cwd"]) != os.path.realpath(os.path.join(e2e.PUPPET, PKG_DIR[pkg])):
                return f"{b} {tn}: cwd {rec['cwd']}"
            if rec["pgid"] != rec["pid"]:
                return f"{b} {tn}: not the leader of its own process group (pid {rec['pid']}, pgid {rec['pgid']})"
            if rec["stdin"] != "/dev/null":
                return f"{b} {tn}: stdin is {rec['stdin']}"
            env = rec["env"]
            for k, v in (("NEXTEST", "1"), ("NEXTEST_EXECUTION_MODE", "process-per-test"),
                         ("NEXTEST_PROFILE", res["profile"]), ("CARGO_PKG_NAME", pkg),
                         ("CARGO_PKG_VERSION", "0.1.0")):
                if env.get(k) != v:
                    return f"{b} {tn}: {k} = {env.get(k)!r}, expected {v!r}"
            if os.path.realpath(env.get("CARGO_MANIFEST_DIR", "")) != os.path.realpath(os.path.join(e2e.PUPPET, PKG_DIR[pkg])):
                return f"{b} {tn}: CARGO_MANIFEST_DIR = {env.get('CARGO_MANIFEST_DIR')!r}"
            run_ids.add(env.get("NEXTEST_RUN_ID"))
            if int(env.get("__NEXTEST_ATTEMPT", "0")) != i["attempt"]:
                return f"{b} {tn}: attempt numbering"
    if len(run_ids) > 1 or (run_ids and None in run_ids):
        return f"NEXTEST_RUN_ID differs between tests of one run: {run_ids}"
    return None


def oracle_C10(sc, res):
    w = basic_failures(res)
    if w:
        return w
    canc = cancelled(res)
    order = {"setup script failure": 0, "test failure": 1, "reporting error": 2, "signal": 3, "interrupt": 4,
             "second signal": 5}
    reasons = [order[c["reason"]] for c in canc]
    if any(b <= a for a, b in zip(reasons, reasons[1:])):
        return f"cancellation reasons do not strictly escalate: {[c['reason'] for c in canc]}"
    tap = res["tap"]
    if canc:
        idx = tap.index(canc[0])
        later = [e["kind"] for e in tap[idx + 1:] if e["kind"] in ("TestStarted", "TestRetryStarted", "SetupScriptStarted")]
        if later:
            return f"after RunBeginCancel({canc[0]['reason']}) nextest still reported {later}"
        t_c = canc[0].get("mono")
        if t_c is not None:
            for (b, tn), lst in invocations(res).items():
                for i in lst:
                    if i["start"] > t_c + 0.3:
                        return f"{tn} attempt {i['attempt']} was spawned {1000 * (i['start'] - t_c):.0f} ms after cancellation began"
    # tests already running are left to finish unless the cause is a signal: every process alive when a
    # non-signal cancellation began ends the way it was scripted to (its own exit code / its own signal)
    if canc and all(c["reason"] in ("setup script failure", "test failure", "reporting error") for c in canc) \
            and canc[0].get("mono") is not None and not res["timed_out"]:
        t_c = canc[0]["mono"]
        behs = {(t["bin"], t["name"]): t["attempts"] for t in sc["tests"]}
        for key, lst in invocations(res).items():
            for i in lst:
                if i["start"] < t_c and (i["end"] is None or i["end"] > t_c):
                    atts = behs.get(key) or [{}]
                    beh = atts[min(i["attempt"] - 1, len(atts) - 1)]
                    if "on_term" in beh:
                        # scripted to outlive its deadline (600 ms): ended by its own timeout, not by the
                        # cancellation -- unless it ignores SIGTERM and would have finished by itself within
                        # the grace period: then it must be left to do so
                        natural = i["start"] + beh.get("sleep", 0)
                        grace_end = i["start"] + 0.6 + sc.get("grace_ms", 100) / 1000.0
                        if not (beh["on_term"] == "ignore" and natural < grace_end - 0.3):
                            continue
                    how = i["how"] or "no end record (killed)"
                    if not (how.startswith("exit-") and how[5:].isdigit()) and not how.startswith("raise-"):
                        return (f"{key} attempt {i['attempt']} was running when the run was cancelled "
                                f"({canc[0]['reason']}) and did not finish by itself: {how}")
    # the run ends as soon as the running tests have ended rather than sitting out retry delays
    if canc and not res["timed_out"]:
        ends = [i["end"] for lst in invocations(res).values() for i in lst if i["end"] is not None]
        fins = [e["mono"] for e in tap if e["kind"] in ("TestFinished", "TestAttemptFailedWillRetry") and "mono" in e]
        last = max(ends + fins, default=None)
        if last is not None and res["t_end"] - last > 0.6 and sc["delay_ms"] >= 1000:
            return (f"the run was cancelled ({canc[0]['reason']}) and the last test process ended, but nextest exited "
                    f"{1000 * (res['t_end'] - last):.0f} ms later (retry delay {sc['delay_ms']} ms)")
    # fail-fast / max-fail exactness, from the TestFinished stream
    limit = {"ff": 1, "noff": None, "maxfail2": 2}[sc["failfast"]]
    fails = 0
    for i, e in enumerate(tap):
        if e["kind"] == "TestFinished":
            if e["statuses"][-1]["result"]["kind"] not in ("pass", "leak"):
                fails += 1
                if limit is not None and fails == limit:
                    nxt = [x for x in tap[i + 1:i + 3] if x["kind"] == "RunBeginCancel"]
                    already = [x for x in tap[:i] if x["kind"] == "RunBeginCancel"]
                    if not nxt and not already:
                        return f"failure number {fails} reached max-fail {limit} but no RunBeginCancel followed"
        if e["kind"] == "RunBeginCancel" and e["reason"] == "test failure":
            if limit is None:
                return "run cancelled for test failure although fail-fast is off"
            if fails < limit:
                return f"run cancelled for test failure after {fails} failures, max-fail = {limit}"
    return None


ORACLES = {"C06": lambda sc, res: oracle_C07(sc, res), "C01": oracle_C01, "C02": oracle_C02, "C03": oracle_C03, "C07": oracle_C07, "C08": oracle_C08,
           "C10": oracle_C10, "C14": oracle_C14, "C15": oracle_C15}


def directed(prop):
    """fixed scenarios that every run of a property's stage includes"""
    out = []
    if prop in ("C08", "C14"):
        # a group whose max-threads is smaller than the threads-required of one of its members, with
        # enough other members queued that the group limit is what holds them back
        tests = [dict(bin="alpha::t1", name=f"t{i:02d}_a", ignored=False, attempts=[{"sleep": 0.18, "exit": 0}],
                      expect=["pass"], mode="pass") for i in range(7)]
        out.append(dict(tests=tests, retries=0, delay_ms=0, backoff="fixed", failfast="noff", threads=4, filter=None,
                        run_ignored="default", sigint_at=None, priorities=None,
                        groups=dict(name="g1", max_threads=2, members="_a", heavy="t00_a", heavy_weight=3)))
        tests2 = [dict(bin=b, name=f"t{i:02d}_b", ignored=False, attempts=[{"sleep": 0.12, "exit": 0}],
                       expect=["pass"], mode="pass") for i, b in enumerate(["beta::t1", "alpha::t2", "beta::t2", "alpha::t1",
                                                                             "beta::t1", "alpha::t2"])]
        out.append(dict(tests=tests2, retries=1, delay_ms=0, backoff="fixed", failfast="noff", threads=8, filter=None,
                        run_ignored="default", sigint_at=None, priorities=None,
                        groups=dict(name="g1", max_threads=1, members="_b", heavy="t01_b", heavy_weight=8)))
        # the group is defined by a tool's config file: its name is @tool:vtool:serial wherever it is named
        tests2t = [dict(t, name=t["name"].replace("_b", "_t")) for t in tests2]
        out.append(dict(tests=tests2t, retries=0, delay_ms=0, backoff="fixed", failfast="noff", threads=4, filter=None,
                        run_ignored="default", sigint_at=None, priorities=None,
                        groups=dict(name="serial", tool="vtool", max_threads=2, members="_t", heavy=None,
                                    heavy_weight=2)))
    if prop == "C08":
        # --no-capture serialises the run under every message format
        for fmt in ("human", "libtest-json", "libtest-json-plus"):
            tests3 = [dict(bin=b, name=f"t{i:02d}_c", ignored=False, attempts=[{"sleep": 0.2, "exit": 0}],
                           expect=["pass"], mode="pass")
                      for i, b in enumerate(["alpha::t1", "alpha::t2", "beta::t1", "beta::t2"])]
            out.append(dict(tests=tests3, retries=0, delay_ms=0, backoff="fixed", failfast="noff", threads=4,
                            filter=None, run_ignored="default", sigint_at=None, priorities=None, groups=None,
                            no_capture=fmt))
    if prop in ("C10", "C07", "C02", "C01"):
        # an attempt that fails *after* the cancellation request has already reached its unit
        tests = [dict(bin="alpha::t1", name="t00_a", ignored=False, attempts=[{"sleep": 0.1, "exit": 1}],
                      expect=["fail"], mode="fail"),
                 dict(bin="beta::t1", name="t01_b", ignored=False, attempts=[{"sleep": 0.45, "exit": 1}],
                      expect=["fail"], mode="fail")]
        out.append(dict(tests=tests, retries=1, delay_ms=1500, backoff="fixed", failfast="ff", threads=2, filter=None,
                        run_ignored="default", sigint_at=None, priorities=None, groups=None,
                        retry_only="t01_b"))
        # a cancellation that arrives while a unit is waiting out its retry delay: no further attempt,
        # and certainly none sooner than the configured delay
        tests = [dict(bin="alpha::t1", name="t00_a", ignored=False, attempts=[{"sleep": 0.05, "exit": 1}],
                      expect=["fail"], mode="fail"),
                 dict(bin="beta::t1", name="t01_b", ignored=False, attempts=[{"sleep": 0.5, "exit": 1}],
                      expect=["fail"], mode="fail")]
        out.append(dict(tests=tests, retries=1, delay_ms=1500, backoff="fixed", failfast="ff", threads=2, filter=None,
                        run_ignored="default", sigint_at=None, priorities=None, groups=None,
                        retry_only="t00_a"))
        tests = [dict(bin="alpha::t1", name="t00_a", ignored=False, attempts=[{"sleep": 0.05, "exit": 1}],
                      expect=["fail"], mode="fail"),
                 dict(bin="beta::t1", name="t01_b", ignored=False, attempts=[{"sleep": 2.0, "exit": 0, "on_term": "die"}],
                      expect=["pass"], mode="pass")]
        out.append(dict(tests=tests, retries=1, delay_ms=1500, backoff="fixed", failfast="noff", threads=2, filter=None,
                        run_ignored="default", sigint_at=0.6, priorities=None, groups=None,
                        retry_only="t00_a"))
    if prop in ("C08", "C14"):
        # negative thread counts: "num-cpus minus n, but at least one" -- n = num-cpus gives ONE thread (slot 0,
        # tests one at a time), n = num-cpus - 2 gives two; from the config, the command line and the environment
        n = ncpu()
        for spell, eff, via in ((f"-{n}", 1, "config"), (f"-{n}", 1, "cli"), (f"-{n}", 1, "env"), (f"-{n + 3}", 1, "cli"),
                                (f"-{max(n - 2, 0)}", 2 if n > 2 else n, "env")):
            tests = [dict(bin=b, name=f"t{i:02d}_n", ignored=False, attempts=[{"sleep": 0.15, "exit": 0}],
                          expect=["pass"], mode="pass")
                     for i, b in enumerate(["alpha::t1", "alpha::t2", "beta::t1", "beta::t2", "alpha::t1"])]
            out.append(dict(tests=tests, retries=0, delay_ms=0, backoff="fixed", failfast="noff", threads=eff,
                            threads_spelling=spell, filter=None, run_ignored="default", sigint_at=None, priorities=None,
                            groups=None, via=dict(threads=via, failfast="config", retries="config")))
    if prop in ("C10", "C09"):
        # a non-signal cancellation that begins while a unit is in the grace period of its timeout
        # termination: the unit is still left alone (it ignores SIGTERM and ends by itself inside the grace period)
        tests = [dict(bin="alpha::t1", name="t00_a", ignored=False,
                      attempts=[{"sleep": 1.6, "exit": 0, "on_term": "ignore"}], expect=["timeout"], mode="hang"),
                 dict(bin="beta::t1", name="t01_b", ignored=False, attempts=[{"sleep": 0.95, "exit": 1}],
                      expect=["fail"], mode="fail")]
        out.append(dict(tests=tests, retries=0, delay_ms=0, backoff="fixed", failfast="ff", threads=2, filter=None,
                        run_ignored="default", sigint_at=None, priorities=None, groups=None, grace_ms=3000))
    if prop == "C03":
        # death by signals whose numbers differ between platforms (10 / 12 are USR1 / USR2 on Linux, BUS / SYS on
        # BSD): wherever the report names the signal, it is the right name
        tests = [dict(bin="alpha::t1", name=f"t{i:02d}_s", ignored=False, attempts=[{"sleep": 0.0, "signal": int(sg)}],
                      expect=["fail"], mode="signal")
                 for i, sg in enumerate([signal.SIGUSR1, signal.SIGUSR2, signal.SIGBUS, signal.SIGSYS, signal.SIGHUP])]
        out.append(dict(tests=tests, retries=0, delay_ms=0, backoff="fixed", failfast="noff", threads=2, filter=None,
                        run_ignored="default", sigint_at=None, priorities=None, groups=None))
    if prop in ("C06", "C07"):
        # two binaries with the same binary NAME (t1) in different packages, settings given per package: each
        # test gets its own package's retries (alpha: 0, beta: 2), whichever binary is looked at first
        tests = [dict(bin="alpha::t1", name="t00_a", ignored=False, attempts=[{"sleep": 0.02, "exit": 1}], expect=["fail"], mode="fail"),
                 dict(bin="beta::t1", name="t01_b", ignored=False,
                      attempts=[{"sleep": 0.02, "exit": 1}, {"sleep": 0.02, "exit": 1}, {"sleep": 0.02, "exit": 0}],
                      expect=["fail", "fail", "pass"], mode="flaky"),
                 dict(bin="beta::t2", name="t02_c", ignored=False, attempts=[{"sleep": 0.02, "exit": 1}, {"sleep": 0.02, "exit": 0}],
                      expect=["fail", "pass"], mode="flaky")]
        out.append(dict(tests=tests, retries=0, delay_ms=0, backoff="fixed", failfast="noff", threads=2, filter=None,
                        run_ignored="default", sigint_at=None, priorities=None, groups=None,
                        pkg_retries={"beta": 2, "alpha": 0}))
    if prop in ("C07", "C03"):
        # attempts that time out are failed attempts too: retried like any other (hang once, then pass; hang always)
        tests = [dict(bin="alpha::t1", name="t00_a", ignored=False,
                      attempts=[{"sleep": 2.0, "exit": 0, "on_term": "die"}, {"sleep": 0.02, "exit": 0}],
                      expect=["timeout", "pass"], mode="flaky"),
                 dict(bin="beta::t1", name="t01_b", ignored=False,
                      attempts=[{"sleep": 2.0, "exit": 0, "on_term": "die"}], expect=["timeout"], mode="hang"),
                 dict(bin="beta::t2", name="t02_c", ignored=False, attempts=[{"sleep": 0.02, "exit": 70}, {"sleep": 0.02, "exit": 0}],
                      expect=["fail", "pass"], mode="flaky")]
        out.append(dict(tests=tests, retries=1, delay_ms=0, backoff="fixed", failfast="noff", threads=3, filter=None,
                        run_ignored="default", sigint_at=None, priorities=None, groups=None))
    if prop in ("C08", "C14"):
        # threads-required = "num-test-threads" with the thread count raised on the command line / in the
        # environment above the profile's: the exclusive test runs alone
        for via in ("cli", "env"):
            tests = [dict(bin=b, name=f"t{i:02d}_{'a' if i == 2 else 'b'}", ignored=False,
                          attempts=[{"sleep": 0.25, "exit": 0}], expect=["pass"], mode="pass")
                     for i, b in enumerate(["alpha::t1", "alpha::t1", "alpha::t2", "beta::t1", "beta::t1", "beta::t2"])]
            out.append(dict(tests=tests, retries=0, delay_ms=0, backoff="fixed", failfast="noff", threads=4, filter=None,
                            run_ignored="default", sigint_at=None,
                            priorities=dict(high="t00", value=10, low="t05"),
                            groups=dict(name="g1", max_threads=4, members="_zz", heavy="_a", heavy_weight="num-test-threads"),
                            via=dict(threads=via, failfast="config", retries="config")))
    if prop in ("C02", "C17"):
        # a signal-cancelled run still reports every unselected test as skipped (the queue is walked to its
        # end): unselected tests lie behind the test that is running when SIGINT arrives
        tests = [dict(bin="alpha::t1", name="t00_a", ignored=False,
                      attempts=[{"sleep": 1.5, "exit": 0, "on_term": "die"}], expect=["pass"], mode="pass")]
        # (the next selected test is already held by the scheduler; the unselected ones come after it)
        tests += [dict(bin="alpha::t1", name="t01_a", ignored=False, attempts=[{"sleep": 0.02, "exit": 0}],
                       expect=["pass"], mode="pass")]
        tests += [dict(bin="alpha::t1", name=f"t{i:02d}_b", ignored=False, attempts=[{"sleep": 0.02, "exit": 0}],
                       expect=["pass"], mode="pass") for i in range(2, 6)]
        tests += [dict(bin="beta::t1", name="t07_b", ignored=True, attempts=[{"sleep": 0.02, "exit": 0}],
                       expect=["pass"], mode="pass"),
                  dict(bin="beta::t1", name="t06_a", ignored=False, attempts=[{"sleep": 0.02, "exit": 0}],
                       expect=["pass"], mode="pass")]
        out.append(dict(tests=tests, retries=0, delay_ms=0, backoff="fixed", failfast="noff", threads=1, filter="_a",
                        run_ignored="default", sigint_at=0.4, priorities=None, groups=None))
    if prop in ("C02", "C15"):
        # names made of several words, next to tests named like the single words: exactly the selected one runs
        tests = [dict(bin="alpha::t1", name=nm, ignored=False, attempts=[{"sleep": 0.0, "exit": 0}], expect=["pass"],
                      mode="pass") for nm in ("alpha", "alpha beta", "beta", "gamma  delta")]
        out.append(dict(tests=tests, retries=0, delay_ms=0, backoff="fixed", failfast="noff", threads=2, filter="a b",
                        run_ignored="default", sigint_at=None, priorities=None, groups=None))
    if prop in ("C01", "C02", "C17"):
        # sharded runs: the tests of the other shards are not part of the selection (an all-passing shard exits 0,
        # they are reported skipped, none of them runs)
        for part in ("count:1/2", "count:2/2", "hash:1/3"):
            tests = [dict(bin=b, name=f"t{i:02d}_p", ignored=(i == 3), attempts=[{"sleep": 0.0, "exit": 0}],
                          expect=["pass"], mode="pass")
                     for i, b in enumerate(["alpha::t1", "alpha::t1", "alpha::t1", "alpha::t1", "beta::t1", "beta::t1", "beta::t2"])]
            out.append(dict(tests=tests, retries=0, delay_ms=0, backoff="fixed", failfast="noff", threads=2, filter=None,
                            run_ignored="all", sigint_at=None, priorities=None, groups=None, partition=part))
    if prop in ("C01", "C02"):
        # an empty selection under each no-tests policy (command line and environment); every listed test is
        # still reported skipped
        for pol, via in (("pass", "cli"), ("warn", "env"), ("fail", "cli"), (None, None)):
            tests = [dict(bin="alpha::t1", name="t00_a", ignored=False, attempts=[{"sleep": 0.0, "exit": 0}],
                          expect=["pass"], mode="pass"),
                     dict(bin="beta::t1", name="t01_b", ignored=True, attempts=[{"sleep": 0.0, "exit": 1}],
                          expect=["fail"], mode="fail")]
            out.append(dict(tests=tests, retries=0, delay_ms=0, backoff="fixed", failfast="noff", threads=2,
                            filter="matches_nothing", run_ignored="default", sigint_at=None, priorities=None,
                            groups=None, no_tests=pol, no_tests_via=via))
    if prop in ("C01", "C02"):
        # nothing to select from: binaries that list no test, and a build that produced no test binary at all
        for pol, via, nob in (("pass", "env", True), ("warn", "cli", False), ("fail", "env", True), (None, None, True),
                              (None, None, False)):
            out.append(dict(tests=[], retries=0, delay_ms=0, backoff="fixed", failfast="noff", threads=2,
                            filter=None, run_ignored="default", sigint_at=None, priorities=None,
                            groups=None, no_tests=pol, no_tests_via=via, no_binaries=nob))
    if prop in ("C01", "C03"):
        # a failing exit code together with leaked handles is a failure (exit status 100); a descendant that holds
        # nothing of the test's open is no leak -- under split and under combined capture, with sibling tests being
        # spawned all the while
        for fmt in (None, "libtest-json"):
            tests = [dict(bin="alpha::t1", name="t00_a", ignored=False,
                          attempts=[{"sleep": 0.05, "exit": 3, "child": {"for": 0.5, "hold": ["stdout"]}}],
                          expect=["fail"], mode="leakfail"),
                     dict(bin="beta::t1", name="t01_b", ignored=False,
                          attempts=[{"sleep": 0.05, "exit": 0, "child": {"for": 0.7, "hold": []}}],
                          expect=["pass"], mode="daemon"),
                     dict(bin="alpha::t2", name="t02_c", ignored=False,
                          attempts=[{"sleep": 0.05, "exit": 0, "child": {"for": 0.5, "hold": ["stdout"]}}],
                          expect=["leak"], mode="leak")]
            tests += [dict(bin=b, name=f"t{i:02d}_a", ignored=False, attempts=[{"sleep": 0.02 * (i % 5), "exit": 0}],
                           expect=["pass"], mode="pass")
                      for i, b in enumerate(["alpha::t1", "beta::t1", "alpha::t2", "beta::t2"] * 4, start=3)]
            sc_ = dict(tests=tests, retries=0, delay_ms=0, backoff="fixed", failfast="noff", threads=6, filter=None,
                       run_ignored="default", sigint_at=None, priorities=None, groups=None)
            if fmt:
                sc_["message_format"] = fmt
            out.append(sc_)
    if prop in ("C01", "C03", "C17"):
        # terminated by nextest at its deadline, exits with status 0 within the grace period: the attempt
        # timed out, the run failed (exit status 100)
        tests = [dict(bin="alpha::t1", name="t00_a", ignored=False,
                      attempts=[{"sleep": 2.0, "exit": 0, "on_term": "exit", "term_exit": 0}],
                      expect=["timeout"], mode="hang"),
                 dict(bin="beta::t1", name="t01_b", ignored=False, attempts=[{"sleep": 0.05, "exit": 0}],
                      expect=["pass"], mode="pass")]
        out.append(dict(tests=tests, retries=0, delay_ms=0, backoff="fixed", failfast="noff", threads=2, filter=None,
                        run_ignored="default", sigint_at=None, priorities=None, groups=None))
    return out


def stage(chk, prop, tier, seed, n_quick=14, n_thorough=120, par=4, gen=None):
    """run generated scenarios and apply the oracle of one property; reports at most one violation"""
    rig = e2e.Rig()
    r = vlib.rng_for(seed, "e2e-general-" + prop)
    n = n_thorough if tier == "thorough" else n_quick
    scs = directed(prop) + [(gen or gen_scenario)(r) for _ in range(n)]
    n = len(scs)
    results = [None] * n
    idx = list(range(n))
    lock = threading.Lock()

    def worker():
        while True:
            with lock:
                if not idx:
                    return
                i = idx.pop(0)
            res = run(rig, scs[i])
            results[i] = res

    ths = [threading.Thread(target=worker) for _ in range(par)]
    [t.start() for t in ths]
    [t.join() for t in ths]
    oracle = ORACLES[prop]
    bad = None
    for sc, res in zip(scs, results):
        chk.count("e2e_general_runs")
        chk.count("e2e_failfast=" + sc["failfast"])
        if sc.get("groups"):
            chk.count("e2e_group_runs=" + ("tool-config" if sc["groups"].get("tool") else "repo-config"))
            seen = {i["rec"]["env"].get("NEXTEST_TEST_GROUP") for _, _, _, i in alive_intervals(sc, res)}
            if any(x and x.startswith("@tool:") for x in seen):
                chk.count("e2e_runs_with_tool_group_seen_in_child_env")
        if cancelled(res):
            chk.count("e2e_cancelled_runs")
        why = oracle(sc, res)
        if why and bad is None:
            # confirm once more (schedules differ between runs; a real violation of an all-schedules
            # property may not repeat, so the first observation is what is reported)
            bad = (sc, res, why)
        rig.cleanup(res)
    if bad:
        sc, res, why = bad
        chk.violation("counterexample", "oracle-e2e:" + prop,
                      dict(clause=why, scenario=sc, exit_status=res["rc"], stderr_tail=res["stderr"][-1500:],
                           tap=[{k: v for k, v in e.items() if k not in ("stats",)} for e in res["tap"]][:200],
                           puppet_log=[r for r in res["log"] if r.get("ev") != "list"][:200]))
    chk.sample(dict(e2e_scenario={k: v for k, v in scs[0].items() if k != "tests"},
                    tests=[(t["bin"], t["name"], t["mode"]) for t in scs[0]["tests"]]))
    return bad is None


def replay_e2e(prop, d, times=3):
    """re-run the scenario of an `oracle-e2e:<prop>` record through the property's oracle; exit status 1 if
    any of the runs fails it again"""
    sc = d.get("scenario")
    if not sc or prop not in ORACLES:
        return 2
    rig = e2e.Rig()
    rc = 0
    for k in range(times):
        res = run(rig, sc)
        why = ORACLES[prop](sc, res)
        print(f"replay run {k + 1}/{times}: exit status {res['rc']}; oracle: {why or 'accepts'}")
        rig.cleanup(res)
        if why:
            rc = 1
    return rc
