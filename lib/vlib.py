"""Shared machinery for the per-property checks: Coq build + hygiene gate + assumption audit,
model evaluation inside Coq (cases.v / vm_compute), harness build against /repo's working tree,
evidence / replay / known-findings handling."""
import json, os, re, subprocess, sys, time, hashlib, random, shutil

VERIF = os.path.dirname(os.path.dirname(os.path.abspath(__file__)))
REPO = os.environ.get("VERIF_REPO", "/repo")
COQ = os.path.join(VERIF, "coq")
GEN = os.path.join(COQ, "gen")
CACHE = os.path.join(VERIF, ".cache")
TARGET = os.path.join(CACHE, "target")
HARNESS = os.path.join(VERIF, "harness")
EVID = os.path.join(VERIF, "evidence")
REPLAYS = os.path.join(VERIF, "replays")
RUSTFLAGS = "--cfg nextest_verif --cfg tokio_unstable"

ENV = dict(os.environ)
ENV.update({"CARGO_NET_OFFLINE": "true", "RUSTFLAGS": RUSTFLAGS, "CARGO_TERM_COLOR": "never"})

# std-lib axioms a property theorem may depend on (none needed so far)
AXIOM_ALLOW = set()

FORBIDDEN = re.compile(
    r"\b(Admitted|admit|Axiom|Axioms|Parameter|Parameters|Conjecture|Conjectures)\b"
    r"|Admit Obligations|Unset Guard|Unset Positivity|Unset Universe|bypass_check|type-in-type"
    r"|impredicative-set|Guard Checking|Positivity Checking|Universe Checking")


def log(*a):
    print(*a, file=sys.stderr, flush=True)


def sh(cmd, timeout=1800, cwd=None, env=None, input=None):
    """run a command; returns (rc, stdout, stderr)"""
    try:
        p = subprocess.run(cmd, shell=isinstance(cmd, str), cwd=cwd, env=env or ENV, input=input,
                           capture_output=True, text=True, timeout=timeout)
        return p.returncode, p.stdout, p.stderr
    except subprocess.TimeoutExpired as e:
        return 124, (e.stdout or b"").decode() if isinstance(e.stdout, bytes) else (e.stdout or ""), "timeout"


# --------------------------------------------------------------------------- Coq side

def coq_sources():
    out = []
    for root, _, files in os.walk(COQ):
        if "/gen" in root[len(COQ):]:
            continue
        for f in files:
            if f.endswith(".v"):
                out.append(os.path.relpath(os.path.join(root, f), COQ))
    return sorted(out)


def strip_comments(src):
    out, depth, i = [], 0, 0
    while i < len(src):
        if src.startswith("(*", i):
            depth += 1; i += 2
        elif src.startswith("*)", i) and depth:
            depth -= 1; i += 2
        else:
            if not depth:
                out.append(src[i])
            i += 1
    return "".join(out)


def hygiene(extra_files=()):
    """forbidden-token scan over the whole development (comments stripped). Variable/Hypothesis/
    Context are only accepted between Section ... End."""
    bad = []
    # compiler flags that switch checks off (the build takes its flags from _CoqProject only)
    proj = open(os.path.join(COQ, "_CoqProject")).read()
    for flag in ("-type-in-type", "-impredicative-set", "-noinit", "-vos", "-vok", "-bypass", "-allow-sprop"):
        if flag in proj:
            bad.append(f"_CoqProject: {flag}")
    gen = sorted("gen/" + f for f in os.listdir(GEN) if f.endswith(".v") and f.startswith("Gen")) \
        if os.path.isdir(GEN) else []
    for rel in list(coq_sources()) + gen + list(extra_files):
        src = strip_comments(open(os.path.join(COQ, rel)).read())
        for m in FORBIDDEN.finditer(src):
            bad.append(f"{rel}: {m.group(0)}")
        depth = 0
        for line in src.splitlines():
            s = line.strip()
            if re.match(r"(Section|Module Type)\b", s):
                depth += 1
            elif re.match(r"End\b", s) and depth:
                depth -= 1
            elif depth == 0 and re.match(r"(Variable|Variables|Hypothesis|Hypotheses|Context)\b", s):
                bad.append(f"{rel}: {s[:40]} outside a section")
    return bad


def coq_make(targets, timeout=3000):
    """full .vo build of the given targets (and their dependencies) through coq_makefile"""
    srcs = coq_sources()
    gen_srcs = sorted("gen/" + f for f in os.listdir(GEN) if f.endswith(".v") and f.startswith("Gen")) \
        if os.path.isdir(GEN) else []
    rc, o, e = sh(["coq_makefile", "-f", "_CoqProject", "-o", "Makefile"] + srcs + gen_srcs, cwd=COQ)
    if rc != 0:
        return False, o + e
    rc, o, e = sh(["make", "-j16"] + list(targets), cwd=COQ, timeout=timeout)
    return rc == 0, o + e


def theorem_names(prop):
    src = strip_comments(open(os.path.join(COQ, "Properties", prop + ".v")).read())
    return re.findall(r"^\s*Theorem\s+([A-Za-z0-9_']+)", src, re.M)


def assumptions(prop):
    """Print Assumptions for every Theorem of Properties/<prop>.v, evaluated by a fresh coqc."""
    names = theorem_names(prop)
    os.makedirs(GEN, exist_ok=True)
    path = os.path.join(GEN, f"assump_{prop}.v")
    with open(path, "w") as f:
        f.write(f"From NextestModel Require Import Properties.{prop}.\n")
        for n in names:
            f.write(f'Goal True. idtac "@@ {n}". exact I. Qed.\nPrint Assumptions {n}.\n')
    rc, o, e = sh(["coqc", "-noglob", "-Q", ".", "NextestModel", path], cwd=COQ, timeout=600)
    res = {}
    if rc != 0:
        return names, None, o + e
    chunks = re.split(r"@@ ([A-Za-z0-9_']+)\n", o)
    for i in range(1, len(chunks), 2):
        body = chunks[i + 1].strip()
        if "Closed under the global context" in body:
            res[chunks[i]] = []
        else:
            res[chunks[i]] = re.findall(r"^([A-Za-z0-9_.']+)\s*:", body, re.M)
    return names, res, o + e


def coq_gate(prop, extra_targets=()):
    """build + hygiene + assumption audit. Returns dict(ok, obligations, discharged, problems, axioms)"""
    t0 = time.time()
    problems = []
    ok, out = coq_make([f"Properties/{prop}.vo"] + list(extra_targets))
    if not ok:
        tail = "\n".join(out.strip().splitlines()[-25:])
        problems.append("coq build failed:\n" + tail)
    bad = hygiene()
    if bad:
        problems.append("forbidden tokens: " + "; ".join(bad[:10]))
    names, res, aout = (theorem_names(prop), None, "")
    axioms = {}
    if ok:
        names, res, aout = assumptions(prop)
        if res is None:
            problems.append("Print Assumptions run failed: " + aout[-500:])
        else:
            for n in names:
                if n not in res:
                    problems.append(f"no assumption report for {n}")
                else:
                    extra = [a for a in res[n] if a not in AXIOM_ALLOW]
                    axioms[n] = res[n]
                    if extra:
                        problems.append(f"{n} depends on non-allow-listed axioms {extra}")
    discharged = len([n for n in names if res is not None and n in res and
                      not [a for a in res[n] if a not in AXIOM_ALLOW]]) if ok else 0
    return dict(ok=not problems, obligations=len(names), discharged=discharged, problems=problems,
                theorems=names, axioms=axioms, wall=time.time() - t0)


# ---- evaluating model expressions with vm_compute

def coq_str(s):
    """a Python str as a Coq [list N] of code points"""
    return "[" + "; ".join(str(ord(c)) for c in s) + "]"


def coq_list(xs):
    return "[" + "; ".join(xs) + "]"


def coq_bool(b):
    return "true" if b else "false"


def decode_str(l):
    return "".join(chr(c) for c in l)


_TOK = re.compile(r"\s*(\[|\]|\(|\)|;|,|\d+|true|false)")


def parse_coq_value(txt):
    """parse nested lists / tuples of numbers and booleans as printed by Coq"""
    txt = txt.replace("%N", "").replace("%Z", "").replace("%nat", "")
    toks = _TOK.findall(txt)
    if "".join(toks) != re.sub(r"\s+", "", txt):
        raise ValueError("unparsable Coq value: " + txt[:200])
    pos = 0

    def val():
        nonlocal pos
        t = toks[pos]
        if t == "[":
            pos += 1
            out = []
            if toks[pos] == "]":
                pos += 1
                return out
            while True:
                out.append(val())
                if toks[pos] == ";":
                    pos += 1
                    continue
                assert toks[pos] == "]", toks[pos]
                pos += 1
                return out
        if t == "(":
            pos += 1
            out = [val()]
            while toks[pos] == ",":
                pos += 1
                out.append(val())
            assert toks[pos] == ")"
            pos += 1
            return out
        pos += 1
        if t == "true":
            return True
        if t == "false":
            return False
        return int(t)

    v = val()
    assert pos == len(toks)
    return v


def coq_eval(tag, imports, exprs, prelude="", shards=16, timeout=1200):
    """Evaluate each Coq expression (all of one type whose printed form parse_coq_value reads) with
    vm_compute, sharded over parallel coqc runs. Returns the list of parsed values."""
    os.makedirs(GEN, exist_ok=True)
    n = len(exprs)
    if n == 0:
        return []
    shards = max(1, min(shards, (n + 7) // 8))
    per = (n + shards - 1) // shards
    procs = []
    for s in range(shards):
        chunk = exprs[s * per:(s + 1) * per]
        if not chunk:
            continue
        path = os.path.join(GEN, f"cases_{tag}_{s}.v")
        with open(path, "w") as f:
            f.write(f"From NextestModel Require Import {' '.join(imports)}.\n")
            f.write("Open Scope N_scope.\nSet Printing Depth 10000000.\nSet Printing Width 1000000.\n")
            f.write(prelude + "\n")
            f.write("Definition cases_all :=\n  [ " + "\n  ; ".join(chunk) + " ].\n")
            f.write("Eval vm_compute in cases_all.\n")
        p = subprocess.Popen(["coqc", "-noglob", "-Q", ".", "NextestModel", path], cwd=COQ,
                             stdout=subprocess.PIPE, stderr=subprocess.PIPE, text=True)
        procs.append((p, path, len(chunk)))
    out = []
    for p, path, k in procs:
        try:
            o, e = p.communicate(timeout=timeout)
        except subprocess.TimeoutExpired:
            p.kill()
            raise RuntimeError(f"coqc timeout on {path}")
        if p.returncode != 0:
            raise RuntimeError(f"coqc failed on {path}:\n{e[-2000:]}")
        m = re.search(r"=\s(.*)\n\s*:\s", o, re.S)
        if not m:
            raise RuntimeError(f"no value printed for {path}: {o[:300]}")
        vals = parse_coq_value(m.group(1))
        if len(vals) != k:
            raise RuntimeError(f"{path}: expected {k} values, got {len(vals)}")
        out.extend(vals)
        for ext in (".v", ".vo", ".vok", ".vos", ".glob"):
            q = path[:-2] + ext
            if os.path.exists(q):
                os.remove(q)
        aux = os.path.join(os.path.dirname(path), "." + os.path.basename(path)[:-2] + ".aux")
        if os.path.exists(aux):
            os.remove(aux)
    return out


# --------------------------------------------------------------------------- implementation side

def build_harness(timeout=3000):
    """(re)build the harness against /repo's current working tree with hooks on"""
    tmpl = open(os.path.join(HARNESS, "Cargo.toml.in")).read().replace("@REPO@", REPO)
    ct = os.path.join(HARNESS, "Cargo.toml")
    if not os.path.exists(ct) or open(ct).read() != tmpl:
        open(ct, "w").write(tmpl)
    cfgdir = os.path.join(HARNESS, ".cargo")
    os.makedirs(cfgdir, exist_ok=True)
    cfg = f'[net]\noffline = true\n[build]\ntarget-dir = "{TARGET}"\n'
    cp = os.path.join(cfgdir, "config.toml")
    if not os.path.exists(cp) or open(cp).read() != cfg:
        open(cp, "w").write(cfg)
    lock_src = os.path.join(REPO, "Cargo.lock")
    lock_dst = os.path.join(HARNESS, "Cargo.lock")
    if not os.path.exists(lock_dst) or open(lock_src).read() != open(lock_dst).read():
        # keep the harness's own entry if cargo already added it; simplest is to start from /repo's
        shutil.copyfile(lock_src, lock_dst)
    rc, o, e = sh(["cargo", "build", "--offline"], cwd=HARNESS, timeout=timeout)
    if rc != 0:
        return None, (o + e)[-4000:]
    return os.path.join(TARGET, "debug", "verif-harness"), ""


def run_impl(binary, sub, cases, timeout=1200, shards=8):
    """run the harness subcommand over JSON cases (list of dict) -> list of results"""
    if not cases:
        return []
    shards = max(1, min(shards, len(cases) // 50 + 1))
    per = (len(cases) + shards - 1) // shards
    procs = []
    for s in range(shards):
        chunk = cases[s * per:(s + 1) * per]
        if not chunk:
            continue
        p = subprocess.Popen([binary, sub], stdin=subprocess.PIPE, stdout=subprocess.PIPE,
                             stderr=subprocess.PIPE, text=True, env=ENV)
        procs.append((p, "\n".join(json.dumps(c) for c in chunk) + "\n", len(chunk)))
    # feed sequentially (communicate handles pipes); chunks are small
    out = []
    for p, data, k in procs:
        o, e = p.communicate(data, timeout=timeout)
        lines = [l for l in o.split("\n") if l.strip()]
        if p.returncode != 0 or len(lines) != k:
            raise RuntimeError(f"harness {sub} failed rc={p.returncode} got {len(lines)}/{k}: {e[-1500:]}")
        out.extend(json.loads(l) for l in lines)
    return out


# --------------------------------------------------------------------------- reporting

def known_findings():
    p = os.path.join(VERIF, "known_findings.json")
    if os.path.exists(p):
        return json.load(open(p))
    return {"findings": [], "fixed": []}


class Check:
    """Accumulates what a check run did and writes evidence / replays / exit status."""

    def __init__(self, prop, tier, seed, level="proof"):
        self.prop, self.tier, self.seed, self.level = prop, tier, seed, level
        self.t0 = time.time()
        self.violations = []      # (replay_path, note)
        self.known = []           # messages
        self.coverage = {}
        self.assumptions = []
        self.samples = []
        self.counts = {}
        os.makedirs(EVID, exist_ok=True)
        os.makedirs(REPLAYS, exist_ok=True)

    def count(self, key, n=1):
        self.counts[key] = self.counts.get(key, 0) + n

    def sample(self, s, cap=6):
        if len(self.samples) < cap:
            self.samples.append(s)

    def violation(self, kind, name, detail, no_input=False):
        """kind: 'counterexample' | 'broken-obligation'; detail: JSON-able replay content"""
        h = hashlib.sha1(json.dumps(detail, sort_keys=True, default=str).encode()).hexdigest()[:10]
        path = os.path.join(REPLAYS, f"{self.prop}_{name}_{h}.json".replace("/", "_").replace(":", "_"))
        with open(path, "w") as f:
            json.dump(dict(property=self.prop, kind=kind, name=name, seed=self.seed, tier=self.tier,
                           **detail), f, indent=1, default=str)
        line = f"VIOLATION property={self.prop} replay={path}"
        if no_input:
            line += " no-failing-input-found"
        print(line, flush=True)
        self.violations.append(path)

    def known_finding(self, what):
        msg = f"KNOWN-FINDING: property={self.prop} {what}"
        if msg not in self.known:
            self.known.append(msg)
            print(msg, flush=True)

    def finish(self, gate, checker_cmd, trusted_base, extra_cov=None):
        cov = dict(
            obligations=gate["obligations"], discharged=gate["discharged"],
            checker_cmd=checker_cmd, trusted_base=trusted_base,
            theorems=gate["theorems"], axioms=gate["axioms"],
            samples=self.samples or ["(no case sampled)"], counts=self.counts)
        if extra_cov:
            cov.update(extra_cov)
        cov["judged_tree"] = repo_identity()
        ev = dict(property_id=self.prop, tier=self.tier, seed=self.seed, level=self.level,
                  coverage=cov, assumptions=self.assumptions,
                  wall_s=round(time.time() - self.t0, 2), violations=len(self.violations),
                  known_findings=self.known)
        with open(os.path.join(EVID, self.prop + ".json"), "w") as f:
            json.dump(ev, f, indent=1, default=str)
        return 1 if self.violations else 0


def repo_identity():
    """which source tree this run judged: HEAD of the repo working tree and a digest of its uncommitted
    changes (taken at the end of the run; a tree edited while a check runs gives unreliable results)"""
    try:
        head = subprocess.run(["git", "-C", REPO, "rev-parse", "HEAD"], capture_output=True, text=True).stdout.strip()
        diff = subprocess.run(["git", "-C", REPO, "status", "--porcelain"], capture_output=True, text=True).stdout
        d = subprocess.run(["git", "-C", REPO, "diff", "HEAD"], capture_output=True).stdout
        return dict(repo=REPO, head=head, dirty=bool(diff.strip()),
                    diff_sha1=hashlib.sha1(d).hexdigest() if diff.strip() else None)
    except Exception as ex:   # never let bookkeeping break a check
        return dict(repo=REPO, error=str(ex))


def coqchk_all(chk):
    """independent re-check (coqchk) of every compiled statement file and everything it depends on; the
    context summary must list no axiom, no type-in-type, no unsafe fixpoint, no assumed positivity"""
    mods = sorted("NextestModel.Properties." + f[:-3] for f in os.listdir(os.path.join(COQ, "Properties")) if f.endswith(".vo"))
    rc, o, e = sh(["coqchk", "-silent", "-o", "-Q", ".", "NextestModel"] + mods, cwd=COQ, timeout=1800)
    txt = o + e
    want = ["* Axioms: <none>", "type-in-type: <none>", "unsafe (co)fixpoints: <none>", "positivity is assumed: <none>"]
    missing = [w for w in want if w not in txt]
    chk.count("coqchk_modules", len(mods))
    if rc != 0 or missing:
        chk.violation("broken-obligation", "coqchk", dict(rc=rc, missing=missing, tail=txt[-2500:]), no_input=True)
        return False
    return True


def gate_or_violation(chk, gate):
    """a broken proof obligation / hygiene failure is reported (with no failing input yet; callers
    that can search for one do so before calling this)"""
    if not gate["ok"]:
        chk.violation("broken-obligation", "coq-gate", dict(problems=gate["problems"]), no_input=True)


def rng_for(seed, tag):
    return random.Random(f"{seed}:{tag}")
