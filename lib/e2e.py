"""End-to-end rig: builds cargo-nextest from the repo working tree with the verification hooks on,
runs it over the scripted puppet workspace for a generated scenario, optionally delivers signals
at chosen times, and collects exit status, stderr, the event tap (hook H1), the JUnit file and the
puppet's ground-truth log."""
import json, os, shutil, signal, subprocess, time, threading
import vlib

E2E = os.path.join(vlib.VERIF, "e2e")
PUPPET = os.path.join(E2E, "puppet")
NT_TARGET = os.path.join(vlib.CACHE, "target-nt")
RUNS = os.path.join(vlib.CACHE, "e2e-runs")
_lock = threading.Lock()
_counter = [0]


def build_nextest(timeout=3000):
    env = dict(vlib.ENV)
    env["CARGO_TARGET_DIR"] = NT_TARGET
    env["CARGO_PROFILE_DEV_DEBUG"] = "0"
    rc, o, e = vlib.sh(["cargo", "build", "-p", "cargo-nextest", "--offline"], cwd=vlib.REPO, env=env,
                       timeout=timeout)
    if rc != 0:
        return None, (o + e)[-4000:]
    return os.path.join(NT_TARGET, "debug", "cargo-nextest"), ""


def build_puppet(nextest, timeout=1200):
    """build the puppet workspace and record cargo metadata + binaries metadata so that runs need
    no cargo invocation (and can run in parallel)"""
    env = dict(os.environ)
    env.update({"CARGO_NET_OFFLINE": "true", "CARGO_TERM_COLOR": "never"})
    env.pop("RUSTFLAGS", None)
    meta_dir = os.path.join(vlib.CACHE, "puppet-meta")
    os.makedirs(meta_dir, exist_ok=True)
    rc, o, e = vlib.sh(["cargo", "metadata", "--format-version", "1", "--offline"], cwd=PUPPET, env=env)
    if rc != 0:
        return None, e[-2000:]
    open(os.path.join(meta_dir, "cargo-metadata.json"), "w").write(o)
    # listing binaries builds them; the scenario used for listing is empty
    scen = os.path.join(meta_dir, "empty-scenario.json")
    open(scen, "w").write(json.dumps({"bins": {}}))
    env["PUPPET_SCENARIO"] = scen
    env["PUPPET_PY"] = os.path.join(E2E, "puppet.py")
    rc, o, e = vlib.sh([nextest, "nextest", "list", "--list-type", "binaries-only", "--message-format",
                        "json", "--manifest-path", os.path.join(PUPPET, "Cargo.toml")],
                       cwd=PUPPET, env=env, timeout=timeout)
    if rc != 0:
        return None, (o + e)[-3000:]
    open(os.path.join(meta_dir, "binaries-metadata.json"), "w").write(o)
    return meta_dir, ""


class Rig:
    def __init__(self):
        self.nextest, err = build_nextest()
        if self.nextest is None:
            raise RuntimeError("cargo-nextest build failed:\n" + err)
        self.meta, err = build_puppet(self.nextest)
        if self.meta is None:
            raise RuntimeError("puppet build failed:\n" + err)
        os.makedirs(RUNS, exist_ok=True)

    def run(self, scenario, config_toml="", args=(), signals=(), timeout=60, env_extra=None,
            subcommand="run", keep=False, tap_fail_at=None, supervise_stop=False, private_binaries=(),
            hooks=(), tool_configs=(), no_binaries=False):
        """private_binaries: binary ids whose executable is copied into the run directory (the copy's
        path is returned in res['private'][id]) so that a hook can tamper with it during the run.
        hooks: list of (trigger(ctx)->bool, action(ctx)) run once from the signal thread."""
        """signals: list of (delay_seconds_after_spawn | callable(ctx)->bool trigger, signo).
        supervise_stop: record [(monotonic time, "stopped" | "continued", signal)] for nextest itself, as seen
        by its parent through waitid(WSTOPPED | WCONTINUED), in res["stops"].
        Returns dict(rc, stderr, stdout, tap, log, junit, wall, dir, t0, t_end, sent, stops)."""
        with _lock:
            _counter[0] += 1
            d = os.path.join(RUNS, f"run-{os.getpid()}-{_counter[0]}")
        shutil.rmtree(d, ignore_errors=True)
        os.makedirs(d)
        scen = os.path.join(d, "scenario.json")
        json.dump(scenario, open(scen, "w"))
        cfg = os.path.join(d, "nextest.toml")
        open(cfg, "w").write(config_toml)
        logp, tap = os.path.join(d, "puppet.log"), os.path.join(d, "tap.jsonl")
        open(logp, "w").close()
        env = dict(os.environ)
        for k in list(env):
            if k.startswith("NEXTEST") or k.startswith("CARGO_"):
                env.pop(k)
        env.pop("RUSTFLAGS", None)
        env.update({"PUPPET_SCENARIO": scen, "PUPPET_LOG": logp, "NEXTEST_VERIF_TAP": tap,
                    "PUPPET_PY": os.path.join(E2E, "puppet.py"), "CARGO_TERM_COLOR": "never",
                    "NO_COLOR": "1", "NEXTEST_HIDE_PROGRESS_BAR": "1"})
        if tap_fail_at is not None:
            env["NEXTEST_VERIF_TAP_FAIL_AT"] = str(tap_fail_at)
        if env_extra:
            env.update(env_extra)
        binmeta = os.path.join(self.meta, "binaries-metadata.json")
        private = {}
        if private_binaries:
            bm = json.load(open(binmeta))
            for bid in private_binaries:
                src = bm["rust-binaries"][bid]["binary-path"]
                dst = os.path.join(d, "bin-" + bid.replace("::", "-"))
                shutil.copy2(src, dst)
                bm["rust-binaries"][bid]["binary-path"] = dst
                private[bid] = dst
            binmeta = os.path.join(d, "binaries-metadata.json")
            json.dump(bm, open(binmeta, "w"))
        if no_binaries:
            # the build produced no test binary at all (a package whose only target has test = false)
            bm = json.load(open(binmeta))
            bm["rust-binaries"] = {}
            binmeta = os.path.join(d, "binaries-metadata.json")
            json.dump(bm, open(binmeta, "w"))
        tool_args = []
        for tool, text in tool_configs:
            # tool_configs: list of (tool name, TOML text), passed as --tool-config-file <tool>:<path>
            tp = os.path.join(d, f"tool-{tool}.toml")
            open(tp, "w").write(text)
            tool_args += ["--tool-config-file", f"{tool}:{tp}"]
        cmd = [self.nextest, "nextest", subcommand,
               "--cargo-metadata", os.path.join(self.meta, "cargo-metadata.json"),
               "--binaries-metadata", binmeta,
               "--config-file", cfg] + tool_args + list(args)
        t0 = time.monotonic()
        p = subprocess.Popen(cmd, cwd=PUPPET, env=env, stdout=subprocess.PIPE, stderr=subprocess.PIPE,
                             start_new_session=True)
        sent = []
        stops = []

        def deliver():
            for trig, action in hooks:
                deadline = time.monotonic() + timeout
                while time.monotonic() < deadline and p.poll() is None:
                    if trig(dict(log=logp, tap=tap, t0=t0)):
                        action(dict(log=logp, tap=tap, t0=t0, private=private))
                        break
                    time.sleep(0.005)
            for when, signo in signals:
                if callable(when):
                    deadline = time.monotonic() + timeout
                    while time.monotonic() < deadline and p.poll() is None:
                        if when(dict(log=logp, tap=tap, t0=t0)):
                            break
                        time.sleep(0.01)
                else:
                    delay = t0 + when - time.monotonic()
                    if delay > 0:
                        time.sleep(delay)
                if p.poll() is not None:
                    break
                try:
                    os.kill(p.pid, signo)
                    sent.append((time.monotonic(), signo))
                except ProcessLookupError:
                    break

        def supervise():
            # the rig is nextest's parent: job-control state changes of nextest itself (it stops itself
            # with SIGSTOP after forwarding SIGTSTP; the kernel continues it on SIGCONT) are reported to
            # us by waitid(WSTOPPED | WCONTINUED). Without WEXITED the exit status is never consumed here,
            # so Popen's own wait is unaffected.
            kinds = {getattr(os, "CLD_STOPPED", 5): "stopped", getattr(os, "CLD_CONTINUED", 6): "continued"}
            while p.returncode is None:
                try:
                    r = os.waitid(os.P_PID, p.pid, os.WSTOPPED | os.WCONTINUED | os.WNOHANG)
                except (ChildProcessError, OSError):
                    break
                if r is not None and r.si_pid == p.pid and r.si_code in kinds:
                    stops.append((time.monotonic(), kinds[r.si_code], r.si_status))
                    continue
                time.sleep(0.002)

        th = threading.Thread(target=deliver, daemon=True)
        th.start()
        if supervise_stop:
            threading.Thread(target=supervise, daemon=True).start()
        try:
            out, err = p.communicate(timeout=timeout)
            timed_out = False
        except subprocess.TimeoutExpired:
            timed_out = True
            try:
                os.killpg(p.pid, signal.SIGKILL)
            except ProcessLookupError:
                pass
            out, err = p.communicate()
        t_end = time.monotonic()
        res = dict(rc=p.returncode, stdout=out.decode(errors="replace"), stderr=err.decode(errors="replace"),
                   tap=read_jsonl(tap), log=read_jsonl(logp), wall=t_end - t0, dir=d, t0=t0, t_end=t_end,
                   sent=sent, timed_out=timed_out, cmd=cmd, private=private, stderr_bytes=err, stdout_bytes=out,
                   stops=list(stops) if supervise_stop else None)
        res["tap_all"] = read_jsonl(tap, with_received=True)   # emitted + received (hook H1b) in file order
        junit = os.path.join(PUPPET, "target", "nextest")
        res["junit_dir"] = junit
        if not keep:
            res["cleanup"] = d
        return res

    def cleanup(self, res):
        shutil.rmtree(res.get("dir", ""), ignore_errors=True)


def read_jsonl(path, with_received=False):
    """with_received=False drops the lines hook H1b writes into the tap file for the events the
    dispatcher *received* ("dir":"in"), so that readers of the emitted stream see what they always saw"""
    out = []
    if os.path.exists(path):
        for line in open(path, errors="replace"):
            line = line.strip()
            if line:
                try:
                    rec = json.loads(line)
                except ValueError:
                    out.append({"unparsable": line})
                    continue
                if with_received or not (isinstance(rec, dict) and rec.get("dir") == "in"):
                    out.append(rec)
    return out


def log_has(kind, **kv):
    """trigger: puppet log contains a record with ev=kind and the given fields"""
    def f(ctx):
        for r in read_jsonl(ctx["log"]):
            if r.get("ev") == kind and all(r.get(k) == v for k, v in kv.items()):
                return True
        return False
    return f


def tap_has(kind, **kv):
    def f(ctx):
        for r in read_jsonl(ctx["tap"]):
            if r.get("kind") == kind and all(r.get(k) == v for k, v in kv.items()):
                return True
        return False
    return f


def alive(pid):
    """is the process alive (zombies count as dead)"""
    try:
        st = open(f"/proc/{pid}/stat").read().rsplit(")", 1)[1].split()[0]
        return st != "Z"
    except OSError:
        return False
