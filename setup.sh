#!/bin/bash
# Build the framework from files on disk only (offline): full .vo build of the Coq development,
# harness build against /repo's working tree with hooks enabled.
set -e
cd "$(dirname "$0")"
export CARGO_NET_OFFLINE=true
mkdir -p .cache evidence replays coq/gen
( cd coq && coq_makefile -f _CoqProject -o Makefile $(find . -name '*.v' -not -path './gen/*' | sed 's|^\./||' | sort) $(ls gen/Gen*.v 2>/dev/null) >/dev/null && timeout 3000 make -j16 )
python3 -c "import sys; sys.path.insert(0,'lib'); import vlib; b,e=vlib.build_harness(); print(e); sys.exit(0 if b else 1)"
if [ -x e2e/build.sh ]; then e2e/build.sh; fi
echo setup done
