#!/bin/bash
# Build the framework from files on disk only (offline): harness against /repo's working tree with
# hooks enabled, regenerated Coq inputs, full .vo build of the Coq development, hooked cargo-nextest
# and the puppet workspace for the end-to-end rig.
set -e
cd "$(dirname "$0")"
export CARGO_NET_OFFLINE=true
mkdir -p .cache evidence replays coq/gen
python3 - <<'PY'
import sys
sys.path.insert(0, 'lib')
import vlib, units_e2e
b, e = vlib.build_harness()
print(e)
if not b:
    sys.exit(1)
ok, msg = units_e2e.regen_table()
if not ok:
    print(msg)   # the C12 check reports this as a broken obligation; keep going with the committed table
ra = units_e2e.regen_arm_table()   # request arms of the wait loops regenerated from the source (DESIGN 11.2e)
if not ra["ok"]:
    print("\n".join(ra["errors"]))   # reported as broken obligations by C09 - C12
import gen_tie
rg = gen_tie.regen()   # decision functions regenerated from the source (DESIGN 11.7)
if not rg["ok"]:
    print("\n".join(rg["errors"]))   # reported as broken obligations by the checks wired to them
rg = gen_tie.regen("glue")   # fragments of the glue code regenerated from the source (DESIGN 11.7, third round)
if not rg["ok"]:
    print("\n".join(rg["errors"]))
PY
( cd coq && coq_makefile -f _CoqProject -o Makefile $(find . -name '*.v' -not -path './gen/*' | sed 's|^\./||' | sort) $(ls gen/Gen*.v 2>/dev/null) >/dev/null && timeout 3000 make -j16 ) || echo "coq build incomplete (reported per property by the checks)"
python3 - <<'PY'
import sys
sys.path.insert(0, 'lib')
import e2e
try:
    e2e.Rig()
except Exception as ex:
    print(ex)
    sys.exit(1)
PY
echo setup done
