// Scripted test binary: hands over to e2e/puppet.py (same pid, same process group) with the
// package name, the binary name and the unchanged argument vector.
use std::os::unix::process::CommandExt;

fn main() {
    let py = std::env::var("PUPPET_PY").unwrap_or_else(|_| "/verif/e2e/puppet.py".to_owned());
    let err = std::process::Command::new("/usr/bin/python3")
        .arg("-S")
        .arg("-E")
        .arg(py)
        .arg(env!("CARGO_PKG_NAME"))
        .arg(env!("CARGO_CRATE_NAME"))
        .args(std::env::args_os().skip(1))
        .exec();
    eprintln!("puppet shim: exec failed: {err}");
    std::process::exit(99);
}
