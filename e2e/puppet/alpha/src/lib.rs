// empty
