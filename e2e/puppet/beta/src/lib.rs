// empty
