// A non-test binary of the package: nextest tells the package's integration tests where it is
// (NEXTEST_BIN_EXE_helper), also when they run from an archive extracted somewhere else.
fn main() {}
