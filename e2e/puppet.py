#!/usr/bin/python3
"""Scripted test process for the end-to-end rig. Invoked (via exec from the Rust shim, so with the
pid and process group nextest gave the test) as:  puppet.py <package> <binary> <libtest-style args>.

Listing:  --list --format terse [--ignored]
Running:  --exact <name> --nocapture [--ignored] [extra args]

The scenario ($PUPPET_SCENARIO, JSON) says, per "<package>::<binary>", which tests exist and what
each attempt does. Every invocation appends ground-truth JSON lines to $PUPPET_LOG (O_APPEND, one
write per line)."""
import json, os, signal, sys, time


def log(rec):
    rec["t"] = time.monotonic()
    rec["pid"] = os.getpid()
    path = os.environ.get("PUPPET_LOG")
    if not path:
        return
    fd = os.open(path, os.O_WRONLY | os.O_APPEND | os.O_CREAT, 0o644)
    try:
        os.write(fd, (json.dumps(rec) + "\n").encode())
    finally:
        os.close(fd)


def prng_bytes(seed, n):
    """deterministic byte stream (xorshift64*), reproduced by the driver"""
    out = bytearray()
    x = (seed * 2654435761 + 88172645463325252) & 0xFFFFFFFFFFFFFFFF or 1
    while len(out) < n:
        x ^= (x >> 12)
        x ^= (x << 25) & 0xFFFFFFFFFFFFFFFF
        x ^= (x >> 27)
        out += ((x * 2685821657736338717) & 0xFFFFFFFFFFFFFFFF).to_bytes(8, "little")
    return bytes(out[:n])


def stream_bytes(spec):
    if spec is None:
        return b""
    if "hex" in spec:
        return bytes.fromhex(spec["hex"])
    if "text" in spec:
        return spec["text"].encode()
    data = prng_bytes(spec.get("seed", 1), spec.get("size", 0))
    if spec.get("ascii"):
        data = bytes(32 + (b % 95) for b in data)
    return data


def write_stream(fd, spec):
    data = stream_bytes(spec)
    mode = (spec or {}).get("mode", "single")
    if mode == "single":
        chunks = [data]
    elif mode == "bytewise":
        chunks = [data[i:i + 1] for i in range(len(data))]
    else:  # bursts
        k = max(1, (spec or {}).get("burst", 4096))
        chunks = [data[i:i + k] for i in range(0, len(data), k)]
    pause = (spec or {}).get("pause", 0)
    for c in chunks:
        off = 0
        while off < len(c):
            off += os.write(fd, c[off:])
        if pause:
            time.sleep(pause)


def logger_line(tag, stream, n, width):
    """line n (0-based) of the endless stream a `logger` behaviour writes to `stream`"""
    return (f"{tag} {stream} {n:010d} ".ljust(width - 1, ".") + "\n").encode()


def run_logger(spec, name, attempt):
    """write numbered fixed-width lines forever, alternating over spec["streams"] (default stdout,
    stderr), one write(2) per line (width <= PIPE_BUF: a line is in the pipe completely or not at
    all). After every successful write the number of lines completely written to that stream is
    recorded with pwrite (8 bytes little endian; stdout at offset 0, stderr at offset 8) in
    <dir of $PUPPET_LOG>/<spec["count_file"]>, so that the count survives a SIGKILL."""
    import struct
    width = spec.get("width", 32)
    tag = spec.get("tag", name)
    streams = spec.get("streams", ["stdout", "stderr"])
    every = spec.get("every", 0)
    path = os.path.join(os.path.dirname(os.environ.get("PUPPET_LOG", "/tmp/x")),
                        spec.get("count_file", f"count-{name}-{attempt}.bin"))
    cfd = os.open(path, os.O_RDWR | os.O_CREAT, 0o644)
    os.pwrite(cfd, b"\0" * 16, 0)
    fds = {"stdout": 1, "stderr": 2}
    offs = {"stdout": 0, "stderr": 8}
    n = 0
    while True:
        for st in streams:
            os.write(fds[st], logger_line(tag, st, n, width))
            os.pwrite(cfd, struct.pack("<Q", n + 1), offs[st])
        n += 1
        if every:
            time.sleep(every)


def main():
    if sys.argv[1] == "--script":
        # setup-script mode: puppet.py --script <name>; behaves like a single-attempt test called
        # <name> taken from scenario["scripts"]; may write KEY=VALUE lines to $NEXTEST_ENV
        pkg, binary, args = "@script", sys.argv[2], ["--exact", sys.argv[2]]
        scen = json.load(open(os.environ["PUPPET_SCENARIO"]))
        tests = {k: {"attempts": [v]} for k, v in scen.get("scripts", {}).items()}
        envf = os.environ.get("NEXTEST_ENV")
        for line in scen.get("scripts", {}).get(sys.argv[2], {}).get("env_lines", []):
            if envf:
                with open(envf, "a") as f:
                    f.write(line + "\n")
    else:
        pkg, binary, args = sys.argv[1], sys.argv[2], sys.argv[3:]
        scen = json.load(open(os.environ["PUPPET_SCENARIO"]))
        tests = scen.get("bins", {}).get(f"{pkg}::{binary}", {}).get("tests", {})

    if "--list" in args:
        ign = "--ignored" in args
        log({"ev": "list", "bin": f"{pkg}::{binary}", "argv": args})
        for name, t in tests.items():
            is_ign = bool(t.get("ignored"))
            if scen.get("list_all_without_ignored", True):
                show = is_ign if ign else True
            else:
                show = is_ign == ign
            if show:
                sys.stdout.write(f"{name}: test\n")
        return 0

    # run mode
    name = None
    if "--exact" in args:
        i = args.index("--exact")
        if i + 1 < len(args):
            name = args[i + 1]
    attempt = int(os.environ.get("__NEXTEST_ATTEMPT", "1"))
    t = tests.get(name, {})
    atts = t.get("attempts") or [{}]
    beh = atts[min(attempt, len(atts)) - 1]

    try:
        stdin_target = os.readlink("/proc/self/fd/0")
    except OSError:
        stdin_target = None
    want_env = set(scen.get("log_env", []))
    env = {k: v for k, v in os.environ.items()
           if k.startswith("NEXTEST") or k.startswith("CARGO_PKG_") or k == "CARGO_MANIFEST_DIR"
           or k in want_env or k == "__NEXTEST_ATTEMPT"}
    log({"ev": "start", "bin": f"{pkg}::{binary}", "test": name, "attempt": attempt, "argv": args,
         "cwd": os.getcwd(), "pgid": os.getpgid(0), "ppid": os.getppid(), "sid": os.getsid(0),
         "stdin": stdin_target, "env": env})

    state = {"term_at": None, "end": None}

    def on_sig(signo, _frame):
        log({"ev": "sig", "test": name, "attempt": attempt, "signo": signo, "who": "test"})
        react = beh.get("on_term", "exit")
        if signo == signal.SIGTSTP:
            tstp = beh.get("tstp", "stop")
            if tstp == "stop":
                t_stop = time.monotonic()
                os.kill(os.getpid(), signal.SIGSTOP)
                # resumed: time spent stopped does not count towards the scripted duration
                gone = time.monotonic() - t_stop
                if state["end"] is not None:
                    state["end"] += gone
                if state["term_at"] is not None:
                    state["term_at"] += gone
            elif tstp == "exit":
                log({"ev": "end", "test": name, "attempt": attempt, "how": "exit-on-tstp"})
                os._exit(beh.get("exit", 0))
            return
        if signo == signal.SIGCONT:
            return
        if react == "exit":
            # optional output written after the termination signal arrived (C16: the loop that waits
            # out the grace period must keep reading)
            if beh.get("term_stdout") is not None:
                write_stream(1, beh.get("term_stdout"))
            if beh.get("term_stderr") is not None:
                write_stream(2, beh.get("term_stderr"))
            log({"ev": "end", "test": name, "attempt": attempt, "how": f"exit-on-signal-{signo}"})
            os._exit(beh.get("term_exit", 1))
        elif react == "die":
            # die *of* the signal, as a default disposition would
            signal.signal(signo, signal.SIG_DFL)
            log({"ev": "end", "test": name, "attempt": attempt, "how": f"die-of-signal-{signo}"})
            os.kill(os.getpid(), signo)
        elif isinstance(react, str) and react.startswith("late:"):
            if state["term_at"] is None:
                state["term_at"] = time.monotonic() + float(react[5:])
        # "ignore": nothing

    for s in (signal.SIGTERM, signal.SIGINT, signal.SIGHUP, signal.SIGQUIT, signal.SIGTSTP,
              signal.SIGCONT, signal.SIGUSR1, signal.SIGUSR2):
        signal.signal(s, on_sig)

    # descendant in the same process group that may hold / write to the inherited pipes
    ch = beh.get("child")
    if ch:
        pid = os.fork()
        if pid == 0:
            def csig(signo, _f):
                log({"ev": "sig", "test": name, "attempt": attempt, "signo": signo, "who": "child"})
                if signo in (signal.SIGTSTP,):
                    os.kill(os.getpid(), signal.SIGSTOP)
                elif signo != signal.SIGCONT and ch.get("on_term", "exit") == "exit":
                    os._exit(0)
            for s in (signal.SIGTERM, signal.SIGINT, signal.SIGHUP, signal.SIGQUIT, signal.SIGTSTP,
                      signal.SIGCONT):
                signal.signal(s, csig)
            hold = set(ch.get("hold", ["stdout", "stderr"]))
            if "stdout" not in hold:
                os.close(1)
            if "stderr" not in hold:
                os.close(2)
            if ch.get("own_group"):
                # a daemon-like descendant: it leaves the test's process group (and session) but keeps the
                # inherited stdout / stderr open
                try:
                    os.setsid()
                except OSError:
                    os.setpgid(0, 0)
            log({"ev": "child-start", "test": name, "attempt": attempt, "pgid": os.getpgid(0)})
            end = time.monotonic() + ch.get("for", 1.0)
            every = ch.get("write_every")
            while time.monotonic() < end:
                if every:
                    try:
                        os.write(1 if "stdout" in hold else 2, b"w")
                    except OSError:
                        pass
                    time.sleep(every)
                else:
                    time.sleep(min(0.02, max(0.0, end - time.monotonic())))
            log({"ev": "child-end", "test": name, "attempt": attempt})
            os._exit(0)

    if beh.get("logger") is not None:
        run_logger(beh["logger"], name, attempt)   # never returns

    if beh.get("stdout") is not None:
        write_stream(1, beh.get("stdout"))
    if beh.get("stderr") is not None:
        write_stream(2, beh.get("stderr"))
    if beh.get("log_written"):
        log({"ev": "written", "test": name, "attempt": attempt})

    state["end"] = time.monotonic() + beh.get("sleep", 0)
    while True:
        now = time.monotonic()
        if state["term_at"] is not None and now >= state["term_at"]:
            log({"ev": "end", "test": name, "attempt": attempt, "how": "late-exit-after-signal"})
            os._exit(beh.get("term_exit", 1))
        if now >= state["end"]:
            break
        time.sleep(min(0.01, max(0.0, state["end"] - now)))

    if beh.get("final_stdout") is not None:
        write_stream(1, beh.get("final_stdout"))
    if beh.get("final_stderr") is not None:
        write_stream(2, beh.get("final_stderr"))
    if "signal" in beh:
        signo = beh["signal"]
        if signo not in (signal.SIGKILL, signal.SIGSTOP):
            signal.signal(signo, signal.SIG_DFL)
        log({"ev": "end", "test": name, "attempt": attempt, "how": f"raise-{signo}"})
        os.kill(os.getpid(), signo)
        time.sleep(5)
    code = beh.get("exit", 0)
    log({"ev": "end", "test": name, "attempt": attempt, "how": f"exit-{code}"})
    os._exit(code)


if __name__ == "__main__":
    sys.exit(main())
