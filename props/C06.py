"""C06 — per-test settings precedence: theorems (Properties/C06.v) + correspondence of the overrides
model with nextest (NextestConfig::from_sources -> profile -> apply_build_platforms -> settings_for,
public API only, on generated repository + tool config files) + an oracle, written independently of
the model, that computes the documented precedence directly from the generated structure."""
import json, os, re, sys, tomllib
import vlib, gen_tie
from vlib import coq_list, coq_bool, decode_str

PROP = "C06"
IMPORTS = ["Base.Str", "Model.Overrides", "Proofs.Overrides"]

SETTINGS = ["priority", "threads-required", "run-extra-args", "retries", "slow-timeout", "leak-timeout",
            "test-group", "success-output", "failure-output", "junit-success", "junit-failure"]
COQ_SETTING = {"priority": "SPriority", "threads-required": "SThreads", "run-extra-args": "SExtraArgs",
               "retries": "SRetries", "slow-timeout": "SSlowTimeout", "leak-timeout": "SLeakTimeout",
               "test-group": "STestGroup", "success-output": "SSuccessOutput",
               "failure-output": "SFailureOutput", "junit-success": "SJunitSuccess",
               "junit-failure": "SJunitFailure"}
# profile-level keys (priority and test-group can only be set by overrides)
PROFILE_KEYS = ["threads-required", "run-extra-args", "retries", "slow-timeout", "leak-timeout",
                "success-output", "failure-output"]
JUNIT_SUB = {"junit-success": "store-success-output", "junit-failure": "store-failure-output"}
TABLE_VALUED = ["retries", "slow-timeout"]
INVALID = "INVALID"

LINUX, WIN, MAC = "x86_64-unknown-linux-gnu", "x86_64-pc-windows-msvc", "aarch64-apple-darwin"
# platform specs and their documented truth value per platform (independent of target-spec)
SPECS = {
    "cfg(unix)": {LINUX: True, MAC: True, WIN: False},
    "cfg(windows)": {LINUX: False, MAC: False, WIN: True},
    MAC: {LINUX: False, MAC: True, WIN: False},
    LINUX: {LINUX: True, MAC: False, WIN: False},
    'cfg(target_os = "linux")': {LINUX: True, MAC: False, WIN: False},
    'cfg(target_arch = "aarch64")': {LINUX: False, MAC: True, WIN: False},
    'cfg(all(unix, not(target_os = "macos")))': {LINUX: True, MAC: False, WIN: False},
    # unknown target features evaluate to "unknown", which nextest maps to true
    'cfg(target_feature = "sse2")': {LINUX: True, MAC: True, WIN: True},
}

# the fixture graph (fixtures/tests-workspace-metadata.json): crate_b -> crate_a, crate_d -> b, c,
# crate_e -> d, crate_f -> d, crate_g -> f
DEPS = {"a": "a", "b": "ab", "c": "c", "d": "abcd", "e": "abcde", "f": "abcdf", "g": "abcdfg"}


def mkq(pkg, kind, binary_name, platform, test):
    bid = f"crate_{pkg}" if kind == "lib" else f"crate_{pkg}::{binary_name}"
    return dict(pkg=pkg, kind=kind, binary_name=binary_name, binary_id=bid, platform=platform, test=test)


QUERIES = []
for _p in "abcdefg":
    QUERIES.append(mkq(_p, "lib", f"crate_{_p}", "target", "test_a"))
    QUERIES.append(mkq(_p, "lib", f"crate_{_p}", "target", "mod_b::slow"))
QUERIES += [mkq("a", "test", "it", "target", "it_a"), mkq("d", "test", "it", "target", "mod_b::it_x"),
            mkq("b", "proc-macro", "crate_b", "host", "pm_test"), mkq("a", "lib", "crate_a", "host", "test_a"),
            mkq("g", "bin", "tool", "target", "bin_check"), mkq("e", "test", "other", "host", "zzz"),
            mkq("c", "bench", "bn", "target", "a"), mkq("f", "example", "ex", "target", "mod_b::test_a")]

# filter menu: text -> independent evaluation on a query
FILTERS = {
    "all()": lambda q: True,
    "none()": lambda q: False,
    "test(a)": lambda q: "a" in q["test"],
    "test(=test_a)": lambda q: q["test"] == "test_a",
    "test(/^mod_b::/)": lambda q: q["test"].startswith("mod_b::"),
    "test(slow)": lambda q: "slow" in q["test"],
    "package(crate_a)": lambda q: q["pkg"] == "a",
    "package(crate_d)": lambda q: q["pkg"] == "d",
    "kind(lib)": lambda q: q["kind"] == "lib",
    "kind(proc-macro)": lambda q: q["kind"] == "proc-macro",
    "kind(test)": lambda q: q["kind"] == "test",
    "platform(host)": lambda q: q["platform"] == "host",
    "platform(target)": lambda q: q["platform"] == "target",
    "deps(crate_d)": lambda q: q["pkg"] in DEPS["d"],
    "rdeps(crate_d)": lambda q: "d" in DEPS[q["pkg"]],
    # binary() / binary_id() patterns must match a binary of the package graph
    "binary(crate_a)": lambda q: q["binary_name"] == "crate_a",
    "binary_id(crate_b)": lambda q: q["binary_id"] == "crate_b",
    "not test(a)": lambda q: "a" not in q["test"],
    "package(crate_b) and test(slow)": lambda q: q["pkg"] == "b" and "slow" in q["test"],
    "test(=it_a) | kind(bench)": lambda q: q["test"] == "it_a" or q["kind"] == "bench",
    "rdeps(crate_b) - package(crate_g)": lambda q: "b" in DEPS[q["pkg"]] and q["pkg"] != "g",
    "default()": None,   # depends on the profile's resolved default filter: harness table only
}
DEFAULT_FILTERS = ["test(a)", "kind(lib)", "all()", "not test(slow)"]

DURS = {"0s": 0, "100ms": 10 ** 8, "250ms": 25 * 10 ** 7, "1s": 10 ** 9, "2s": 2 * 10 ** 9, "10s": 10 ** 10,
        "30s": 3 * 10 ** 10, "45s": 45 * 10 ** 9, "90s": 9 * 10 ** 10, "2m": 12 * 10 ** 10}
NONZERO_DURS = [d for d in DURS if DURS[d] > 0]
DISPLAYS = ["immediate", "immediate-final", "final", "never"]

# ------------------------------------------------------------------------------------ TOML / Coq text


def toml_str(s):
    if "'" not in s and "\n" not in s:
        return "'" + s + "'"
    return json.dumps(s)


def toml_val(v):
    if isinstance(v, bool):
        return "true" if v else "false"
    if isinstance(v, int):
        return str(v)
    if isinstance(v, str):
        return toml_str(v)
    if isinstance(v, list):
        return "[" + ", ".join(toml_val(x) for x in v) + "]"
    if isinstance(v, dict):
        return "{ " + ", ".join(f"{k} = {toml_val(x)}" for k, x in v.items()) + " }"
    raise TypeError(v)


def toml_key(k):
    return k if re.fullmatch(r"[A-Za-z0-9_-]+", k) else json.dumps(k)


def file_toml(f):
    """TOML text of a generated file structure"""
    out = []
    for name, pc in f["profiles"].items():
        out.append(f"[profile.{toml_key(name)}]")
        sub_tables = []
        for k, v in pc["settings"].items():
            if k == "junit" and pc.get("junit_as_section"):
                sub_tables.append((k, v))
            else:
                out.append(f"{k} = {toml_val(v)}")
        for k, v in sub_tables:
            out.append(f"[profile.{toml_key(name)}.{k}]")
            for sk, sv in v.items():
                out.append(f"{sk} = {toml_val(sv)}")
        for o in pc["overrides"]:
            out.append(f"[[profile.{toml_key(name)}.overrides]]")
            if o["host"] is not None or o["target"] is not None:
                if o["platform_form"] == "string":
                    out.append(f"platform = {toml_str(o['target'])}")
                else:
                    parts = [f"{k} = {toml_str(o[k])}" for k in ("host", "target") if o[k] is not None]
                    out.append("platform = { " + ", ".join(parts) + " }")
            if o["filter"] is not None:
                out.append(f"{o['filter'][0]} = {toml_str(o['filter'][1])}")
            junit = {}
            for s, v in o["data"].items():
                if s in JUNIT_SUB:
                    junit[JUNIT_SUB[s]] = v
                else:
                    out.append(f"{s} = {toml_val(v)}")
            if junit:
                if o.get("junit_dotted"):
                    for sk, sv in junit.items():
                        out.append(f"junit.{sk} = {toml_val(sv)}")
                else:
                    out.append(f"junit = {toml_val(junit)}")
        out.append("")
    for g in f.get("groups", []):
        out.append(f"[test-groups.{toml_str(g)}]")
        out.append("max-threads = 2")
    return "\n".join(out) + "\n"


class Interner:
    """distinct strings of a batch become prelude definitions (keeps the case terms small)"""

    def __init__(self):
        self.names = {}

    def __call__(self, text):
        if text not in self.names:
            self.names[text] = f"i_{len(self.names)}"
        return self.names[text]

    def prelude(self):
        return "\n".join(f"Definition {n} : str := {vlib.coq_str(t)}." for t, n in self.names.items())


_INTERN = None


def coq_str(text):
    return _INTERN(text) if _INTERN is not None else vlib.coq_str(text)


def coq_opt(x, f):
    return "None" if x is None else f"(Some {f(x)})"


def coq_sval(v):
    if isinstance(v, dict):
        return "(VTable " + coq_list([f"({coq_str(k)}, {coq_str(toml_val(x))})" for k, x in v.items()]) + ")"
    return f"(VLeaf {coq_str(toml_val(v))})"


def coq_override(o):
    if o["filter"] is None:
        flt = "OFNone"
    elif o["filter"][0] == "filter":
        flt = f"(OFFilter {coq_str(o['filter'][1])})"
    else:
        flt = f"(OFDefault {coq_str(o['filter'][1])})"
    data = coq_list([f"({COQ_SETTING[s]}, {coq_sval(v)})" for s, v in o["data"].items()])
    return f"(mk_ov {coq_opt(o['host'], coq_str)} {coq_opt(o['target'], coq_str)} {flt} {data})"


def coq_file(f):
    if f is None:
        return "(mk_file None [])"
    profs = []
    for name, pc in f["profiles"].items():
        st = coq_list([f"({coq_str(k)}, {coq_sval(v)})" for k, v in pc["settings"].items()])
        ovs = coq_list([coq_override(o) for o in pc["overrides"]])
        profs.append(f"({coq_str(name)}, mk_pc {st} {ovs})")
    return f"(mk_file {coq_opt(f.get('tool'), coq_str)} {coq_list(profs)})"


def builtin_file():
    """the built-in layer, read from the repository's default-config.toml on every run"""
    d = tomllib.load(open(os.path.join(vlib.REPO, "nextest-runner", "default-config.toml"), "rb"))
    profiles = {}
    for name, tbl in d["profile"].items():
        st = {}
        for k, v in tbl.items():
            if k in PROFILE_KEYS or k == "junit":
                st[k] = v
        profiles[name] = dict(settings=st, overrides=[])
    return dict(tool=None, profiles=profiles)


PRELUDE_TMPL = """
Definition tbl_get (tbl : list (str * list bool)) (k : str) (i : N) : bool :=
  match lookup k tbl with Some row => nth (N.to_nat i) row true | None => true end.
Definition mk_env (st ft : list (str * list bool)) : env := {| e_spec := tbl_get st; e_filter := tbl_get ft |}.
Definition mk_t (i : N) (h : bool) : test := {| t_id := i; t_host := h |}.
Definition mk_bp (h : N) (t : option N) : bplat := {| bp_host := h; bp_target := t |}.
@STRINGS@
Definition all_tests : list test := @TESTS@.
Definition builtin_file : file := @BUILTIN@.
Definition probe (repo : file) (tools : list file) (names : list key) : list (list (list (list N))) :=
  map (fun n => [enc_sval (olookup k_retries (merged_profile builtin_file repo tools n));
                 enc_sval (olookup k_slow_timeout (merged_profile builtin_file repo tools n))]) names.
(* results are printed with every string replaced by its index in the batch's string table *)
Definition str_tbl : list (str * N) := @TBL@.
Definition sid (a : str) : N := match lookup a str_tbl with Some n => n | None => 4000000000 end.
Definition enc_id (v : list (list N)) : list N :=
  match v with [] => [] | tag :: rest => hd 9 tag :: map sid rest end.
Definition case_eval (e : env) (bp : bplat) (repo : file) (tools : list file) (sel : key)
           (tests : list test) (names : list key) : list (list (list N)) :=
  map (map enc_id) (probe repo tools names ++ run_case e bp builtin_file repo tools sel tests).
"""

# ------------------------------------------------------------------------------------ canonical values


def dur_ns(s):
    if not isinstance(s, str):
        return None
    m = re.fullmatch(r"(\d+)(ms|s|m)", s)
    if not m:
        return None
    return int(m.group(1)) * {"ms": 10 ** 6, "s": 10 ** 9, "m": 60 * 10 ** 9}[m.group(2)]


def canon(setting, v):
    """what serde makes of a TOML value for this setting (the part of deserialization the generated
    values exercise); INVALID where deserialization fails"""
    if v is None:
        return INVALID
    if setting == "retries":
        if isinstance(v, bool):
            return INVALID
        if isinstance(v, int):
            return ("fixed", v, 0, False, None) if v >= 0 else INVALID
        if not isinstance(v, dict) or "count" not in v:
            return INVALID
        b = v.get("backoff")
        if b == "fixed":
            if set(v) - {"backoff", "count", "delay", "jitter"}:
                return INVALID
            delay = dur_ns(v["delay"]) if "delay" in v else 0
            jitter = v.get("jitter", False)
            if delay is None or (delay == 0 and jitter):
                return INVALID
            return ("fixed", v["count"], delay, jitter, None)
        if b == "exponential":
            if set(v) - {"backoff", "count", "delay", "jitter", "max-delay"} or "delay" not in v:
                return INVALID
            delay = dur_ns(v["delay"])
            md = dur_ns(v["max-delay"]) if "max-delay" in v else None
            if delay is None or delay == 0 or v["count"] == 0:
                return INVALID
            if "max-delay" in v and (md is None or md == 0 or md < delay):
                return INVALID
            return ("exponential", v["count"], delay, v.get("jitter", False), md)
        return INVALID
    if setting == "slow-timeout":
        if isinstance(v, str):
            p = dur_ns(v)
            return (p, None, 10 ** 10) if p is not None else INVALID
        if not isinstance(v, dict) or "period" not in v:
            return INVALID
        p = dur_ns(v["period"])
        g = dur_ns(v["grace-period"]) if "grace-period" in v else 10 ** 10
        ta = v.get("terminate-after")
        if p is None or g is None or (ta is not None and (not isinstance(ta, int) or ta < 1)):
            return INVALID
        return (p, ta, g)
    if setting == "leak-timeout":
        p = dur_ns(v)
        return p if p is not None else INVALID
    if setting in ("threads-required", "priority", "test-group", "success-output", "failure-output",
                   "junit-success", "junit-failure"):
        return v
    if setting == "run-extra-args":
        return list(v)
    raise KeyError(setting)


def canon_impl(s):
    """the harness's plain-data rendering of a TestSettings -> canonical values"""
    r, st = s["retries"], s["slow_timeout"]
    if "unparsed" in st:
        raise RuntimeError("harness could not read SlowTimeout's Debug output: " + st["unparsed"])
    return {
        "priority": s["priority"], "threads-required": s["threads_required"],
        "run-extra-args": s["run_extra_args"],
        "retries": (r["backoff"], r["count"], int(r["delay_ns"]), r["jitter"],
                    None if r["max_delay_ns"] is None else int(r["max_delay_ns"])),
        "slow-timeout": (int(st["period_ns"]), st["terminate_after"], int(st["grace_ns"])),
        "leak-timeout": int(s["leak_timeout_ns"]), "test-group": s["test_group"],
        "success-output": s["success_output"], "failure-output": s["failure_output"],
        "junit-success": s["junit_store_success_output"], "junit-failure": s["junit_store_failure_output"],
    }


def decode_sval(enc, strings):
    """enc_id (enc_sval ..) output -> python value (None if absent); strings: the batch's table"""
    if not enc:
        return None
    if max(enc[1:], default=0) >= len(strings):
        raise GlueError(f"model produced a string outside the case's string table: {enc}")
    atom = lambda i: tomllib.loads("x = " + strings[i])["x"]
    if enc[0] == 0:
        return atom(enc[1])
    return {strings[enc[i]]: atom(enc[i + 1]) for i in range(1, len(enc), 2)}


# ------------------------------------------------------------------------------------ the oracle
# (documented precedence computed from the generated structure; does not use the Coq model)


def files_by_priority(case):
    return ([case["repo"]] if case["repo"] is not None else []) + list(case["tools"])


def spec_ok(spec, triple):
    return True if spec is None else SPECS[spec][triple]


def override_matches(case, o, q, filter_truth):
    host, target = case["host"], case["target"] or case["host"]
    if not spec_ok(o["host"], host):
        return False
    if not spec_ok(o["target"], host if q["platform"] == "host" else target):
        return False
    if o["filter"] is not None and o["filter"][0] == "filter":
        return filter_truth(o["filter"][1], q)
    return True


def profile_names(case, builtin):
    names = list(builtin["profiles"])
    for f in files_by_priority(case):
        for n in f["profiles"]:
            if n not in names:
                names.append(n)
    return names


def oracle_settings(case, builtin, q, filter_truth):
    """{setting: (canonical value, where it came from)} by the documented precedence"""
    sel = case["profile"]
    files = files_by_priority(case)
    names = ([sel] if sel != "default" else []) + ["default"]
    out = {}
    for s in SETTINGS:
        found = None
        # 1. overrides: selected profile's (repo, then tools in the order given), then default's
        for n in names:
            for f in files:
                for o in f["profiles"].get(n, {}).get("overrides", []):
                    if found is None and s in o["data"] and override_matches(case, o, q, filter_truth):
                        found = (canon(s, o["data"][s]), ("override", n))
        if found is None:
            if s == "priority":
                found = (0, ("fixed",))
            elif s == "test-group":
                found = ("@global", ("fixed",))
            elif s in JUNIT_SUB:
                # junit.path / junit.store-*-output are separate keys of the [profile.<n>.junit] section,
                # each read by the documented rule: the selected profile's value, else the default
                # profile's. A report is written iff a path results; without a report nothing is stored.
                if junit_leaf(case, builtin, names, "path") is None:
                    found = (False, ("junit-off",))
                else:
                    v = junit_leaf(case, builtin, names, JUNIT_SUB[s])
                    if v is not None:
                        found = (v[0], ("profile", v[1]))
            else:
                # 2. selected profile (repo beats tools beats built-in), then default profile
                for n in names:
                    for f in files + [builtin]:
                        st = f["profiles"].get(n, {}).get("settings", {})
                        if found is None and s in st:
                            found = (canon(s, st[s]), ("profile", n))
        out[s] = found if found is not None else (INVALID, ("missing",))
    return out


def junit_leaf(case, builtin, names, sk):
    """(value, profile it came from) of junit.<sk> by the documented rule, or None"""
    for n in names:
        for f in files_by_priority(case) + [builtin]:
            j = f["profiles"].get(n, {}).get("settings", {}).get("junit")
            if isinstance(j, dict) and sk in j:
                return (j[sk], n)
    return None


def f22_class(case, builtin):
    """a custom profile is selected, no file gives it a junit.path, some file gives the default
    profile one (JunitConfig::new takes the path from the custom profile alone)"""
    sel = case["profile"]
    return sel != "default" and junit_leaf(case, builtin, [sel], "path") is None \
        and junit_leaf(case, builtin, ["default"], "path") is not None


def deep_merged(case, builtin, n, k):
    """what key-by-key merging of table values across files gives for key k of profile n (the shape
    of finding F8), lowest priority first"""
    cur = None
    for f in [builtin] + list(reversed(files_by_priority(case))):
        st = f["profiles"].get(n, {}).get("settings", {})
        if k in st:
            v = st[k]
            if isinstance(v, dict):
                base = dict(cur) if isinstance(cur, dict) else {}
                base.update(v)
                cur = base
            else:
                cur = v
    return cur


def f8_class(case, builtin, n, k):
    """two files give key k of profile n as tables with different sub-key sets"""
    sets = []
    for f in files_by_priority(case) + [builtin]:
        v = f["profiles"].get(n, {}).get("settings", {}).get(k)
        if isinstance(v, dict):
            sets.append(frozenset(v))
    return len(set(sets)) > 1


# ------------------------------------------------------------------------------------ generator


def gen_value(r, s, groups):
    if s == "priority":
        return r.choice([-100, -5, -1, 0, 1, 7, 100])
    if s == "threads-required":
        return r.choice([1, 2, 3, 8, "num-cpus", "num-test-threads"])
    if s == "run-extra-args":
        return r.choice([[], ["--flag"], ["a b", "--x=1"], ["--test-threads", "1"], ["é"]])
    if s == "retries":
        k = r.random()
        if k < 0.35:
            return r.choice([0, 1, 2, 3, 5])
        if k < 0.65:
            v = {"backoff": "fixed", "count": r.choice([0, 1, 2, 4])}
            if r.random() < 0.6:
                v["delay"] = r.choice(list(DURS))
            if r.random() < 0.5:
                v["jitter"] = r.random() < 0.6 and DURS.get(v.get("delay", "0s"), 0) > 0
            return shuffled(r, v)
        v = {"backoff": "exponential", "count": r.choice([1, 2, 3, 6]), "delay": r.choice(NONZERO_DURS)}
        if r.random() < 0.5:
            v["jitter"] = r.random() < 0.5
        if r.random() < 0.5:
            v["max-delay"] = r.choice([d for d in NONZERO_DURS if DURS[d] >= DURS[v["delay"]]])
        return shuffled(r, v)
    if s == "slow-timeout":
        if r.random() < 0.35:
            return r.choice(NONZERO_DURS)
        v = {"period": r.choice(NONZERO_DURS)}
        if r.random() < 0.5:
            v["terminate-after"] = r.choice([1, 2, 3])
        if r.random() < 0.35:
            v["grace-period"] = r.choice(list(DURS))
        return shuffled(r, v)
    if s == "leak-timeout":
        return r.choice(NONZERO_DURS)
    if s == "test-group":
        return r.choice(["@global"] + groups)
    if s in ("success-output", "failure-output"):
        return r.choice(DISPLAYS)
    if s in JUNIT_SUB:
        return r.random() < 0.5
    raise KeyError(s)


def shuffled(r, d):
    ks = list(d)
    r.shuffle(ks)
    return {k: d[k] for k in ks}


def gen_override(r, groups):
    plat = r.random()
    host = target = None
    form = "table"
    if plat < 0.45:
        pass
    elif plat < 0.65:
        target, form = r.choice(list(SPECS)), "string"
    elif plat < 0.77:
        host = r.choice(list(SPECS))
    elif plat < 0.87:
        target = r.choice(list(SPECS))
    else:
        host, target = r.choice(list(SPECS)), r.choice(list(SPECS))
    has_plat = host is not None or target is not None
    k = r.random()
    if not has_plat or k < 0.8:
        flt = ("filter", r.choice(list(FILTERS)) if r.random() < 0.9 else "default()")
    elif k < 0.9:
        flt = None
    else:
        flt = ("default-filter", r.choice(DEFAULT_FILTERS))
    p = r.choice([0.15, 0.3, 0.5])
    data = {s: gen_value(r, s, groups) for s in SETTINGS if r.random() < p}
    return dict(host=host, target=target, platform_form=form, filter=flt, data=shuffled(r, data),
                junit_dotted=r.random() < 0.4)


def gen_profile(r, groups, f8_bias, name=None):
    st = {}
    p = r.choice([0.2, 0.4, 0.7])
    for k in PROFILE_KEYS:
        if r.random() < (max(p, 0.6) if (f8_bias and k in TABLE_VALUED) else p):
            v = gen_value(r, k, groups)
            if f8_bias and k in TABLE_VALUED and not isinstance(v, dict) and r.random() < 0.6:
                v = gen_value(r, k, groups)
            st[k] = v
    # the default profile of every file is layered over the built-in `slow-timeout = { period = "60s" }`,
    # so a table without `period` loads there (an instance of the F8 class)
    sl = st.get("slow-timeout")
    if name == "default" and isinstance(sl, dict) and len(sl) > 1 and r.random() < 0.2:
        st["slow-timeout"] = {k: v for k, v in sl.items() if k != "period"}
    if r.random() < p:
        j = {}
        if r.random() < 0.6:
            j["path"] = r.choice(["junit.xml", "out/j.xml"])
        if r.random() < 0.5:
            j["store-success-output"] = r.random() < 0.5
        if r.random() < 0.5:
            j["store-failure-output"] = r.random() < 0.5
        if r.random() < 0.2:
            j["report-name"] = "r"
        if j:
            st["junit"] = shuffled(r, j)
    novs = r.choice([0, 0, 1, 2, 3, 4])
    return dict(settings=shuffled(r, st), overrides=[gen_override(r, groups) for _ in range(novs)],
                junit_as_section=r.random() < 0.5)


def gen_case(r):
    ntools = r.choice([0, 1, 1, 2, 2])
    pool = ["default", "ci", "p2"] + (["default-miri"] if r.random() < 0.1 else [])
    f8_bias = r.random() < 0.5
    tool_names = ["tool1", "tool2"][:ntools]
    # test groups a file may name: its own and those of files processed before it (tool configs
    # are processed last to first, the repository config at the end)
    tool_groups = [f"@tool:{t}:g" for t in tool_names]
    files = []
    for i in range(ntools - 1, -1, -1):
        known = tool_groups[i:]
        files.append(gen_file(r, pool, known, tool_names[i], [tool_groups[i]], f8_bias))
    tools = list(reversed(files))
    repo = None
    if r.random() < 0.93:
        repo = gen_file(r, pool, tool_groups + ["g1", "g2"], None, ["g1", "g2"], f8_bias)
    names = ["default"] + [n for f in ([repo] if repo else []) + tools for n in f["profiles"]]
    others = [n for n in names if n != "default"]
    k = r.random()
    if k < 0.4 or not others:
        sel = "default"
    elif k < 0.96:
        sel = r.choice(others)
    else:
        sel = r.choice(["nope", "default-miri"])
    host = r.choice([LINUX, LINUX, LINUX, WIN, MAC])
    target = r.choice([None, None, MAC, WIN, LINUX])
    return dict(repo=repo, tools=tools, profile=sel, host=host, target=target)


def gen_file(r, pool, known_groups, tool, defines, f8_bias):
    k = r.choice([1, 2, 2, 3])
    names = r.sample(pool, min(k, len(pool)))
    if "default" not in names and r.random() < 0.6:
        names[0] = "default"
    r.shuffle(names)
    return dict(tool=tool, profiles={n: gen_profile(r, known_groups, f8_bias, n) for n in names},
                groups=defines)


# fixed cases that are always run first: the F8 witnesses (DESIGN section 6) and a plain one
def witness_cases():
    prof = lambda st: dict(settings=st, overrides=[], junit_as_section=False)
    w1 = dict(repo=dict(tool=None, groups=[], profiles={"default": prof({"slow-timeout": {"period": "10s"}})}),
              tools=[dict(tool="tool1", groups=[], profiles={
                  "default": prof({"slow-timeout": {"period": "30s", "terminate-after": 2}})})],
              profile="default", host=LINUX, target=None)
    w2 = dict(repo=dict(tool=None, groups=[], profiles={
                  "default": prof({"retries": {"backoff": "exponential", "count": 2, "delay": "1s"}})}),
              tools=[dict(tool="tool1", groups=[], profiles={"default": prof(
                  {"retries": {"backoff": "exponential", "count": 3, "delay": "2s", "jitter": True,
                               "max-delay": "10s"}})})],
              profile="default", host=LINUX, target=MAC)
    # two individually valid files whose key-by-key merge does not deserialize
    w3 = dict(repo=dict(tool=None, groups=[], profiles={
                  "ci": prof({"retries": {"backoff": "fixed", "count": 2, "delay": "1s"}})}),
              tools=[dict(tool="tool1", groups=[], profiles={"ci": prof(
                  {"retries": {"backoff": "exponential", "count": 3, "delay": "2s", "max-delay": "10s"}})})],
              profile="default", host=LINUX, target=None)
    # F22: the default profile has a JUnit path and stores the output of passing tests; profile ci has
    # no junit section; --profile ci (documented: ci's value, else the default profile's)
    w4 = dict(repo=dict(tool=None, groups=[], profiles={
                  "default": prof({"junit": {"path": "junit.xml", "store-success-output": True}}),
                  "ci": prof({"retries": 1})}),
              tools=[], profile="ci", host=LINUX, target=None)
    # the same outside the class: ci has its own path and inherits the default profile's flag
    w5 = dict(repo=dict(tool=None, groups=[], profiles={
                  "default": prof({"junit": {"path": "junit.xml", "store-success-output": True,
                                             "store-failure-output": False}}),
                  "ci": prof({"junit": {"path": "ci.xml"}})}),
              tools=[dict(tool="tool1", groups=[], profiles={
                  "ci": prof({"junit": {"store-failure-output": True}})})],
              profile="ci", host=LINUX, target=None)
    return [w1, w2, w3, w4, w5]


# ------------------------------------------------------------------------------------ running cases


def used_filters(case):
    fs = []
    for f in files_by_priority(case):
        for pc in f["profiles"].values():
            for o in pc["overrides"]:
                if o["filter"] is not None and o["filter"][0] == "filter" and o["filter"][1] not in fs:
                    fs.append(o["filter"][1])
    return fs


def used_specs(case):
    sp = []
    for f in files_by_priority(case):
        for pc in f["profiles"].values():
            for o in pc["overrides"]:
                for k in ("host", "target"):
                    if o[k] is not None and o[k] not in sp:
                        sp.append(o[k])
    return sp


def harness_case(case):
    return dict(repo=file_toml(case["repo"]) if case["repo"] is not None else None,
                tools=[dict(name=t["tool"], toml=file_toml(t)) for t in case["tools"]],
                profile=case["profile"], host=case["host"], target=case["target"], queries=QUERIES,
                filters=used_filters(case), specs=used_specs(case))


def coq_case(case, impl, names):
    """the model is given the platform and filter truth tables the real code produced"""
    specs = coq_list([f"({coq_str(s)}, {coq_list([coq_bool(row[0]), coq_bool(row[0] if row[1] is None else row[1])])})"
                      for s, row in zip(used_specs(case), impl["specs"])])
    flts = coq_list([f"({coq_str(f)}, {coq_list([coq_bool(b) for b in row])})"
                     for f, row in zip(used_filters(case), impl["filters"])])
    bp = f"(mk_bp 0 {'None' if case['target'] is None else '(Some 1)'})"
    return (f"case_eval (mk_env {specs} {flts}) {bp} {coq_file(case['repo'])} "
            f"{coq_list([coq_file(t) for t in case['tools']])} {coq_str(case['profile'])} all_tests "
            f"{coq_list([coq_str(n) for n in names])}")


class GlueError(Exception):
    pass


def check_tables(case, impl):
    """the harness's truth tables against the independent ones (a disagreement is a defect of the
    check's own glue or of filterset / target-spec evaluation, not something to pass over)"""
    for s, row in zip(used_specs(case), impl["specs"]):
        want = [SPECS[s][case["host"]], None if case["target"] is None else SPECS[s][case["target"]]]
        if row != want:
            raise GlueError(f"platform spec {s!r} on {case['host']}/{case['target']}: real {row}, table {want}")
    for f, row in zip(used_filters(case), impl["filters"]):
        if FILTERS.get(f) is None:
            continue
        want = [FILTERS[f](q) for q in QUERIES]
        if row != want:
            raise GlueError(f"filter {f!r}: real {row}, independent evaluation {want}")


def evaluate(binary, cases, builtin, tag):
    """-> per case dict(impl, model_probe, model_settings, names)"""
    impl = vlib.run_impl(binary, "overrides", [harness_case(c) for c in cases])
    global _INTERN
    _INTERN = Interner()
    for const in ("0", '"@global"', "false"):     # a_zero, a_global, a_false of the model
        _INTERN(const)
    # cases whose config the real code rejected still get a model run (with empty oracle tables the
    # model's answer for the probe part does not depend on them)
    exprs, names_l = [], []
    for c, i in zip(cases, impl):
        names = profile_names(c, builtin)
        names_l.append(names)
        tables = i if "settings" in i else dict(specs=[[True, True]] * len(used_specs(c)),
                                                filters=[[True] * len(QUERIES)] * len(used_filters(c)))
        exprs.append(coq_case(c, tables, names))
    tests = coq_list([f"mk_t {i} {coq_bool(q['platform'] == 'host')}" for i, q in enumerate(QUERIES)])
    prelude = PRELUDE_TMPL.replace("@BUILTIN@", coq_file(builtin)).replace("@TESTS@", tests) \
        .replace("@STRINGS@", _INTERN.prelude()) \
        .replace("@TBL@", coq_list([f"({n}, {i})" for i, n in enumerate(_INTERN.names.values())]))
    strings = list(_INTERN.names)
    _INTERN = None
    model = vlib.coq_eval(tag, IMPORTS, exprs, prelude)
    out = []
    for c, i, m, names in zip(cases, impl, model, names_l):
        probe = {n: {"retries": decode_sval(m[k][0], strings), "slow-timeout": decode_sval(m[k][1], strings)}
                 for k, n in enumerate(names)}
        rest = m[len(names):]
        settings = [{s: decode_sval(e, strings) for s, e in zip(SETTINGS, per_test)} for per_test in rest]
        out.append(dict(impl=i, probe=probe, model=settings, names=names))
    return out


def judge(case, ev, builtin, chk, known_what, known_f22=None):
    """decide one case (DESIGN section 3). Returns list of (kind, name, detail, no_input)."""
    impl, names = ev["impl"], ev["names"]
    sel = case["profile"]
    verdicts = []
    exists = sel in names
    # profile-level values that do not deserialize after the files are layered (model's view)
    model_invalid = [(n, k) for n in names for k in TABLE_VALUED
                     if ev["probe"][n][k] is not None and canon(k, ev["probe"][n][k]) == INVALID]
    oracle_invalid_f8 = [(n, k) for n in names for k in TABLE_VALUED
                         if f8_class(case, builtin, n, k)
                         and canon(k, deep_merged(case, builtin, n, k)) == INVALID]
    detail = lambda **kw: dict(input=case, toml=harness_case(case), **kw)

    if impl.get("error") == "config":
        if oracle_invalid_f8:
            n, k = oracle_invalid_f8[0]
            if known_what is None:
                verdicts.append(("counterexample", "oracle:precedence", detail(
                    impl=impl, clause=f"two valid files cannot be loaded together: profile.{n}.{k} is merged "
                                      f"key by key into {deep_merged(case, builtin, n, k)}"), False))
            else:
                chk.known_finding(known_what)
                chk.count("known_f8_config_error")
            if not model_invalid:
                verdicts.append(("broken-obligation", "corr:settings", detail(
                    impl=impl, model="loads", note="model does not predict the load failure"), True))
            return verdicts
        # nothing in the generated structure explains the rejection: a defect of the generator
        chk.count("generator_rejected_config")
        vlib.log("C06: generated config rejected by nextest (generator defect, case skipped): "
                 + impl.get("message", "")[:300])
        return verdicts
    if impl.get("error") == "profile-not-found":
        if exists:
            verdicts.append(("counterexample", "oracle:precedence", detail(
                impl=impl, clause=f"profile {sel!r} is defined but was not found"), False))
        elif ev["model"]:
            verdicts.append(("broken-obligation", "corr:settings", detail(
                impl=impl, model="profile exists"), True))
        return verdicts
    if not exists:
        verdicts.append(("counterexample", "oracle:precedence", detail(
            impl="profile accepted", clause=f"profile {sel!r} is defined nowhere but was accepted"), False))
        return verdicts
    if model_invalid or not ev["model"]:
        # the model predicts a load failure (or a missing profile) the real code did not have
        repaired = model_invalid and all(f8_class(case, builtin, n, k) for n, k in model_invalid)
        if not repaired:
            verdicts.append(("broken-obligation", "corr:settings", detail(
                impl="loads", model=dict(invalid=model_invalid, profile_found=bool(ev["model"]))), True))
            return verdicts

    check_tables(case, impl)
    harness_truth = {f: row for f, row in zip(used_filters(case), impl["filters"])}

    def filter_truth(f, q):
        if FILTERS.get(f) is not None:
            return FILTERS[f](q)
        return harness_truth[f][QUERIES.index(q)]

    orc_fail = corr_fail = None
    for qi, q in enumerate(QUERIES):
        got = canon_impl(impl["settings"][qi])
        want = oracle_settings(case, builtin, q, filter_truth)
        mod = ev["model"][qi] if ev["model"] else None
        for s in SETTINGS:
            wv, src = want[s]
            mv = canon(s, mod[s]) if mod is not None else None
            if got[s] != wv:
                # excused only as the listed finding: profile-level table value, in the class, and the
                # implementation shows exactly the key-by-key merge
                excused = False
                if src[0] == "profile" and s in TABLE_VALUED and f8_class(case, builtin, src[1], s) \
                        and got[s] == canon(s, deep_merged(case, builtin, src[1], s)):
                    excused = known_what is not None
                # F22: JUnit storage flag, resolved at profile level, in the class, and the implementation
                # shows exactly "JUnit is off" while the documented rule stores the output
                f22 = (s in JUNIT_SUB and src[0] == "profile" and f22_class(case, builtin)
                       and got[s] is False and wv is True and known_f22 is not None)
                if excused:
                    chk.known_finding(known_what)
                    chk.count("known_f8_value")
                elif f22:
                    chk.known_finding(known_f22)
                    chk.count("known_f22_value")
                elif orc_fail is None:
                    orc_fail = dict(query=q, setting=s, impl=got[s], documented=wv, source=list(src),
                                    clause=f"{s} of test {q['test']!r} in {q['binary_id']} ({q['platform']}) "
                                           f"is {got[s]!r}; the documented precedence gives {wv!r} "
                                           f"(from {' '.join(src)})")
            if mod is not None and got[s] != mv and corr_fail is None:
                # on inputs of the known class the implementation may also satisfy the property
                if not (src[0] == "profile" and s in TABLE_VALUED and f8_class(case, builtin, src[1], s)
                        and got[s] == wv):
                    corr_fail = dict(query=q, setting=s, impl=got[s], model=mv)
    if orc_fail:
        verdicts.append(("counterexample", "oracle:precedence", detail(**orc_fail), False))
    elif corr_fail:
        verdicts.append(("broken-obligation", "corr:settings", detail(
            **corr_fail, note="implementation and model disagree; the precedence oracle accepted the "
                              "implementation's answers for this case"), True))
    return verdicts


def known_entry(fid="F8"):
    for f in vlib.known_findings().get("findings", []):
        if f.get("property") == PROP and f.get("id") == fid:
            return f["what"]
    return None


def corpus():
    p = os.path.join(vlib.VERIF, "corpus", "C06.json")
    return json.load(open(p)) if os.path.exists(p) else []


def shape(case):
    """what makes two cases different for the coverage count"""
    files = files_by_priority(case)
    return json.dumps([case["profile"], case["host"], case["target"],
                       [[(n, sorted(pc["settings"]), [(o["host"], o["target"], o["filter"], sorted(o["data"]))
                                                      for o in pc["overrides"]])
                         for n, pc in f["profiles"].items()] for f in files]], sort_keys=True, default=str)


def run(tier, seed):
    chk = vlib.Check(PROP, tier, seed)
    gate = vlib.coq_gate(PROP)
    vlib.gate_or_violation(chk, gate)
    # DESIGN 11.7 (second round): these decisions are regenerated from the Rust source and proved equal to the
    # model's for all inputs; a failure is reported when the check finishes unless a stage below finds a
    # concrete failing input
    gen_tie.gate(chk, ['override_platform_guard'], gate)
    # glue code (DESIGN 11.7, third round): the body of the loop over the overrides in TestSettings::new (first override
    # that sets a setting wins, for each of the eleven settings), read from the source
    gen_tie.gate(chk, ['override_loop_body', 'display_setting'], gate, family="glue")
    # fifth round: profile inheritance -- NextestConfigImpl::get_profile (no table besides the default profile for the
    # name "default" only) and the accessors of EvaluatableProfile (the selected table's value, else the default's)
    gen_tie.gate(chk, ['get_profile', 'profile_accessor_retries', 'profile_accessor_slow_timeout',
                       'profile_accessor_leak_timeout', 'profile_accessor_threads_required',
                       'profile_accessor_test_threads', 'profile_accessor_success_output',
                       'profile_accessor_failure_output'], gate, family="glue")
    checker_cmd = "make -C coq Properties/C06.vo && coqc gen/assump_C06.v (Print Assumptions)"
    binary, err = vlib.build_harness()
    if binary is None:
        chk.violation("broken-obligation", "harness-build", dict(error=err), no_input=True)
        return chk.finish(gate, checker_cmd, [])
    r = vlib.rng_for(seed, PROP)
    thorough = tier == "thorough"
    builtin = builtin_file()
    known_what = known_entry()
    known_f22 = known_entry("F22")

    cases = witness_cases() + corpus()
    n_fixed = len(cases)
    while len(cases) < (15000 if thorough else 800):
        cases.append(gen_case(r))
    results = []
    step = 1500
    for off in range(0, len(cases), step):
        results.extend(evaluate(binary, cases[off:off + step], builtin, f"c06_{off // step}"))

    distinct, reported = set(), set()
    n_eval = 0
    for ci, (case, ev) in enumerate(zip(cases, results)):
        files = files_by_priority(case)
        novs = sum(len(pc["overrides"]) for f in files for pc in f["profiles"].values())
        chk.count("cases")
        chk.count(f"tools={len(case['tools'])}")
        chk.count(f"profiles_in_files={min(sum(len(f['profiles']) for f in files), 6)}")
        chk.count(f"overrides={'0' if novs == 0 else '1-3' if novs < 4 else '4-8' if novs < 9 else '9+'}")
        chk.count("selected=" + ("default" if case["profile"] == "default" else "other"))
        chk.count("target=" + ("none" if case["target"] is None else
                               "same-as-host" if case["target"] == case["host"] else "cross"))
        if any(f8_class(case, builtin, n, k) for n in ev["names"] for k in TABLE_VALUED):
            chk.count("in_f8_class")
        if "settings" in ev["impl"]:
            n_eval += len(QUERIES) * len(SETTINGS)
            chk.count("settings_compared", len(QUERIES) * len(SETTINGS))
            if novs >= 2 and len(files) >= 2:
                distinct.add(shape(case))
        else:
            chk.count("impl_" + ev["impl"].get("error", "?"))
        if f22_class(case, builtin):
            chk.count("in_f22_class")
        for kind, name, detail, no_input in judge(case, ev, builtin, chk, known_what, known_f22):
            if name not in reported:      # one replay per failing clause is enough
                reported.add(name)
                chk.violation(kind, name, detail, no_input=no_input)
        if ci in (0, n_fixed, n_fixed + 1):
            chk.sample(dict(case=harness_case(case)["repo"], tools=[t["toml"] for t in harness_case(case)["tools"]],
                            profile=case["profile"], host=case["host"], target=case["target"],
                            first_query=QUERIES[0],
                            impl=(ev["impl"]["settings"][0] if "settings" in ev["impl"] else ev["impl"])))
    rejected = chk.counts.get("generator_rejected_config", 0)
    if rejected * 50 > len(cases):
        raise GlueError(f"{rejected} of {len(cases)} generated configurations were rejected by nextest")

    chk.assumptions = [
        "target-spec evaluation and filterset evaluation enter the model as truth tables produced by the "
        "real code for the case at hand (and are cross-checked against independent tables)",
        "TOML parsing and serde deserialization are outside the model: a file is the structure the TOML "
        "text denotes; values are atoms or flat tables of atoms; canonicalisation of a value "
        "(defaults of omitted sub-keys, validity) is done by props/C06.py for model and oracle alike",
        "the built-in layer is read from nextest-runner/default-config.toml on every run",
        "the command-line / environment clause is observed for retries (the one per-test setting that has "
        "both): --retries N, NEXTEST_RETRIES=N and both, on the real cargo-nextest binary over the puppet "
        "workspace, against policies from overrides / the selected profile / the default profile "
        "(lib/e2e_retries.py); --success-output / --failure-output are reporter display options applied "
        "outside settings_for and are not verified",
    ]
    # end-to-end: the command-line / environment value wins (retries), on the real binary
    try:
        import e2e_retries
        _, forced_runs, forced_tests = e2e_retries.stage(chk, PROP, tier, seed)
        # the settings the RUNNER uses for each test (not only settings_for): real runs whose attempt counts show the
        # retries resolved per test, incl. two binaries with the same binary name in different packages
        import e2e_general
        e2e_general.stage(chk, PROP, tier, seed, n_quick=3, n_thorough=20)
    except RuntimeError as ex:
        forced_tests = 0
        chk.violation("broken-obligation", "e2e-build", dict(error=str(ex)[-3000:]), no_input=True)
    return chk.finish(
        gate, checker_cmd,
        ["Coq 8.16.1 kernel + vm_compute",
         "hand-written model Model/Overrides.v tied by corr:settings (all 11 settings of every fixture query "
         "of every generated configuration) and by the load-failure probe",
         "Python generator / TOML writer / canonicaliser / oracle in props/C06.py",
         "harness/src/overrides.rs (reads SlowTimeout through its Debug rendering: no public accessors)"],
        dict(evaluations=n_eval, distinct_nontrivial=len(distinct),
             rule="case = (repo config, 0-2 tool configs, selected profile, host, target); every case is "
                  "evaluated for all fixture queries x 11 settings; non-trivial = at least two files and at "
                  "least two overrides, loaded successfully; distinct by (profile, platforms, per file and "
                  "profile: setting keys, per override: platform specs, filter, settings set)",
             traces_validated_against_impl=sum(1 for e in results if "settings" in e["impl"]) * len(QUERIES)
             + forced_tests))


def replay(path, seed):
    d = json.load(open(path))
    case = d.get("input")
    print(json.dumps({k: v for k, v in d.items() if k != "toml"}, indent=1, default=str)[:4000])
    if isinstance(case, dict) and "forced_scenario" in case:
        import e2e_retries
        why = e2e_retries.replay(d)
        print("oracle now:", why or "accepts")
        return 1 if why else 0
    if not isinstance(case, dict) or "profile" not in case:
        return 0
    for f in files_by_priority(case):
        for pc in f["profiles"].values():
            for o in pc["overrides"]:
                if o["filter"] is not None:
                    o["filter"] = tuple(o["filter"])
    binary, err = vlib.build_harness()
    if binary is None:
        print(err)
        return 1
    builtin = builtin_file()
    chk = vlib.Check(PROP, "replay", seed)
    ev = evaluate(binary, [case], builtin, "c06_replay")[0]
    verdicts = judge(case, ev, builtin, chk, known_entry(), known_entry("F22"))
    for kind, name, detail, _ in verdicts:
        print("still failing:", name, detail.get("clause") or detail.get("note") or "")
    if not verdicts:
        print("oracle and correspondence accept this input now")
    return 1 if verdicts else 0
