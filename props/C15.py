"""C15 — each attempt is a fresh process with the exact argv, directory and environment.

Theorems: Properties/C15.v (split (join ws) = Some ws for every word list; the launcher is
transparent; argv shape; nextest's variables win over inherited / cargo [env] / build-script layers;
NEXTEST_RUN_ID constant).
Correspondence, on every run:
  corr:shellwords-*   the real shell_words::{quote, join, split} vs Model/ShellWords.v (exhaustive
                      small tables + random word lists / arbitrary strings dense in metacharacters)
  corr:make-command   the real TestInstance::make_command (hook H5; cargo [env], target runner and
                      package metadata read by the real config / guppy code) vs Model/Command.v
Oracle (plain Python, independent of the model): split(join(ws)) == ws on the implementation's own
outputs, an independently written splitter, the expected argv built directly, the documented
values of the variables nextest sets.
Process-level facts (fresh process, pgid, stdin, the real execve through the launcher,
NEXTEST_RUN_ID at run time) are not reached here: they await the end-to-end rig."""
import itertools, json, os, subprocess
import vlib, gen_tie
from vlib import coq_str, coq_list, coq_bool, decode_str

PROP = "C15"
IMPORTS = ["Base.Str", "Model.ShellWords", "Model.Command"]
FINDING_ID = "F15a"

PRELUDE_SW = """
Definition enc_split (o : option (list str)) : list (list N) :=
  match o with Some ws => [1] :: ws | None => [[0]] end.
Definition rt (ws : list str) : list (list N) := join ws :: enc_split (split (join ws)).
Definition sp (s : str) : list (list N) := enc_split (split s).
Definition qt (s : str) : list (list N) := [quote s].
"""

PRELUDE_CMD = """
Definition mkpkg v ma mi pa pre au nm de ho li lf re rv : package :=
  {| p_version := v; p_major := ma; p_minor := mi; p_patch := pa; p_pre := pre; p_authors := au;
     p_name := nm; p_description := de; p_homepage := ho; p_license := li; p_license_file := lf;
     p_repository := re; p_rust_version := rv |}.
Definition mkce src nm v f rl : cargo_entry :=
  {| ce_source := src; ce_name := nm; ce_value := v; ce_force := f; ce_relative := rl |}.
Definition obs (ds : option str) (o : option command) :=
  match o with
  | None => (0, @nil N, @nil str, @nil N, @nil (str * str), (0, @nil N, @nil str))
  | Some c =>
      (1, cmd_program c, cmd_args c, cmd_cwd c, env_final (cmd_env c),
       match ds with
       | None => (2, @nil N, @nil str)
       | Some _ => match launcher_exec (cmd_args c) with
                   | Some (p, a) => (1, p, a)
                   | None => (0, @nil N, @nil str)
                   end
       end)
  end.
Definition mk profile dylib tdir entries cwd pkg bs bins ds rn binary name ign extra inh :=
  obs ds (make_command
    {| rc_profile := profile; rc_run_id := []; rc_platform := Linux; rc_dylib_path := dylib;
       rc_target_dir := tdir; rc_cargo_env := env_map_new entries |}
    {| sc_cwd := cwd; sc_package := pkg; sc_build_script := bs; sc_non_test_binaries := bins |}
    ds rn binary name ign extra inh).
"""

# ------------------------------------------------------------------ independent oracle pieces


def py_split(s):
    """Word splitting as shell-words documents it (POSIX quoting, '#' comments at word start, line
    continuations), written independently of the Coq model as an index scanner. None = error."""
    words, i, n = [], 0, len(s)
    while True:
        while i < n and s[i] in " \t\n":
            i += 1
        if i >= n:
            return words
        if s[i] == "#":
            while i < n and s[i] != "\n":
                i += 1
            continue
        if s.startswith("\\\n", i):
            i += 2
            continue
        w = []
        while i < n and s[i] not in " \t\n":
            c = s[i]
            if c == "'":
                j = s.find("'", i + 1)
                if j < 0:
                    return None
                w.append(s[i + 1:j])
                i = j + 1
            elif c == '"':
                i += 1
                while True:
                    if i >= n:
                        return None
                    c = s[i]
                    if c == '"':
                        i += 1
                        break
                    if c == "\\":
                        if i + 1 >= n:
                            return None
                        d = s[i + 1]
                        if d == "\n":
                            pass
                        elif d in '$`"\\':
                            w.append(d)
                        else:
                            w.append("\\" + d)
                        i += 2
                    else:
                        w.append(c)
                        i += 1
            elif c == "\\":
                if i + 1 >= n:
                    w.append("\\")
                    i += 1
                elif s[i + 1] == "\n":
                    i += 2
                else:
                    w.append(s[i + 1])
                    i += 2
            else:
                w.append(c)
                i += 1
        words.append("".join(w))


def expected_argv(case):
    """the argv the property demands, built directly from the case"""
    tail = ["--exact", case["name"], "--nocapture"] + (["--ignored"] if case["ignored"] else []) + case["extra"]
    if case["runner"]:
        return case["runner"][0], case["runner"][1:] + [case["binary_path"]] + tail
    return case["binary_path"], tail


def expected_fixed_env(case):
    p = case["pkg"]
    pre = p["pre"]
    return {
        "NEXTEST": "1",
        "NEXTEST_EXECUTION_MODE": "process-per-test",
        "NEXTEST_PROFILE": case["profile"],
        "CARGO_MANIFEST_DIR": case["cwd"],
        "CARGO_PKG_VERSION": pkg_version(p),
        "CARGO_PKG_VERSION_MAJOR": str(p["major"]),
        "CARGO_PKG_VERSION_MINOR": str(p["minor"]),
        "CARGO_PKG_VERSION_PATCH": str(p["patch"]),
        "CARGO_PKG_VERSION_PRE": pre,
        "CARGO_PKG_AUTHORS": ":".join(p["authors"]),
        "CARGO_PKG_NAME": p["name"],
        "CARGO_PKG_DESCRIPTION": p["description"] or "",
        "CARGO_PKG_HOMEPAGE": p["homepage"] or "",
        "CARGO_PKG_LICENSE": p["license"] or "",
        "CARGO_PKG_LICENSE_FILE": p["license_file"] or "",
        "CARGO_PKG_REPOSITORY": p["repository"] or "",
        "CARGO_PKG_RUST_VERSION": p["rust_version"] or "",
    }


def in_known_class(case):
    rv = case["pkg"]["rust_version"]
    return rv is not None and rv.count(".") == 1


def oracle_command(case, res, base_env):
    """Evaluates the property's own statement on what the implementation built.
    Returns (list of failing clauses, known_finding_observed)."""
    fails = []
    known = False
    if not isinstance(res, dict) or "program" not in res:
        return [f"no command was built: {res}"], False
    prog, args = expected_argv(case)
    if case["double_spawn"]:
        if not res.get("double_spawn_active"):
            return ["double-spawn could not be enabled in the harness"], False
        if res["args"][:3] != ["__double-spawn", "--", prog] or len(res["args"]) != 4:
            fails.append(f"launcher invocation is {res['args'][:3]} (+{len(res['args']) - 3} args), expected "
                         f"['__double-spawn', '--', {prog!r}] + one joined argument")
        got = res["launcher"].get("ok") if isinstance(res["launcher"], dict) else None
        if got != args:
            fails.append(f"argv after the launcher's split is {got!r}, the property demands {args!r}")
    else:
        if (res["program"], res["args"]) != (prog, args):
            fails.append(f"argv is {res['program']!r} {res['args']!r}, the property demands {prog!r} {args!r}")
    if res["cwd"] != case["cwd"]:
        fails.append(f"cwd is {res['cwd']!r}, the package directory is {case['cwd']!r}")
    eff = dict(base_env)
    eff.update(dict(case["inherited"]))
    for k, v in res["envs"]:
        if v is None:
            eff.pop(k, None)
        else:
            eff[k] = v
    for k, want in expected_fixed_env(case).items():
        got = eff.get(k)
        if got == want:
            continue
        if k == "CARGO_PKG_RUST_VERSION" and in_known_class(case) and got == want + ".0":
            known = True
            continue
        fails.append(f"{k} is {got!r} in the child, nextest's documented value is {want!r}")
    for k, v in case["inherited"]:
        seen = dict((a, b) for a, b in res["seen_inherited"]).get(k)
        if seen != dict(case["inherited"])[k]:
            fails.append(f"harness could not set inherited {k!r} (saw {seen!r})")
    return fails, known


# ------------------------------------------------------------------ generators

META = list("'\"\\$` \t\n#*?[]~=%!;&|<>(){}")
OTHER = ["a", "b", "-", "é", "˜", "\x01", "\x7f", "\r", "𝄞", "0", ":", "/", ",", "\u3000", "\u00a0", "\x0b", "\x0c"]
ALPHA = META + OTHER
SMALL9 = ["a", "'", '"', "\\", " ", "\n", "#", "$", "é"]
SPLIT7 = ["a", "'", '"', "\\", " ", "\n", "#"]


def gen_word(r, maxlen=6):
    k = r.choice([0, 1, 1, 2, 2, 3, 4, maxlen])
    pool = r.choice([ALPHA, ALPHA, META, ["'", "\\", "a"], ['"', "\\", "$", "`", "\n", "a"]])
    return "".join(r.choice(pool) for _ in range(k))


def gen_words(r):
    return [gen_word(r) for _ in range(r.choice([0, 1, 1, 2, 3, 5]))]


def gen_line(r):
    pool = r.choice([ALPHA, META, SPLIT7 + ["$", "`", "\t"], ['"', "\\", "$", "`", "\n", "a", " "]])
    return "".join(r.choice(pool) for _ in range(r.choice([0, 1, 2, 3, 5, 8, 12])))


HOSTILE_NAMES = [
    "tests::plain", "it's", 'say "hi"', "a b", "$HOME", "`id`", "back\\slash", "tab\there", "--exact",
    "--ignored", "-", "--", "#hash", "glob*?[a]", "~", "~root", "a=b", "100%", "x;y&z|w", "<in>out",
    "(p){b}", "é𝄞", "'", "''", "\\", "\\'", "'\\''", "a\nb", " lead", "trail ", "", "˜", "\x01\x7f",
    "!", "\\\n", '"', "mod::test with spaces and 'quotes' and \"double\" $x `y` \\ # *",
    # white space that is not ASCII space / tab / newline: shell_words does not quote it, so nothing may split on it
    "全角\u3000スペース", "nb\u00a0sp", "em\u2003sp", "vt\x0bff\x0cx", "cr\rx", "ls\u2028x", "nel\u0085x", "\u3000",
]
KEY_POOL = ["NEXTEST", "NEXTEST_EXECUTION_MODE", "NEXTEST_PROFILE", "CARGO_MANIFEST_DIR", "CARGO_PKG_NAME",
            "CARGO_PKG_VERSION", "CARGO_PKG_AUTHORS", "CARGO_PKG_RUST_VERSION", "NEXTEST_RUN_ID",
            "LD_LIBRARY_PATH", "NEXTEST_LD_LIBRARY_PATH", "NEXTEST_LD_VERIF", "NEXTEST_BIN_EXE_tool", "OUT_DIR",
            "FOO", "BAR", "HOME", "PATH", "MY VAR", "é", "lower", "__NEXTEST_ATTEMPT"]
VALUES = ["evil", "", "a b", "it's", 'q"q', "x=y", "$HOME", "é𝄞", "a/b", "../up", "/abs/path", "\\", "1"]


def toml_str(s):
    out = ['"']
    for ch in s:
        o = ord(ch)
        if ch in '"\\':
            out.append("\\" + ch)
        elif o < 0x20 or o == 0x7f:
            out.append("\\u%04X" % o)
        else:
            out.append(ch)
    out.append('"')
    return "".join(out)


CFG_DIRS = ["w/sub", "w", ""]          # nearest to the config cwd first; "" is the isolation root


def gen_command_case(r, idx, root):
    name = r.choice(HOSTILE_NAMES) if r.random() < 0.7 else gen_word(r, 10).replace("\x00", "")
    extra = r.choice([[], [], ["--test-threads", "1"], [gen_word(r) for _ in range(r.randint(1, 4))]])
    pkg = dict(
        name=r.choice(["pkg", "my-pkg", "pkg with space", "é"]),
        major=r.choice([0, 1, 12]), minor=r.choice([0, 2, 70]), patch=r.choice([0, 3]),
        pre=r.choice(["", "", "beta.1", "rc-2"]), build=r.choice(["", "", "b5"]),
        authors=r.choice([[], ["A <a@b.c>"], ["A", "B:C", "it's \"me\""]]),
        description=r.choice([None, "plain", "multi\nline 'desc' $x"]),
        homepage=r.choice([None, "https://h.example/?q=1&r=2"]),
        license=r.choice([None, "MIT OR Apache-2.0"]),
        license_file=r.choice([None, "LICENSE FILE.txt"]),
        repository=r.choice([None, "https://r.example/x y"]),
        rust_version=r.choice([None, None, "1.70.1", "1.56.0", "1.70"]))
    # cargo [env] entries: (where, key, value, force, relative); where = "cli" | index into CFG_DIRS
    entries = []
    for _ in range(r.choice([0, 1, 2, 4, 7])):
        where = r.choice(["cli", 0, 0, 1, 1, 2])
        key = r.choice(KEY_POOL)
        if where == "cli":
            entries.append((where, key, r.choice(VALUES), None, None))
        else:
            entries.append((where, key, r.choice(VALUES), r.choice([None, None, True, False]),
                            r.choice([None, None, None, True, False])))
    # one entry per (file, key): TOML forbids duplicate keys in a table
    seen, uniq = set(), []
    for e in entries:
        if e[0] != "cli" and (e[0], e[1]) in seen:
            continue
        seen.add((e[0], e[1]))
        uniq.append(e)
    # stay out of the class on which apply_env panics (a --config option for a key that a config
    # file marks relative); see docs/notes/C15.md
    cli_keys = {e[1] for e in uniq if e[0] == "cli"}
    entries = [(w, k, v, f, (None if (k in cli_keys and rel) else rel)) for (w, k, v, f, rel) in uniq]
    runner = None
    if r.random() < 0.3:
        runner = [r.choice(["/opt/run ner", "qemu-x", "/usr/bin/env"])] + \
                 [gen_word(r) for _ in range(r.randint(0, 3))]
    runner_dir = r.choice([0, 1, 2])
    inherited = []
    for _ in range(r.choice([0, 1, 3, 5])):
        k = r.choice(KEY_POOL)
        if k.startswith("LD_") or k in [x for x, _ in inherited]:
            continue
        inherited.append([k, r.choice(VALUES)])
    bs = None
    if r.random() < 0.4:
        pairs = []
        for _ in range(r.choice([0, 1, 3])):
            pairs.append([r.choice(KEY_POOL + ["BS_VAR"]), r.choice([v for v in VALUES if "\n" not in v])])
        bs = dict(out_dir="debug/build/pkg-0123/out", pairs=pairs, new_syntax=r.random() < 0.5)
    bins = r.choice([[], [["tool", "/w/target/debug/tool"]], [["my-bin", "/w/t/my-bin"], ["x y", "/w/t/x y"]]])
    return dict(idx=idx, root=root, name=name, ignored=r.random() < 0.4, extra=extra,
                double_spawn=r.random() < 0.6, profile=r.choice(["default", "ci", "my profile", "é", "'q'"]),
                binary_path=r.choice(["/w/target/debug/deps/bin-0123", "/w/tar get/deps/b in"]),
                cwd=r.choice(["/w/pkg", "/w/my pkg/é"]), platform=r.choice(["target", "host"]),
                pkg=pkg, entries=entries, runner=runner, runner_dir=runner_dir, inherited=inherited,
                build_script=bs, bins=bins, base_output=r.choice([[], [], ["debug"]]))


def pkg_version(p):
    return f"{p['major']}.{p['minor']}.{p['patch']}" + (f"-{p['pre']}" if p["pre"] else "") + \
        (f"+{p['build']}" if p["build"] else "")


def metadata_json(pkg):
    ver = pkg_version(pkg)
    pid = f"{pkg['name']} {ver} (path+file:///w/pkg)"
    p = dict(name=pkg["name"], version=ver, id=pid, license=pkg["license"], license_file=pkg["license_file"],
             description=pkg["description"], source=None, dependencies=[],
             targets=[dict(kind=["lib"], crate_types=["lib"], name="x", src_path="/w/pkg/src/lib.rs",
                           edition="2021", doc=True, doctest=True, test=True)],
             features={}, manifest_path="/w/pkg/Cargo.toml", metadata=None, publish=None,
             authors=pkg["authors"], categories=[], keywords=[], readme=None, repository=pkg["repository"],
             homepage=pkg["homepage"], documentation=None, edition="2021", links=None, default_run=None,
             rust_version=pkg["rust_version"])
    d = dict(packages=[p], workspace_members=[pid],
             resolve=dict(nodes=[dict(id=pid, dependencies=[], deps=[], features=[])], root=pid),
             target_directory="/w/target", version=1, workspace_root="/w", metadata=None)
    return json.dumps(d), pid


def config_path(root, d):
    return os.path.join(root, d, ".cargo", "config.toml") if d else os.path.join(root, ".cargo", "config.toml")


def harness_case(c):
    """the JSON the harness reads: real config files, --config options, metadata, build-script output"""
    root = c["root"]
    files = {}
    per_file = {}
    cli = []
    for where, k, v, force, rel in c["entries"]:
        if where == "cli":
            cli.append(f"env.{toml_str(k)}={toml_str(v)}")
        else:
            per_file.setdefault(where, []).append((k, v, force, rel))
    for di in set(list(per_file) + ([c["runner_dir"]] if c["runner"] else [])):
        lines = []
        if c["runner"] and di == c["runner_dir"]:
            lines.append("[target.'cfg(unix)']")
            lines.append("runner = [" + ", ".join(toml_str(x) for x in c["runner"]) + "]")
        if di in per_file:
            lines.append("[env]")
            for k, v, force, rel in per_file[di]:
                if force is None and rel is None:
                    lines.append(f"{toml_str(k)} = {toml_str(v)}")
                else:
                    f = [f"value = {toml_str(v)}"]
                    if force is not None:
                        f.append(f"force = {'true' if force else 'false'}")
                    if rel is not None:
                        f.append(f"relative = {'true' if rel else 'false'}")
                    lines.append(f"{toml_str(k)} = {{ {', '.join(f)} }}")
        rel_path = (CFG_DIRS[di] + "/" if CFG_DIRS[di] else "") + ".cargo/config.toml"
        files[rel_path] = "\n".join(lines) + "\n"
    bs = c["build_script"]
    if bs:
        pre = "cargo::rustc-env=" if bs["new_syntax"] else "cargo:rustc-env="
        out = ["cargo:rerun-if-changed=build.rs"] + [f"{pre}{k}={v}" for k, v in bs["pairs"]] + \
              ["cargo:rustc-env=NO_VALUE_IS_SKIPPED", "noise"]
        files["target/debug/build/pkg-0123/output"] = "\n".join(out) + "\n"
    meta, pid = metadata_json(c["pkg"])
    return dict(op="make", root=root, files=[[k, v] for k, v in files.items()], config_cwd="w/sub",
                cli_configs=cli, metadata=meta, package_id=pid,
                build_script_out_dir=bs["out_dir"] if bs else None, base_output_dirs=c["base_output"],
                name=c["name"], ignored=c["ignored"], extra=c["extra"], double_spawn=c["double_spawn"],
                profile=c["profile"], binary_path=c["binary_path"], cwd=c["cwd"], platform=c["platform"],
                non_test_binaries=c["bins"], inherited=c["inherited"])


def opt(x, f=coq_str):
    return "None" if x is None else f"(Some {f(x)})"


def coq_pairs(ps):
    return coq_list([f"({coq_str(a)}, {coq_str(b)})" for a, b in ps])


def coq_command_case(c, base_env):
    """the same case as an expression over Model/Command.v"""
    root = c["root"]
    p = c["pkg"]
    # precedence order: --config options in order, then files nearest first
    ents = [e for e in c["entries"] if e[0] == "cli"] + \
           sorted([e for e in c["entries"] if e[0] != "cli"], key=lambda e: e[0])
    ce = []
    for where, k, v, force, rel in ents:
        src = "None" if where == "cli" else f"(Some {coq_str(config_path(root, CFG_DIRS[where]))})"
        ce.append(f"mkce {src} {coq_str(k)} {coq_str(v)} {opt(force, coq_bool)} {opt(rel, coq_bool)}")
    tdir = os.path.join(root, "target")
    new_paths = []
    for b in c["base_output"]:
        new_paths += [os.path.join(tdir, b, "deps"), os.path.join(tdir, b)]
    dylib = ":".join(new_paths + [x for x in base_env.get("LD_LIBRARY_PATH", "").split(":") if x])
    pkg = (f"(mkpkg {coq_str(pkg_version(p))} {coq_str(str(p['major']))} {coq_str(str(p['minor']))} "
           f"{coq_str(str(p['patch']))} {coq_str(p['pre'])} {coq_list([coq_str(a) for a in p['authors']])} "
           f"{coq_str(p['name'])} {opt(p['description'])} {opt(p['homepage'])} {opt(p['license'])} "
           f"{opt(p['license_file'])} {opt(p['repository'])} {opt(p['rust_version'])})")
    bs = c["build_script"]
    bsx = "None" if not bs else \
        f"(Some {{| bs_out_dir := {coq_str(bs['out_dir'])}; bs_env := {coq_pairs(bs['pairs'])} |}})"
    ds = "(Some " + coq_str("/proc/self/exe") + ")" if c["double_spawn"] else "None"
    rn = "None" if not c["runner"] else \
        f"(Some {{| r_binary := {coq_str(c['runner'][0])}; r_args := {coq_list([coq_str(a) for a in c['runner'][1:]])} |}})"
    inh = coq_pairs(list(base_env.items()) + [tuple(x) for x in c["inherited"]])
    return (f"mk {coq_str(c['profile'])} {coq_str(dylib)} {coq_str(tdir)} {coq_list(ce)} {coq_str(c['cwd'])} "
            f"{pkg} {bsx} {coq_pairs(c['bins'])} {ds} {rn} {coq_str(c['binary_path'])} {coq_str(c['name'])} "
            f"{coq_bool(c['ignored'])} {coq_list([coq_str(a) for a in c['extra']])} {inh}")


def norm_model_cmd(m):
    ok, prog, args, cwd, envf, launcher = m[0], m[1], m[2], m[3], m[4], m[5:]
    if len(launcher) == 1:
        launcher = launcher[0]
    return dict(built=ok, program=decode_str(prog), args=[decode_str(a) for a in args], cwd=decode_str(cwd),
                env={decode_str(k): decode_str(v) for k, v in envf},
                launcher=[launcher[0], decode_str(launcher[1]), [decode_str(a) for a in launcher[2]]])


def norm_impl_cmd(res):
    if not isinstance(res, dict) or "program" not in res:
        return dict(built=0, raw=res)
    if res["launcher"] is None:
        la = [2, "", []]
    elif "ok" in res["launcher"]:
        # the launcher execs args[2] with the split words
        la = [1, res["args"][2] if len(res["args"]) > 2 else "", res["launcher"]["ok"]]
    else:
        la = [0, "", []]
    return dict(built=1, program=res["program"], args=res["args"], cwd=res["cwd"],
                env={k: v for k, v in res["envs"] if v is not None}, launcher=la)


# ------------------------------------------------------------------ running the harness

def base_environment():
    """the (small, fixed) environment the harness process itself inherits; LD_/DYLD_ variables are
    read once per process by nextest, so they are part of the base, not of the cases"""
    return {"PATH": os.environ.get("PATH", "/usr/bin:/bin"), "HOME": "/root",
            "VERIF_REPO": vlib.REPO, "LD_LIBRARY_PATH": "/x/lib:/y/lib", "LD_VERIF": "ld value",
            "DYLD_VERIF_PATH": "/dy:ld", "NEXTEST_PROFILE": "inherited-evil", "CARGO_PKG_NAME": "inherited-evil"}


def run_harness(binary, sub, cases, env, shards=8, timeout=1200):
    if not cases:
        return []
    shards = max(1, min(shards, len(cases) // 40 + 1))
    per = (len(cases) + shards - 1) // shards
    procs = []
    for s in range(shards):
        chunk = cases[s * per:(s + 1) * per]
        if chunk:
            p = subprocess.Popen([binary, sub], stdin=subprocess.PIPE, stdout=subprocess.PIPE,
                                 stderr=subprocess.PIPE, text=True, env=env)
            procs.append((p, "\n".join(json.dumps(c) for c in chunk) + "\n", len(chunk)))
    out = []
    for p, data, k in procs:
        o, e = p.communicate(data, timeout=timeout)
        lines = [l for l in o.split("\n") if l.strip()]
        if p.returncode != 0 or len(lines) != k:
            raise RuntimeError(f"harness {sub} failed rc={p.returncode} got {len(lines)}/{k}: {e[-1500:]}")
        out.extend(json.loads(l) for l in lines)
    return out


def corpus():
    p = os.path.join(vlib.VERIF, "corpus", "C15.json")
    return json.load(open(p)) if os.path.exists(p) else dict(words=[], lines=[], commands=[])


def cps(s):
    return [ord(ch) for ch in s]


# ------------------------------------------------------------------ end to end: the real runner

PRELUDE_E2E = """
Definition mkpkg v ma mi pa pre au nm de ho li lf re rv : package :=
  {| p_version := v; p_major := ma; p_minor := mi; p_patch := pa; p_pre := pre; p_authors := au;
     p_name := nm; p_description := de; p_homepage := ho; p_license := li; p_license_file := lf;
     p_repository := re; p_rust_version := rv |}.
Definition mkce src nm v f rl : cargo_entry :=
  {| ce_source := src; ce_name := nm; ce_value := v; ce_force := f; ce_relative := rl |}.
Definition enc_opt (o : option str) : list N := match o with Some v => 1 :: v | None => [0] end.
Definition mkrun profile runid dylib tdir entries : run_cfg :=
  {| rc_profile := profile; rc_run_id := runid; rc_platform := Linux; rc_dylib_path := dylib;
     rc_target_dir := tdir; rc_cargo_env := env_map_new entries |}.
Definition tenv (r : run_cfg) cwd pkg attempt gslot (setup inh : env) (keys : list str) : list (list N) :=
  match test_assignments r
          {| sc_cwd := cwd; sc_package := pkg; sc_build_script := None; sc_non_test_binaries := [] |}
          {| ac_attempt := attempt; ac_global_slot := gslot; ac_group := [64; 103; 108; 111; 98; 97; 108];
             ac_group_slot := None; ac_setup_env := setup |} inh with
  | None => [[2]]
  | Some e => map (fun k => enc_opt (child_env_get k e inh)) keys
  end.
Definition senv (r : run_cfg) envpath (inh : env) (keys : list str) : list (list N) :=
  match script_assignments r envpath inh with
  | None => [[2]]
  | Some e => map (fun k => enc_opt (child_env_get k e inh)) keys
  end.
"""


def gen_scenario(r, idx, root, launcher, thorough):
    pool = [n for n in HOSTILE_NAMES if "\n" not in n and "\r" not in n]
    names = []
    while len(names) < r.choice([2, 3, 5, 7]):
        nm = r.choice(pool) if r.random() < 0.7 else gen_word(r, 8).replace("\n", "n").replace("\r", "r")
        if nm not in names:
            names.append(nm)
    tests = [dict(name=nm, ignored=r.random() < 0.35) for nm in names]
    flaky = [t["name"] for t in tests if r.random() < 0.25]
    base = gen_command_case(r, idx, root)
    script = r.choice([None, ["--script", gen_word(r)]])
    # what the setup script exports (keys starting with NEXTEST are rejected by nextest: C18)
    script_env = r.choice([[], [["FROM_SCRIPT", "1"]], [["CARGO_PKG_NAME", "from-script"], ["FOO", "s=t u"]],
                           [["CARGO_MANIFEST_DIR", "/from/script"], ["OUT_DIR", "/o"], ["lower", ""]]]) if script else []
    return dict(idx=idx, tests=tests, fail_first_attempt=flaky, retries=1 if flaky else r.choice([0, 2]),
                extra=r.choice([[], ["--extra", "a b", "it's"], [gen_word(r) for _ in range(r.randint(1, 3))]]),
                double_spawn=r.random() < 0.6, script=script, script_env=script_env,
                test_threads=r.choice([1, 2, 4]), entries=base["entries"], inherited=base["inherited"],
                pkg=base["pkg"], profile="default", no_capture=r.random() < 0.3)


def write_scenario(sc, root, launcher):
    """lays the scenario out on disk: nextest config, cargo configs, scenario file; returns paths"""
    os.makedirs(os.path.join(root, ".config"), exist_ok=True)
    os.makedirs(os.path.join(root, "w", "sub"), exist_ok=True)
    cwd = os.path.join(root, "pkg dir")
    os.makedirs(cwd, exist_ok=True)
    lines = ['experimental = ["setup-scripts"]', "[profile.default]", f"retries = {sc['retries']}",
             "fail-fast = false", f"test-threads = {sc['test_threads']}"]
    if sc["extra"]:
        lines += ["[[profile.default.overrides]]", 'filter = "all()"',
                  "run-extra-args = [" + ", ".join(toml_str(x) for x in sc["extra"]) + "]"]
    if sc["script"]:
        lines += ["[[profile.default.scripts]]", 'filter = "all()"', 'setup = "s1"', "[script.s1]",
                  "command = [" + ", ".join(toml_str(x) for x in [launcher] + sc["script"]) + "]"]
    open(os.path.join(root, ".config", "nextest.toml"), "w").write("\n".join(lines) + "\n")
    hc = harness_case(dict(sc, root=root, runner=None, runner_dir=0, build_script=None, name="", ignored=False,
                           binary_path=launcher, cwd=cwd, platform="target", bins=[], base_output=[]))
    for rel, content in hc["files"]:
        pth = os.path.join(root, rel)
        os.makedirs(os.path.dirname(pth), exist_ok=True)
        open(pth, "w").write(content)
    scen = dict(root=root, metadata=hc["metadata"], package_id=hc["package_id"], config_cwd="w/sub",
                cli_configs=hc["cli_configs"], double_spawn=sc["double_spawn"], cwd=cwd, tests=sc["tests"],
                fail_first_attempt=sc["fail_first_attempt"], profile=sc["profile"],
                script_env=sc.get("script_env", []), no_capture=bool(sc.get("no_capture")))
    sp = os.path.join(root, "scenario.json")
    json.dump(scen, open(sp, "w"))
    return sp, os.path.join(root, "log.jsonl"), cwd


def run_scenario(sc, root, launcher, base_env):
    sp, log, cwd = write_scenario(sc, root, launcher)
    env = dict(base_env)
    env.update(dict(sc["inherited"]))
    env.update({"C15_SCENARIO": sp, "C15_LOG": log})
    # the runner's own stdin is a regular file, so a child that merely inherited it is told apart
    # from one whose stdin is the null device
    with open(sp) as runner_stdin:
        p = subprocess.run([launcher, "run-tests", sp], env=env, capture_output=True, text=True,
                           stdin=runner_stdin, timeout=300)
    summary = None
    if p.returncode == 0:
        try:
            summary = json.loads(p.stdout.strip().split("\n")[-1])
        except (ValueError, IndexError):
            summary = None
    records = [json.loads(l) for l in open(log)] if os.path.exists(log) else []
    return dict(rc=p.returncode, stderr=p.stderr[-1500:], summary=summary, records=records, env=env, cwd=cwd)


def oracle_scenario(sc, obs, launcher):
    """the property's statement on what the real processes reported; returns failing clauses"""
    fails = []
    sm = obs["summary"]
    if sm is None:
        return [f"the run did not complete: rc={obs['rc']} {obs['stderr']}"]
    if sc["double_spawn"] and not sm["double_spawn_active"]:
        return ["double-spawn could not be enabled"]
    want_listed = sorted([[t["name"], t["ignored"]] for t in sc["tests"]])
    if sorted(sm["listed"]) != want_listed:
        fails.append(f"listed tests {sm['listed']!r} differ from the scenario's {want_listed!r}")
    run_id = sm["run_id"]
    tests = {t["name"]: t for t in sc["tests"]}
    seen_attempts = {}
    pids = []
    pkg_case = dict(pkg=sc["pkg"], profile=sc["profile"], cwd=obs["cwd"])
    fixed = expected_fixed_env(pkg_case)
    known = False
    for rec in obs["records"]:
        argv, e = rec["argv"], dict(rec["env"])
        what = f"process {argv[1:]!r}"
        pids.append(rec["pid"])
        if rec["pid"] != rec["pgid"]:
            fails.append(f"{what} is not the leader of its own process group (pid {rec['pid']}, pgid {rec['pgid']})")
        if rec["ppid"] != sm["runner_pid"]:
            fails.append(f"{what} is not a child of the runner (ppid {rec['ppid']}, runner {sm['runner_pid']})")
        if rec["stdin"] != "/dev/null":
            fails.append(f"{what} has stdin {rec['stdin']!r}, not the null device")
        if e.get("NEXTEST_RUN_ID") != run_id:
            fails.append(f"{what} has NEXTEST_RUN_ID {e.get('NEXTEST_RUN_ID')!r}, the run's id is {run_id!r}")
        if e.get("NEXTEST") != "1" or e.get("NEXTEST_PROFILE") != sc["profile"]:
            fails.append(f"{what} has NEXTEST={e.get('NEXTEST')!r} NEXTEST_PROFILE={e.get('NEXTEST_PROFILE')!r}")
        if sc["script"] and argv[1:] == sc["script"]:
            seen_attempts["<script>"] = seen_attempts.get("<script>", 0) + 1
            continue
        if len(argv) < 3 or argv[1] != "--exact" or argv[2] not in tests:
            fails.append(f"unexpected process with argv {argv!r}")
            continue
        t = tests[argv[2]]
        want = [launcher, "--exact", t["name"], "--nocapture"] + (["--ignored"] if t["ignored"] else []) + sc["extra"]
        if argv != want:
            fails.append(f"test {t['name']!r} was started with argv {argv!r}, the property demands {want!r}")
        if os.path.realpath(rec["cwd"]) != os.path.realpath(obs["cwd"]):
            fails.append(f"test {t['name']!r} runs in {rec['cwd']!r}, the package directory is {obs['cwd']!r}")
        seen_attempts[t["name"]] = seen_attempts.get(t["name"], 0) + 1
        from_script = dict(sc.get("script_env", []))
        for k, v in fixed.items():
            if k in from_script and not k.startswith("NEXTEST"):
                # the setup-script layer is applied last (C18): outside this property's claim, but then
                # the script's value must be what the test sees
                if e.get(k) != from_script[k]:
                    fails.append(f"test {t['name']!r}: {k} is {e.get(k)!r}, the setup script exported {from_script[k]!r}")
                continue
            if e.get(k) == v:
                continue
            if k == "CARGO_PKG_RUST_VERSION" and in_known_class(pkg_case) and e.get(k) == v + ".0":
                known = True
                continue
            fails.append(f"test {t['name']!r}: {k} is {e.get(k)!r}, nextest's documented value is {v!r}")
    if len(set(pids)) != len(pids):
        fails.append(f"two attempts shared a process: pids {pids}")
    for t in sc["tests"]:
        want_n = 2 if t["name"] in sc["fail_first_attempt"] else 1
        if seen_attempts.get(t["name"], 0) != want_n:
            fails.append(f"test {t['name']!r} was started {seen_attempts.get(t['name'], 0)} times, expected {want_n}")
    if sc["script"] and seen_attempts.get("<script>", 0) != 1:
        fails.append(f"the setup script was started {seen_attempts.get('<script>', 0)} times")
    return fails, known


def coq_run_cfg(sc, root, run_id, base_env):
    ents = [e for e in sc["entries"] if e[0] == "cli"] + \
           sorted([e for e in sc["entries"] if e[0] != "cli"], key=lambda e: e[0])
    ce = []
    for where, k, v, force, rel in ents:
        src = "None" if where == "cli" else f"(Some {coq_str(config_path(root, CFG_DIRS[where]))})"
        ce.append(f"mkce {src} {coq_str(k)} {coq_str(v)} {opt(force, coq_bool)} {opt(rel, coq_bool)}")
    dylib = ":".join(x for x in base_env.get("LD_LIBRARY_PATH", "").split(":") if x)
    return (f"(mkrun {coq_str(sc['profile'])} {coq_str(run_id)} {coq_str(dylib)} "
            f"{coq_str(os.path.join(root, 'target'))} {coq_list(ce)})")


def coq_pkg(p):
    return (f"(mkpkg {coq_str(pkg_version(p))} {coq_str(str(p['major']))} {coq_str(str(p['minor']))} "
            f"{coq_str(str(p['patch']))} {coq_str(p['pre'])} {coq_list([coq_str(a) for a in p['authors']])} "
            f"{coq_str(p['name'])} {opt(p['description'])} {opt(p['homepage'])} {opt(p['license'])} "
            f"{opt(p['license_file'])} {opt(p['repository'])} {opt(p['rust_version'])})")


def check_e2e(chk, r, thorough, corp):
    launcher = os.path.join(vlib.TARGET, "debug", "c15_launcher")
    if not os.path.exists(launcher):
        return set(), 0
    tmp = os.path.realpath(os.path.join(vlib.CACHE, "c15tmp", f"e2e{os.getpid()}"))
    base_env = base_environment()
    scenarios = [dict(idx=0, tests=[dict(name="plain::t", ignored=False),
                                    dict(name="it's a \"test\" $x\\ #1", ignored=True),
                                    dict(name="flaky one", ignored=False), dict(name=" lead", ignored=False),
                                    dict(name="", ignored=False), dict(name="--exact", ignored=True)],
                      fail_first_attempt=["flaky one"], retries=1, extra=["--extra", "a b", "it's"],
                      double_spawn=True, script=["--script", "x y"], script_env=[["FROM_SCRIPT", "a=b c"]],
                      test_threads=2,
                      entries=[(1, "NEXTEST_RUN_ID", "evil", True, None), (1, "NEXTEST", "0", None, None),
                               (0, "FOO", "bar", None, None), ("cli", "CARGO_MANIFEST_DIR", "/evil", None, None)],
                      inherited=[["NEXTEST_RUN_ID", "inherited"], ["CARGO_PKG_NAME", "inh"],
                                 ["NEXTEST_TEST_GLOBAL_SLOT", "99"], ["__NEXTEST_ATTEMPT", "7"]],
                      pkg=dict(name="pkg", major=1, minor=2, patch=3, pre="", build="", authors=["A", "B"],
                               description=None, homepage=None, license=None, license_file=None, repository=None,
                               rust_version="1.70.1"), profile="default")]
    # the same under --no-capture (tests inherit stdout / stderr; standard input is still the null device),
    # with and without the double-spawn launcher
    for ds in (True, False):
        scenarios.append(dict(scenarios[0], idx=len(scenarios), double_spawn=ds, no_capture=True, test_threads=1,
                              script=None, script_env=[]))
    for c in corp.get("scenarios", []):
        c = dict(c)
        c["entries"] = [tuple(e) for e in c["entries"]]
        scenarios.append(c)
    while len(scenarios) < (150 if thorough else 10):
        scenarios.append(gen_scenario(r, len(scenarios), "", launcher, thorough))
    distinct = set()
    exprs, expect, where = [], [], []
    known_seen = False
    n_proc = 0
    for k, sc in enumerate(scenarios):
        root = os.path.join(tmp, f"s{k}")
        os.makedirs(root, exist_ok=True)
        obs = run_scenario(sc, root, launcher, base_env)
        chk.count("e2e_scenarios")
        chk.count("e2e_double_spawn=" + str(sc["double_spawn"]).lower())
        chk.count("e2e_no_capture=" + str(bool(sc.get("no_capture"))).lower())
        res = oracle_scenario(sc, obs, launcher)
        fails, known = res if isinstance(res, tuple) else (res, False)
        known_seen = known_seen or known
        shown = {a: b for a, b in sc.items()}
        if fails:
            chk.violation("counterexample", "oracle:run",
                          dict(input=dict(scenario=shown), clauses=fails[:8], clause=fails[0],
                               summary=obs["summary"],
                               records=[dict(argv=x["argv"], pid=x["pid"], pgid=x["pgid"], ppid=x["ppid"],
                                             stdin=x["stdin"], cwd=x["cwd"]) for x in obs["records"]][:12]))
            return distinct, n_proc
        distinct.add(json.dumps(shown, default=str))
        # correspondence: the environment each real process saw vs Model/Command.v (executor layer included)
        sm = obs["summary"]
        inh = list(obs["env"].items())
        rc = coq_run_cfg(sc, root, sm["run_id"], base_env)
        attempts = {}
        for rec in obs["records"]:
            n_proc += 1
            chk.count("e2e_processes")
            e = dict(rec["env"])
            keys = sorted(set(e) | {x[1] for x in sc["entries"]} | {a for a, _ in inh})
            ck = coq_list([coq_str(x) for x in keys])
            if sc["script"] and rec["argv"][1:] == sc["script"]:
                exprs.append(f"senv {rc} {coq_str(e.get('NEXTEST_ENV', ''))} {coq_pairs(inh)} {ck}")
            else:
                nm = rec["argv"][2] if len(rec["argv"]) > 2 else ""
                slot = e.get("NEXTEST_TEST_GLOBAL_SLOT", "")
                if not (slot.isdigit() and int(slot) < sc["test_threads"]):
                    chk.violation("counterexample", "oracle:run",
                                  dict(input=dict(scenario=shown), clause=f"test {nm!r} has NEXTEST_TEST_GLOBAL_SLOT "
                                       f"{slot!r} with {sc['test_threads']} test threads"))
                    return distinct, n_proc
                setup = sc.get("script_env", []) if sc["script"] else []
                att = e.get("__NEXTEST_ATTEMPT", "")
                exprs.append(f"tenv {rc} {coq_str(obs['cwd'])} {coq_pkg(sc['pkg'])} "
                             f"{coq_str(att)} {coq_str(slot)} {coq_pairs(setup)} {coq_pairs(inh)} {ck}")
                attempts.setdefault(nm, []).append(att)
            expect.append([[1] + cps(e[x]) if x in e else [0] for x in keys])
            where.append((shown, rec["argv"], keys))
        for nm, al in attempts.items():
            if sorted(al) != [str(x + 1) for x in range(len(al))]:
                chk.violation("counterexample", "oracle:run",
                              dict(input=dict(scenario=shown), clause=f"attempts of {nm!r} are numbered {al}"))
                return distinct, n_proc
    model = vlib.coq_eval("c15e2e", IMPORTS, exprs, PRELUDE_E2E)
    for m, want, (shown, argv, keys) in zip(model, expect, where):
        if m != want:
            diff = {k: dict(process=(decode_str(b[1:]) if b[0] else None), model=(decode_str(a[1:]) if a and a[0] == 1 else None))
                    for k, a, b in zip(keys, m if len(m) == len(want) else [[]] * len(want), want) if a != b}
            chk.violation("broken-obligation", "corr:run-environment",
                          dict(input=dict(scenario=shown), process=argv, differences=diff,
                               note="the environment a real test / setup-script process saw differs from "
                                    "Model/Command.v (test_assignments / script_assignments); the property oracle "
                                    "accepted the run"), no_input=True)
            break
    if known_seen:
        listed = [f for f in vlib.known_findings().get("findings", [])
                  if f.get("property") == PROP and f.get("id") == FINDING_ID]
        if listed:
            chk.known_finding(listed[0]["what"])
    chk.sample(dict(e2e_scenario=scenarios[0]))
    import shutil
    shutil.rmtree(tmp, ignore_errors=True)
    return distinct, n_proc


# ------------------------------------------------------------------ the check

def check_shellwords(chk, binary, r, thorough, corp):
    # ---- join / split round trip ----------------------------------------------------------------
    lists = [[w] for w in ("".join(t) for k in range(0, 4) for t in itertools.product(SMALL9, repeat=k))]
    n_exh = len(lists)
    lists += [[]] + [list(ws) for ws in corp.get("words", [])]
    lists += [["", ""], ["a", "", "b"], ["'"], ["\\"], ["#"], ["~"], ["˜"], ["a\nb", "c"], [" "], ["\t"]]
    # pairs over the small alphabet: separator handling between every two styles
    small_words = ["", "a", "'", "\n", "\\", "#", " ", "a'b", "'\n"]
    lists += [[x, y] for x in small_words for y in small_words]
    while len(lists) < n_exh + (20000 if thorough else 700):
        lists.append(gen_words(r))
    impl = vlib.run_impl(binary, "shellwords", [dict(op="roundtrip", words=ws) for ws in lists])
    model = vlib.coq_eval("c15rt", IMPORTS, [f"rt {coq_list([coq_str(w) for w in ws])}" for ws in lists],
                          PRELUDE_SW)
    distinct = set()
    bad_orc, bad_corr = None, None
    for ws, i, m in zip(lists, impl, model):
        chk.count("roundtrip_cases")
        chk.count(f"roundtrip_words={min(len(ws), 4)}{'+' if len(ws) >= 4 else ''}")
        if any(any(ch in META for ch in w) or w == "" for w in ws):
            distinct.add(json.dumps(ws))
        got = i["split"].get("ok")
        if got != ws and (bad_orc is None or len(json.dumps(ws)) < len(json.dumps(bad_orc[0]))):
            bad_orc = (ws, i)
        m_joined, m_ok, m_words = decode_str(m[0]), m[1] == [1], [decode_str(w) for w in m[2:]]
        if (i["joined"], got) != (m_joined, m_words if m_ok else None) and bad_corr is None:
            bad_corr = (ws, i, dict(joined=m_joined, split=m_words if m_ok else None))
        if py_split(i["joined"]) != ws and bad_orc is None:
            bad_orc = (ws, i)
    if bad_orc:
        ws, i = bad_orc
        chk.violation("counterexample", "oracle:split-join",
                      dict(input=dict(words=ws), impl=i, reference_split=py_split(i["joined"]),
                           clause="the launcher's split of the joined argv is not the argv"))
    elif bad_corr:
        ws, i, m = bad_corr
        chk.violation("broken-obligation", "corr:shellwords-roundtrip",
                      dict(input=dict(words=ws), impl=i, model=m,
                           note="shell_words and Model/ShellWords.v disagree; split(join(ws)) == ws held "
                                "on every explored input"), no_input=True)
    chk.sample(dict(words=lists[n_exh + 120], joined=impl[n_exh + 120]["joined"]))

    # ---- quote ------------------------------------------------------------------------------------
    qs = ["".join(t) for k in range(0, 3) for t in itertools.product(ALPHA, repeat=k)] if thorough else \
        [""] + ALPHA + [gen_word(r) for _ in range(200)]
    impl = vlib.run_impl(binary, "shellwords", [dict(op="quote", s=s) for s in qs])
    model = vlib.coq_eval("c15q", IMPORTS, [f"qt {coq_str(s)}" for s in qs], PRELUDE_SW)
    for s, i, m in zip(qs, impl, model):
        chk.count("quote_cases")
        if i != decode_str(m[0]):
            chk.violation("broken-obligation" if py_split(i) == [s] else "counterexample", "corr:shellwords-quote",
                          dict(input=dict(s=s), impl=i, model=decode_str(m[0]), reference_split=py_split(i)),
                          no_input=(py_split(i) == [s]))
            break

    # ---- split on arbitrary strings (ties the whole state machine, including the error states) ------
    depth = 5 if thorough else 4
    lines = ["".join(t) for k in range(0, depth + 1) for t in itertools.product(SPLIT7, repeat=k)]
    n_exh2 = len(lines)
    lines += list(corp.get("lines", []))
    lines += ['"\\$\\`\\"\\\\\\a\\\n"', "a\\\nb", "\\\n", "\\", "a\\", "'", '"', '"\\', "# c\nx", "a#b", "a #b",
              "\t\n x\t\ny ", "''", '""', "'a'\"b\"c\\ d", "$x `y` ˜ ~", "\\#", "x\\\n#y"]
    while len(lines) < n_exh2 + (15000 if thorough else 900):
        lines.append(gen_line(r))
    impl = vlib.run_impl(binary, "shellwords", [dict(op="split", s=s) for s in lines])
    model = vlib.coq_eval("c15sp", IMPORTS, [f"sp {coq_str(s)}" for s in lines], PRELUDE_SW)
    for s, i, m in zip(lines, impl, model):
        chk.count("split_cases")
        got = i.get("ok")
        want = [decode_str(w) for w in m[1:]] if m[0] == [1] else None
        chk.count("split_result=" + ("error" if got is None else "words"))
        if got is not None or "'" in s or '"' in s or "\\" in s or "#" in s:
            distinct.add(json.dumps(["line", s]))
        if got != want:
            ref = py_split(s)
            chk.violation("broken-obligation", "corr:shellwords-split",
                          dict(input=dict(s=s), impl=i, model=want, reference_split=ref,
                               note="split on an arbitrary line: shell_words and Model/ShellWords.v disagree "
                                    "(the reference splitter agrees with the "
                                    f"{'implementation' if ref == got else 'model' if ref == want else 'neither'})"),
                          no_input=True)
            break
        if py_split(s) != got:
            chk.violation("broken-obligation", "oracle:reference-split",
                          dict(input=dict(s=s), impl=i, model=want, reference_split=py_split(s),
                               note="the independent Python splitter disagrees with both"), no_input=True)
            break
    chk.sample(dict(split_of=lines[n_exh2 + 30], result=impl[n_exh2 + 30]))
    return distinct, len(lists) + len(qs) + len(lines)


def exec_through_launcher(case, res, base_env, launcher):
    """Really run the command TestInstance::make_command built: the launcher binary is the real
    cargo-nextest `__double-spawn` code path, the exec'd program (c15_launcher in its reporting
    role) prints how it was started. Returns a failing clause or None."""
    env = dict(base_env)
    env.update(dict(case["inherited"]))
    for k, v in res["envs"]:
        if v is None:
            env.pop(k, None)
        else:
            env[k] = v
    try:
        p = subprocess.run([launcher] + res["args"], cwd=res["cwd"], env=env, stdin=subprocess.DEVNULL,
                           capture_output=True, text=True, timeout=60)
    except (OSError, ValueError, subprocess.TimeoutExpired) as e:
        return f"could not run the launcher: {e}"
    if p.returncode != 0:
        return f"launcher exited with {p.returncode}: {p.stderr[-400:]}"
    try:
        dump = json.loads(p.stdout)
    except ValueError:
        return f"unreadable report from the exec'd program: {p.stdout[:300]!r}"
    prog, args = expected_argv(case)
    if dump["argv"] != [prog] + args:
        return f"the exec'd process has argv {dump['argv']!r}, the property demands {[prog] + args!r}"
    if os.path.realpath(dump["cwd"]) != os.path.realpath(case["cwd"]):
        return f"the exec'd process runs in {dump['cwd']!r}, the package directory is {case['cwd']!r}"
    seen = dict((k, v) for k, v in dump["env"])
    for k, want in expected_fixed_env(case).items():
        if seen.get(k) != want and not (k == "CARGO_PKG_RUST_VERSION" and in_known_class(case)
                                        and seen.get(k) == want + ".0"):
            return f"{k} is {seen.get(k)!r} in the exec'd process, nextest's documented value is {want!r}"
    return None


def witness_case(root):
    """the listed witness of known finding F15a, replayed on every run"""
    return dict(idx=0, root=root, name="it's a \"test\" $x\\ #1", ignored=True, extra=["--test-threads", "1", "a b"],
                double_spawn=True, profile="ci", binary_path="/w/target/debug/deps/bin-0123", cwd="/w/pkg",
                platform="target",
                pkg=dict(name="pkg", major=1, minor=2, patch=3, pre="beta.1", build="b5", authors=["A <a@b>", "B:C"],
                         description="d\n'q'", homepage=None, license=None, license_file=None, repository=None,
                         rust_version="1.70"),
                entries=[("cli", "CLI VAR", "c v", None, None), (1, "FOO", "bar", None, None),
                         (1, "NEXTEST", "7", None, None), (1, "PATH", "x", False, None),
                         (1, "HOME", "h", True, None), (1, "REL", "a/b", None, True),
                         (1, "CARGO_PKG_NAME", "evil", True, None), (0, "NEXTEST_PROFILE", "evil", True, None),
                         (2, "FOO", "lower precedence", True, None)],
                runner=["/opt/run ner", "-x", "a b"], runner_dir=1,
                inherited=[["NEXTEST_RUN_ID", "inh"], ["CARGO_PKG_VERSION", "inh"], ["ZZ", "1"], ["NEXTEST", "0"]],
                build_script=dict(out_dir="debug/build/pkg-0123/out",
                                  pairs=[["BS", "1"], ["NEXTEST_PROFILE", "evil"], ["CARGO_MANIFEST_DIR", "/evil"]],
                                  new_syntax=True),
                bins=[["my-bin", "/w/target/debug/my-bin"]], base_output=["debug"])


def check_commands(chk, binary, r, thorough, corp, seed):
    tmp = os.path.realpath(os.path.join(vlib.CACHE, "c15tmp", f"{os.getpid()}"))
    os.makedirs(tmp, exist_ok=True)
    base_env = base_environment()
    cases = [witness_case(os.path.join(tmp, "c0"))]
    for c in corp.get("commands", []):
        c = dict(c)
        c["idx"], c["root"] = len(cases), os.path.join(tmp, f"c{len(cases)}")
        c["entries"] = [tuple(e) for e in c["entries"]]
        cases.append(c)
    # every hostile name once with and once without the launcher
    for nm in HOSTILE_NAMES:
        for ds in (False, True):
            c = gen_command_case(r, len(cases), os.path.join(tmp, f"c{len(cases)}"))
            c["name"], c["double_spawn"] = nm, ds
            cases.append(c)
    while len(cases) < (2500 if thorough else 220):
        cases.append(gen_command_case(r, len(cases), os.path.join(tmp, f"c{len(cases)}")))
    # launcher end to end: the command nextest builds is really executed through the real
    # `__double-spawn` subcommand (clap parser + DoubleSpawnOpts::exec of cargo-nextest, linked
    # into c15_launcher), the exec'd program reports its argv / cwd / environment
    launcher = os.path.join(vlib.TARGET, "debug", "c15_launcher")
    n_exec = 0
    if os.path.exists(launcher):
        names = HOSTILE_NAMES + [gen_word(r, 10) for _ in range(1000 if thorough else 30)]
        for nm in names:
            c = gen_command_case(r, len(cases), os.path.join(tmp, f"c{len(cases)}"))
            c["name"], c["double_spawn"], c["exec"] = nm, True, True
            c["binary_path"], c["cwd"] = launcher, tmp
            if c["runner"]:
                c["runner"][0] = launcher
            cases.append(c)
    else:
        chk.violation("broken-obligation", "harness-build",
                      dict(error="c15_launcher was not built"), no_input=True)
    env = dict(base_env)
    base_seen = dict(base_env)
    impl = run_harness(binary, "command", [harness_case(c) for c in cases], env)
    model = vlib.coq_eval("c15cmd", IMPORTS, [coq_command_case(c, base_seen) for c in cases], PRELUDE_CMD)
    distinct = set()
    first_corr = None
    known_seen = False
    for c, i, m in zip(cases, impl, model):
        chk.count("command_cases")
        chk.count("command_double_spawn=" + str(c["double_spawn"]).lower())
        chk.count("command_runner=" + str(bool(c["runner"])).lower())
        chk.count(f"command_cargo_env_entries={min(len(c['entries']), 4)}{'+' if len(c['entries']) >= 4 else ''}")
        hostile = any(ch in META for ch in c["name"] + "".join(c["extra"]))
        if hostile or c["entries"] or c["inherited"]:
            distinct.add(json.dumps([c["name"], c["ignored"], c["extra"], c["double_spawn"], c["runner"],
                                     c["entries"], c["inherited"], c["build_script"], c["pkg"]], default=str))
        fails, known = oracle_command(c, i, base_seen)
        shown = {k: v for k, v in c.items() if k != "root"}
        if known:
            known_seen = True
        if fails:
            chk.violation("counterexample", "oracle:command",
                          dict(input=shown, harness_case=harness_case(c), impl=i, clauses=fails,
                               clause=fails[0]))
            return distinct, len(cases)
        if c.get("exec"):
            n_exec += 1
            chk.count("launcher_exec_cases")
            why = exec_through_launcher(c, i, base_seen, launcher)
            if why:
                chk.violation("counterexample", "oracle:launcher-exec",
                              dict(input=shown, harness_case=harness_case(c), impl=i, clause=why))
                return distinct, len(cases)
        ni, nm = norm_impl_cmd(i), norm_model_cmd(m)
        if in_known_class(c) and ni.get("built") and \
                ni["env"].get("CARGO_PKG_RUST_VERSION") == c["pkg"]["rust_version"]:
            # repaired upstream: accepted (the model stays faithful to the unrepaired code)
            nm["env"]["CARGO_PKG_RUST_VERSION"] = c["pkg"]["rust_version"]
        if ni != nm and first_corr is None:
            diff = {k: dict(impl=ni.get(k), model=nm.get(k)) for k in nm if ni.get(k) != nm.get(k)}
            if "env" in diff and isinstance(ni.get("env"), dict):
                a, b = ni["env"], nm["env"]
                diff["env"] = {k: dict(impl=a.get(k), model=b.get(k)) for k in set(a) | set(b) if a.get(k) != b.get(k)}
            first_corr = (shown, harness_case(c), i, diff)
    if first_corr:
        shown, hc, i, diff = first_corr
        chk.violation("broken-obligation", "corr:make-command",
                      dict(input=shown, harness_case=hc, impl=i, differences=diff,
                           note="TestInstance::make_command and Model/Command.v disagree; the property oracle "
                                "accepted every explored command"), no_input=True)
    if known_seen:
        listed = [f for f in vlib.known_findings().get("findings", [])
                  if f.get("property") == PROP and f.get("id") == FINDING_ID]
        if listed:
            chk.known_finding(listed[0]["what"])
        else:
            chk.violation("counterexample", "oracle:command",
                          dict(input={k: v for k, v in cases[0].items() if k != "root"},
                               clause="CARGO_PKG_RUST_VERSION differs from the manifest's rust-version and the "
                                      "finding is not listed in known_findings.json"))
    chk.sample(dict(command_case={k: v for k, v in cases[0].items() if k != "root"},
                    impl=dict(program=impl[0].get("program"), args=impl[0].get("args"),
                              launcher=impl[0].get("launcher"), cwd=impl[0].get("cwd"))))
    chk.sample(dict(command_case={k: v for k, v in cases[-1].items() if k != "root"},
                    impl_args=impl[-1].get("args")))
    try:
        os.rmdir(tmp)
    except OSError:
        pass
    return distinct, len(cases)


def run(tier, seed):
    chk = vlib.Check(PROP, tier, seed)
    gate = vlib.coq_gate(PROP)
    vlib.gate_or_violation(chk, gate)
    # DESIGN 11.7 (second round): these decisions are regenerated from the Rust source and proved equal to the
    # model's for all inputs; a failure is reported when the check finishes unless a stage below finds a
    # concrete failing input
    gen_tie.gate(chk, ['spawn_setup'], gate)
    # fourth round: the order in which TestCommand::new applies the environment sources (config [env], OUT_DIR and
    # build-script variables before nextest's own NEXTEST* / CARGO_* variables), regenerated from the source
    gen_tie.gate(chk, ['env_order'], gate, family="glue")
    binary, err = vlib.build_harness()
    checker = "make -C coq Properties/C15.vo && coqc gen/assump_C15.v (Print Assumptions)"
    if binary is None:
        chk.violation("broken-obligation", "harness-build", dict(error=err), no_input=True)
        return chk.finish(gate, checker, [])
    r = vlib.rng_for(seed, PROP)
    thorough = tier == "thorough"
    corp = corpus()
    d1, n1 = check_shellwords(chk, binary, r, thorough, corp)
    d2, n2 = check_commands(chk, binary, r, thorough, corp, seed)
    d3, n3 = check_e2e(chk, r, thorough, corp) if not chk.violations else (set(), 0)
    chk.assumptions = [
        "the process-level facts (fresh process per attempt, own process group, stdin = /dev/null, NEXTEST_RUN_ID "
        "and attempt/slot variables at run time, the real exec through the __double-spawn subcommand) are observed "
        "on real runs of nextest's runner driven through its public API from harness/src/bin/c15_launcher.rs "
        "(which links the real cargo-nextest launcher code), not on the packaged cargo-nextest binary: the full CLI "
        "path (cargo nextest run) is left to the coordinator's end-to-end rig",
        "strings are lists of Unicode scalar values; NUL cannot occur in an argv/env string and is not generated; "
        "test names in real runs contain no line break (the list format is line based)",
        "Unix only (no Windows environment-key case folding, LD_LIBRARY_PATH as the dylib variable)",
        "the setup-script environment (applied last; C18) is a side condition of C15_env_fixed",
        "Path::parent / join are modelled for normalised paths (the generator only produces such paths)",
    ]
    # end-to-end stage: the packaged `cargo nextest run` path over the scripted puppet workspace
    try:
        import e2e_general
        e2e_general.stage(chk, PROP, tier, seed, n_quick=8)
    except RuntimeError as ex:
        chk.violation("broken-obligation", "e2e-build", dict(error=str(ex)[-3000:]), no_input=True)
    return chk.finish(
        gate, checker,
        ["Coq 8.16.1 kernel + vm_compute",
         "hand-written models Model/ShellWords.v (tied by corr:shellwords-{roundtrip,quote,split} to shell-words "
         "1.1.0) and Model/Command.v (tied by corr:make-command through hook H5 to TestInstance::make_command, "
         "TestCommand::new, create_command, EnvironmentMap, apply_package_env, apply_ld_dyld_env)",
         "Model/Command.v test_assignments / script_assignments tied by corr:run-environment to the environment "
         "real test and setup-script processes report under the real TestRunner",
         "Python generators/canonicalisers and the reference splitter in props/C15.py",
         "harness/src/{shellwords,command}.rs, harness/src/bin/c15_launcher.rs"],
        dict(evaluations=n1 + n2 + n3, distinct_nontrivial=len(d1) + len(d2) + len(d3),
             rule="shell-words: every word of length <= 3 over 9 characters (quote, backslash, space, newline, #, "
                  "$, non-ASCII, ...) singly, pairs of short words, random word lists over an alphabet dense in "
                  "shell metacharacters; every line of length <= 4 (thorough: 5) over 7 characters and random "
                  "lines through split alone. Commands: every hostile test name with and without the launcher, "
                  "random extra args / cargo [env] tables in up to three config files and --config options "
                  "(force, relative) / inherited environments / build-script env / package metadata / target "
                  "runner; a further set of commands (hostile and random names) is really executed through "
                  "the real __double-spawn subcommand and the exec'd process's argv/cwd/env compared; whole runs "
                  "(hostile test names, ignored flags, run-extra-args, retries, a setup script, hostile cargo/"
                  "inherited environments, launcher on/off) are executed by the real TestRunner and every started "
                  "process reports argv, cwd, pid, pgid, ppid, stdin and environment. "
                  "Non-trivial = a word list with a metacharacter or an empty word; a line containing "
                  "a quote, backslash or # or splitting without error; a command with a hostile name or "
                  "argument or a non-empty cargo/inherited environment. Distinct by the full input.",
             traces_validated_against_impl=n1 + n2 + n3))


def replay(path, seed):
    d = json.load(open(path))
    print(json.dumps(d, indent=1)[:4000])
    binary, err = vlib.build_harness()
    if binary is None:
        print(err)
        return 1
    inp = d.get("input") or {}
    if "words" in inp:
        i = vlib.run_impl(binary, "shellwords", [dict(op="roundtrip", words=inp["words"])])[0]
        ok = i["split"].get("ok") == inp["words"]
        print("implementation:", json.dumps(i), "| split(join(ws)) == ws:", ok)
        return 0 if ok else 1
    if "s" in inp:
        i = vlib.run_impl(binary, "shellwords", [dict(op="split", s=inp["s"])])[0]
        ref = py_split(inp["s"])
        print("implementation:", json.dumps(i), "| reference:", ref)
        return 0 if i.get("ok") == ref else 1
    if "scenario" in inp:
        launcher = os.path.join(vlib.TARGET, "debug", "c15_launcher")
        root = os.path.realpath(os.path.join(vlib.CACHE, "c15tmp", f"replay{os.getpid()}", "s0"))
        os.makedirs(root, exist_ok=True)
        sc = dict(inp["scenario"])
        sc["entries"] = [tuple(e) for e in sc["entries"]]
        obs = run_scenario(sc, root, launcher, base_environment())
        res = oracle_scenario(sc, obs, launcher)
        fails = res[0] if isinstance(res, tuple) else res
        print("summary:", json.dumps(obs["summary"])[:1500])
        print("oracle:", fails or "accepts")
        return 1 if fails else 0
    if "name" in inp and "entries" in inp:
        tmp = os.path.realpath(os.path.join(vlib.CACHE, "c15tmp", f"replay{os.getpid()}"))
        os.makedirs(tmp, exist_ok=True)
        c = dict(inp)
        c["root"] = os.path.join(tmp, "c0")
        c["entries"] = [tuple(e) for e in c["entries"]]
        base = base_environment()
        env = dict(base)
        launcher = os.path.join(vlib.TARGET, "debug", "c15_launcher")
        if c.get("exec"):
            c["binary_path"], c["cwd"] = launcher, tmp
            if c["runner"]:
                c["runner"][0] = launcher
        i = run_harness(binary, "command", [harness_case(c)], env)[0]
        fails, known = oracle_command(c, i, env)
        if c.get("exec") and not fails:
            why = exec_through_launcher(c, i, env, launcher)
            fails = [why] if why else []
        print("implementation:", json.dumps(i)[:3000])
        print("oracle:", fails or "accepts", "| known finding observed:", known)
        return 1 if fails else 0
    return 2   # not a kind of record this function knows how to replay (the driver then re-runs the check)
