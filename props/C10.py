"""C10 — after cancellation begins nothing new starts; cancellation only escalates; max-fail exact.
Theorems: coq/Properties/C10.v.  Correspondence: corr:dispatcher-step (real handle_event through hook
H2 vs `fold dstep`), corr:cancel-reason-ord (36 + 49 pairs), corr:max-fail.  Oracle: C10's own text
evaluated on what the implementation did (props/dispatcher_common.oracle_c10)."""
import json
import vlib, gen_tie
from props import dispatcher_common as dc
from props.dispatcher_common import REASONS, RANK

PROP = "C10"


def witnesses():
    f11 = [2, 0, 0, 0, 1, 1]
    f12 = [2, 0, 0, 0, 1, 2]
    cfg = dict(ntests=4, sel=[0, 1, 2, 3], unsel=[], total={0: 1, 1: 1, 2: 2, 3: 1}, nscripts=0)
    w1 = dict(op="seq", kind="witness", ntests=4, nscripts=0, initial=4, max_fail=2, cfg=cfg,
              events=[["st", 0], ["st", 1], ["st", 2], ["fin", 0, f11], ["afwr", 2, f12], ["fin", 1, f11],
                      ["st", 3], ["rs", 2, 2, 2], ["sig", "term"], ["rc"], ["sig", "int"], ["sig", "hup"]])
    cfg2 = dict(ntests=1, sel=[0], unsel=[], total={0: 1}, nscripts=2)
    w2 = dict(op="seq", kind="witness", ntests=1, nscripts=2, initial=1, max_fail=None, cfg=cfg2,
              events=[["ss", 0], ["sf", 0, [3, 0, 0]], ["ss", 1], ["st", 0], ["rc"], ["sig", "int"]])
    w3 = dict(op="seq", kind="witness", ntests=4, nscripts=0, initial=4, max_fail=None, cfg=cfg,
              events=[["st", 0], ["st", 1], ["fin", 0, f11], ["fin", 1, f11], ["st", 3], ["rc"], ["rc"],
                      ["st", 2], ["stop"], ["stop"], ["cont"], ["cont"], ["enter"], ["info"], ["infosig", 1]])
    return [w1, w2, w3]


def shrink(binary, case, oracle):
    """greedy event deletion while the oracle still rejects the implementation's behaviour"""
    cur = case
    changed = True
    while changed and len(cur["events"]) > 1:
        changed = False
        cands = [dict(cur, events=cur["events"][:i] + cur["events"][i + 1:]) for i in range(len(cur["events"]))]
        res = vlib.run_impl(binary, "dispatcher", cands)
        for c, r in zip(cands, res):
            if oracle(c, r["steps"]):
                cur, changed = c, True
                break
    return cur


def search_around(binary, case, r, oracle, budget):
    """directed search near a case on which implementation and model disagree: local mutations,
    looking for an input on which the property's oracle fails"""
    cands = []
    for _ in range(budget):
        evs = list(case["events"])
        for _ in range(r.randint(1, 3)):
            i = r.randrange(len(evs) + 1)
            if evs and r.random() < 0.4:
                del evs[min(i, len(evs) - 1)]
            else:
                evs.insert(i, dc.gen_any_event(r, case["ntests"], max(case["nscripts"], 1)))
        cands.append(dict(case, events=evs, nscripts=max(case["nscripts"], 1),
                          max_fail=r.choice([case["max_fail"], None, 1, 2])))
    res = vlib.run_impl(binary, "dispatcher", cands)
    for c, x in zip(cands, res):
        why = oracle(c, x["steps"])
        if why:
            return c, x["steps"], why
    return None


def corr_pure(chk, binary):
    """CancelReason's derived Ord (36 pairs; 49 pairs for Option<CancelReason>) and MaxFail::is_exceeded"""
    pairs = [(a, b) for a in range(6) for b in range(6)]
    impl = vlib.run_impl(binary, "dispatcher", [dict(op="cmp", a=a, b=b) for a, b in pairs])
    model = dc.coq_eval("c10ord", [f"cmp_code (reason_cmp (reason_of_rank {a}) (reason_of_rank {b}))" for a, b in pairs])
    for (a, b), i, m in zip(pairs, impl, model):
        chk.count("reason_ord_cases")
        want = 0 if a < b else (1 if a == b else 2)   # the declared severity order
        if i != m or i != want:
            chk.violation("counterexample" if i != want else "broken-obligation", "corr:cancel-reason-ord",
                          dict(input=[REASONS[a], REASONS[b]], impl=i, model=m, documented=want,
                               clause="severity order SetupScriptFailure < TestFailure < ReportError < Signal "
                                      "< Interrupt < SecondSignal"), no_input=(i == want))
            return
    opairs = [(a, b) for a in range(7) for b in range(7)]
    impl = vlib.run_impl(binary, "dispatcher", [dict(op="cmpopt", a=a, b=b) for a, b in opairs])
    enc = lambda n: "None" if n == 0 else f"(Some (reason_of_rank {n - 1}))"
    model = dc.coq_eval("c10oord", [f"cmp_code (opt_rank {enc(a)} ?= opt_rank {enc(b)})" for a, b in opairs])
    for (a, b), i, m in zip(opairs, impl, model):
        chk.count("opt_reason_ord_cases")
        if i != m:
            chk.violation("broken-obligation", "corr:cancel-reason-ord",
                          dict(input=[a, b], impl=i, model=m, note="Option<CancelReason> ordering"), no_input=True)
            return
    mfs = [(mf, k) for mf in (None, 0, 1, 2, 3, 5) for k in range(0, 7)]
    impl = vlib.run_impl(binary, "dispatcher", [dict(op="maxfail", mf=mf, failed=k) for mf, k in mfs])
    model = dc.coq_eval("c10mf", [f"b2n (max_fail_exceeded {dc.coq_mf(mf)} {k})" for mf, k in mfs])
    for (mf, k), i, m in zip(mfs, impl, model):
        chk.count("max_fail_cases")
        want = mf is not None and k >= mf
        if bool(i) != bool(m) or bool(i) != want:
            chk.violation("counterexample" if bool(i) != want else "broken-obligation", "corr:max-fail",
                          dict(input=dict(max_fail=mf, failed=k), impl=i, model=m, documented=want,
                               clause="max-fail = N cancels when the N-th test fails"), no_input=(bool(i) == want))
            return
    # fail-fast is max-fail 1; 0 and negatives are rejected on the command line
    probes = vlib.run_impl(binary, "dispatcher",
                           [dict(op="fail_fast", v=True), dict(op="fail_fast", v=False),
                            dict(op="maxfail_parse", s="all"), dict(op="maxfail_parse", s="3"),
                            dict(op="maxfail_parse", s="0"), dict(op="maxfail_parse", s="-1")])
    if probes != [1, "all", "all", 3, "error", "error"]:
        chk.violation("counterexample", "corr:max-fail",
                      dict(input="from_fail_fast(true/false), parse all/3/0/-1", impl=probes,
                           documented=[1, "all", "all", 3, "error", "error"],
                           clause="fail-fast is max-fail = 1; no-fail-fast is max-fail = all"))


def build_cases(r, tier, prop=PROP, mix=(0.35, 0.3, 0.35)):
    thorough = tier == "thorough"
    cases = witnesses() + dc.load_corpus(prop)
    n = 6000 if thorough else 1500
    nw, nn = int(n * mix[0]), int(n * mix[1])
    for _ in range(nw):
        cases.append(dc.gen_wf(r, maxlen=80, cancel_bias=0.8))
    for _ in range(nn):
        cases.append(dc.gen_near(r))
    while len(cases) < n:
        cases.append(dc.gen_ill(r))
    if thorough:
        cases += list(dc.exhaustive_cases(4, 1))
        cases += list(dc.exhaustive_cases(3, None))
        cases += list(dc.exhaustive_cases(3, 2))
    else:
        cases += list(dc.exhaustive_cases(3, 1))
    return cases


def run_step_correspondence(chk, binary, cases, r, oracle, tier, tag):
    """runs implementation + model over the cases; returns (impl results, first mismatch or None)"""
    impl = vlib.run_impl(binary, "dispatcher", cases, shards=16)
    model = dc.coq_eval(tag, [dc.coq_seq_expr(c) for c in cases])
    mismatch = None
    for c, i, m in zip(cases, impl, model):
        if "steps" not in i:
            chk.violation("broken-obligation", "corr:dispatcher-step",
                          dict(input=c, impl=i, note="harness failed on this case"), no_input=True)
            return impl, "reported"
        d = dc.diff_seq(i["steps"], m)
        if d and mismatch is None:
            mismatch = (c, i["steps"], m, d)
    return impl, mismatch


def report_mismatch(chk, binary, mismatch, r, oracle, tier, oracle_failed):
    """corr failed at x: DESIGN section 3, rows 2 and 3"""
    if mismatch is None or mismatch == "reported" or oracle_failed:
        return
    c, steps, m, d = mismatch
    found = search_around(binary, c, r, oracle, 3000 if tier == "thorough" else 300)
    detail = dict(correspondence="corr:dispatcher-step", input=c, step=d[0],
                  impl_step=d[1], model_step=d[2], impl=steps[:d[0] + 1])
    if found:
        c2, s2, why = found
        c2 = shrink(binary, c2, oracle)
        s2 = vlib.run_impl(binary, "dispatcher", [c2])[0]["steps"]
        chk.violation("counterexample", "corr:dispatcher-step",
                      dict(detail, failing_input=c2, failing_impl=s2, clause=oracle(c2, s2)))
    else:
        chk.violation("broken-obligation", "corr:dispatcher-step",
                      dict(detail, note="implementation and model disagree; the property oracle accepted the "
                                        "implementation on every input explored, including a directed search "
                                        "around this one"), no_input=True)


REQ_CODE = {"other_cancel": [1, 0], "shutdown_once:hup": [2, 0], "shutdown_once:term": [2, 1],
            "shutdown_once:quit": [2, 2], "shutdown_once:int": [2, 3], "shutdown_twice": [2, 4],
            "stop": [3, 0], "continue": [4, 0], "get_info": [5, 0]}


def loop_case(r):
    """a well-formed history the loop probe supports: executor events, at most one report error,
    at most two (real) shutdown signals; no job control / info / key presses"""
    c = dc.gen_wf(r, maxlen=40, cancel_bias=0.9, max_running=8)
    evs, nsig, nrc = [], 0, 0
    for e in c["events"]:
        if e[0] in ("stop", "cont", "info", "infosig", "enter"):
            continue
        if e[0] == "sig":
            nsig += 1
            if nsig > 2:
                continue
        if e[0] == "rc":
            nrc += 1
            if nrc > 1:
                continue
        evs.append(e)
    return dict(c, op="loop", kind="loop", events=evs)


def oracle_loop(case, steps):
    """C10 'running tests are left to finish unless the cause is a signal', on what the units of the
    real run loop received: OtherCancel for setup-script / test failure / report error, the shutdown
    request only for signals, nothing without an announcement -- except that a unit reporting a
    failed attempt while the run is being cancelled is sent OtherCancel again (it must not sit out
    its retry delay)"""
    cancelling = False
    for i, (ev, st) in enumerate(zip(case["events"], steps)):
        want = []
        for e in st["emitted"]:
            if e["k"] == "RunBeginCancel":
                if e["reason"] in ("SetupScriptFailure", "TestFailure", "ReportError"):
                    want = ["other_cancel"]
                else:
                    want = [f"shutdown_once:{ev[1]}"] if ev[0] == "sig" else ["?"]
            if e["k"] == "RunBeginKill":
                want = ["shutdown_twice"]
        for key, got in st["received"]:
            w = list(want)
            if ev[0] == "afwr" and cancelling and key == ev[1]:
                w = ["other_cancel"] + w
            if got != w:
                return (f"step {i} ({ev}): unit {key} received {got}, the announcements made so far call "
                        f"for {w}")
        if want:
            cancelling = True
    return None


def corr_run_loop(chk, binary, r, tier):
    """corr:dispatcher-run — the real DispatcherContext::run loop (hook H2b), with real signals"""
    n = 600 if tier == "thorough" else 150
    f11 = [2, 0, 0, 0, 1, 1]
    cfg = dict(ntests=4, sel=[0, 1, 2, 3], unsel=[], total={0: 1, 1: 1, 2: 1, 3: 1}, nscripts=1)
    cases = [dict(op="loop", kind="loop", ntests=4, nscripts=1, initial=4, max_fail=2, cfg=cfg,
                  events=[["ss", 0], ["sf", 0, [0, 0, 0]], ["st", 0], ["st", 1], ["st", 2], ["fin", 0, f11],
                          ["fin", 1, f11], ["st", 3], ["sig", "term"], ["rc"], ["sig", "int"]])]
    # F10's schedule: test 0 fails (fail-fast) while test 1's first attempt is running; that attempt
    # then fails with retries left: unit 1 must be sent the cancel request again
    cfg10 = dict(ntests=2, sel=[0, 1], unsel=[], total={0: 1, 1: 3}, nscripts=0)
    cases.append(dict(op="loop", kind="loop", ntests=2, nscripts=0, initial=2, max_fail=1, cfg=cfg10,
                      events=[["st", 0], ["st", 1], ["fin", 0, f11], ["afwr", 1, [2, 0, 0, 0, 1, 3]],
                              ["rs", 1, 2, 3]]))
    for sg in dc.SIGS:
        cases.append(dict(cases[0], max_fail=None, events=[["ss", 0], ["sf", 0, [0, 0, 0]], ["st", 0], ["st", 1],
                                                            ["sig", sg], ["st", 2], ["sig", "hup"]]))
    while len(cases) < n:
        cases.append(loop_case(r))
    impl = vlib.run_impl(binary, "dispatcher", cases, shards=8)
    model = dc.coq_eval("c10l", [dc.coq_seq_expr(c) for c in cases])
    bro = dc.coq_eval("c10b", [
        f"map (fun x => enc_broadcast (broadcast_of (r_resp (step_resp x))) ++ "
        f"[match r_unit (step_resp x) with Some t => t + 1 | None => 0 end]) "
        f"(trace (Live (init {c['initial']} {dc.coq_mf(c['max_fail'])} true)) {dc.coq_events(c['events'])})"
        for c in cases])
    for c, i, m, b in zip(cases, impl, model, bro):
        chk.count("run_loop_cases")
        if "steps" not in i or len(i["steps"]) != len(c["events"]):
            chk.violation("broken-obligation", "corr:dispatcher-run",
                          dict(input=c, impl=i, note="the loop probe did not process every input"), no_input=True)
            return
        why = oracle_loop(c, i["steps"])
        if why:
            chk.violation("counterexample", "oracle:c10-broadcast", dict(input=c, clause=why, impl=i["steps"]))
            return
        for k, (st, mo, bc) in enumerate(zip(i["steps"], m, b)):
            chk.count("run_loop_steps")
            for key, u in st["received"]:
                for q in u:
                    chk.count(f"unit_received={q.split(':')[0]}")
            bad = False
            for key, u in st["received"]:
                want = ([[1, 0]] if key is not None and bc[2] == key + 1 else []) + ([] if bc[:2] == [0, 0] else [bc[:2]])
                if [REQ_CODE[q] for q in u] != want:
                    bad = True
            if dc.HS[st["hs"]] != mo[1][0] or [dc.canon_emitted(e) for e in st["emitted"]] != mo[2:] or bad:
                chk.violation("broken-obligation", "corr:dispatcher-run",
                              dict(input=c, step=k, impl_step=st, model_step=mo, model_broadcast=bc,
                                   note="the real run loop and the model disagree (emitted events, handshake or "
                                        "the request broadcast to the running units); the broadcast oracle "
                                        "accepted the implementation"), no_input=True)
                return


def run(tier, seed):
    chk = vlib.Check(PROP, tier, seed)
    gate = vlib.coq_gate(PROP, extra_targets=dc.EXTRA_TARGETS)
    vlib.gate_or_violation(chk, gate)
    # DESIGN 11.7: these decision functions are regenerated from the Rust source and proved equal to the
    # model's for all inputs; a failure is reported when the check finishes unless a stage below finds a
    # concrete failing input
    gen_tie.gate(chk, ['cancel_reason_rank', 'is_exceeded', 'event_to_cancel_reason', 'to_request', 'failed_count',
                       'runner_settings'], gate)
    # glue code (DESIGN 11.7, third round): the Cancel arm of DispatcherContext::run and broadcast_request
    gen_tie.gate(chk, ['run_cancel_broadcasts', 'broadcast_request'], gate, family="glue")
    # DESIGN 11.2e: the OtherCancel arm of every wait loop of a unit is regenerated from the source and proved equal
    # to the model's (ignored while running / terminating / draining, ends the retry delay)
    import units_e2e
    units_e2e.arms_gate(chk, PROP, gate)
    binary, err = vlib.build_harness()
    if binary is None:
        chk.violation("broken-obligation", "harness-build", dict(error=err), no_input=True)
        return chk.finish(gate, "make -C coq Properties/C10.vo", [])
    r = vlib.rng_for(seed, PROP)

    corr_pure(chk, binary)

    cases = build_cases(r, tier)
    impl, mismatch = run_step_correspondence(chk, binary, cases, r, dc.oracle_c10, tier, "c10s")
    oracle_failed = False
    distinct = set()
    for c, i in zip(cases, impl):
        if "steps" not in i:
            continue
        steps = i["steps"]
        chk.count("dispatcher_step_cases")
        chk.count(f"kind={c['kind']}")
        chk.count("steps", len(steps))
        chk.count(f"len_bucket={min(len(c['events']) // 10 * 10, 70)}+")
        chk.count(f"max_fail={c['max_fail']}")
        ann = [e["reason"] for s in steps if not s["panic"] for e in s["emitted"] if e["k"] == "RunBeginCancel"]
        for a in ann:
            chk.count(f"announced={a}")
        if any(e["k"] == "RunBeginKill" for s in steps if not s["panic"] for e in s["emitted"]):
            chk.count("runs_with_kill")
        if steps and steps[-1]["panic"]:
            chk.count("runs_ending_in_panic")
        refused = sum(1 for s in steps if s["hs"] == "refused")
        chk.count("refused_handshakes", refused)
        if ann and refused:
            distinct.add(json.dumps([c["events"], c["max_fail"]]))
        why = dc.oracle_c10(c, steps)
        if why and not oracle_failed:
            oracle_failed = True
            small = shrink(binary, c, dc.oracle_c10)
            ssteps = vlib.run_impl(binary, "dispatcher", [small])[0]["steps"]
            chk.violation("counterexample", "oracle:c10",
                          dict(input=small, original_input=c, clause=dc.oracle_c10(small, ssteps) or why,
                               impl=ssteps))
    report_mismatch(chk, binary, mismatch, r, dc.oracle_c10, tier, oracle_failed)
    corr_run_loop(chk, binary, r, tier)

    chk.sample(dict(history=cases[0]["events"], max_fail=cases[0]["max_fail"],
                    impl_emitted=[[e["k"] + (":" + e["reason"] if "reason" in e else "") for e in s.get("emitted", [])]
                                  for s in impl[0]["steps"]],
                    handshakes=[s["hs"] for s in impl[0]["steps"]]))
    for c in cases[3:6]:
        chk.sample(dict(kind=c["kind"], max_fail=c["max_fail"], history=c["events"][:25]))
    chk.assumptions = [
        "the response -> broadcast mapping (OtherCancel / Shutdown) of DispatcherContext::run is exercised by "
        "corr:dispatcher-run (hook H2b: the real loop, real SIGHUP/SIGTERM/SIGQUIT/SIGINT raised at the harness "
        "process) on a few hundred well-formed histories; Stop / Continue / GetInfo broadcasts are not driven "
        "(the loop would really stop the process / wait on real timers)",
        "units' reaction to OtherCancel (ignored while running, leaves the retry delay) belongs to the unit model "
        "(C07 / executor-timers slice); 'the run ends as soon as ...' (finding F10) is not decided here",
        "debug assertions on (the harness profile): new_setup_script / finish_setup_script debug_assert paths are "
        "compared as panics; release behaviour is the dbg=false branch of the model, covered by the theorems only",
    ]
    # end-to-end stage: real cargo-nextest runs over the scripted puppet workspace (real schedules, real
    # process exit status), judged by this property's oracle (lib/e2e_general.py)
    try:
        import e2e_general
        e2e_general.stage(chk, PROP, tier, seed)
        # corr:dispatcher-trace (hook H1b): the history the real dispatcher received on real schedules is
        # checked against wf_history and replayed through fold dstep (lib/trace_tie.py)
        import trace_tie
        trace_tie.stage_trace(chk, tier, seed)
    except RuntimeError as ex:
        chk.violation("broken-obligation", "e2e-build", dict(error=str(ex)[-3000:]), no_input=True)
    return chk.finish(
        gate, "make -C coq Properties/C10.vo && coqc gen/assump_C10.v (Print Assumptions)",
        ["Coq 8.16.1 kernel + vm_compute",
         "hand-written model Model/{Result,Dispatcher}.v tied by corr:dispatcher-step (hook H2), "
         "corr:dispatcher-run (hook H2b), corr:cancel-reason-ord, corr:max-fail",
         "hooks H2/H3 (plain-data conversion inside nextest-runner under cfg(nextest_verif))",
         "Python generators/canonicalisers/oracle in props/dispatcher_common.py, props/C10.py",
         "harness/src/dispatcher.rs"],
        dict(evaluations=sum(v for k, v in chk.counts.items() if k.endswith("_cases")),
             distinct_nontrivial=len(distinct),
             rule="a case is one event history (<= 8 tests, <= 80 events) with a max-fail value, stepped through "
                  "handle_event and through fold dstep with every step compared; non-trivial = the implementation "
                  "announced a cancellation and refused at least one start request; distinct by (history, max-fail)",
             traces_validated_against_impl=chk.counts.get("steps", 0)))


def replay(path, seed):
    d = json.load(open(path))
    print(json.dumps(d, indent=1)[:4000])
    binary, err = vlib.build_harness()
    inp = d.get("failing_input") or d.get("input")
    if isinstance(inp, dict) and inp.get("op") == "seq":
        steps = vlib.run_impl(binary, "dispatcher", [inp])[0]["steps"]
        model = dc.coq_eval("c10r", [dc.coq_seq_expr(inp)])[0]
        why = dc.oracle_c10(inp, steps)
        diff = dc.diff_seq(steps, model)
        print("oracle:", why or "accepts")
        print("model vs implementation:", "agree" if diff is None else f"differ at step {diff[0]}: impl {diff[1]} model {diff[2]}")
        return 1 if (why or diff) else 0
    return 2   # not a kind of record this function knows how to replay (the driver then re-runs the check)
