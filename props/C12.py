"""C12 -- stop/continue. The pause table is regenerated from the Rust source by the syn translator on
every run; Proofs/PauseCert.v re-establishes the finite certificate for it and Properties/C12.v
lifts it to every request sequence. End-to-end: SIGTSTP / SIGCONT (and shutdown, info) delivered to
a real nextest; the closed-loop model simulation and the oracle are compared with what happened."""
import json, os
import vlib, e2e, units_e2e as U, gen_tie

PROP = "C12"


def gen(r, n):
    scs = []
    # stop/continue while running; while slow; during the timeout grace period (the F3 scenario)
    scs.append(dict(u=150, period=4, ta=None, grace=2, leak=0.7, dur=3.5, on_term="exit", sigs=[(1.5, "TSTP"), (5.5, "CONT")]))
    scs.append(dict(u=150, period=1, ta=2, grace=2, leak=0.7, dur=8.5, on_term="ignore", sigs=[(2.5, "TSTP"), (6.5, "CONT")]))
    # a unit that sorts earlier sat in a retry delay when a first shutdown signal came (it returned without a
    # Finished event and its request channel is closed): stop / continue and an information request must still
    # reach the stubborn test that is being terminated
    scs.append(dict(u=150, period=20, ta=None, grace=14, leak=0.7, dur=9, on_term="ignore",
                    retry_companion=dict(delay=40), sigs=[(1.5, "INT"), (3.5, "TSTP"), (6.5, "CONT")]))
    scs.append(dict(u=150, period=20, ta=None, grace=14, leak=0.7, dur=7, on_term="ignore",
                    retry_companion=dict(delay=40), sigs=[(1.5, "TERM"), (3.5, "USR1")]))
    # the same without the double-spawn launcher (units spawned directly): the group is still stopped
    scs.append(dict(u=150, period=4, ta=None, grace=2, leak=0.7, dur=3.5, on_term="exit", sigs=[(1.5, "TSTP"), (5.5, "CONT")],
                    direct_spawn=True))
    scs.append(dict(u=150, period=1, ta=2, grace=2, leak=0.7, dur=8.5, on_term="ignore", sigs=[(2.5, "TSTP"), (6.5, "CONT")],
                    direct_spawn=True, child=True))
    scs.append(dict(u=150, period=1, ta=3, grace=1, leak=0.7, dur=8.5, on_term="ignore", sigs=[(1.5, "TSTP"), (5.5, "CONT")]))
    # two stops
    scs.append(dict(u=150, period=1, ta=2, grace=2, leak=0.7, dur=8.5, on_term="ignore",
                    sigs=[(1.5, "TSTP"), (4.5, "CONT"), (6.5, "TSTP"), (9.5, "CONT")]))
    # the test exits while the run is stopped for the SECOND time (it ignores SIGTSTP): the time spent in the
    # first stop is not part of its reported duration either
    scs.append(dict(u=150, period=20, ta=None, grace=2, leak=0.7, dur=6.5, on_term="exit", stops=False,
                    sigs=[(1.5, "TSTP"), (3.5, "CONT"), (4.5, "TSTP"), (8.5, "CONT")]))
    scs.append(dict(u=150, period=20, ta=None, grace=2, leak=0.7, dur=5.5, on_term="exit", stops=False,
                    sigs=[(0.5, "TSTP"), (3.5, "CONT"), (4.5, "TSTP"), (7.5, "CONT")], direct_spawn=True))
    # test exits while stopped (the F11 scenario): it ignores SIGTSTP
    scs.append(dict(u=150, period=20, ta=None, grace=2, leak=0.7, dur=3.5, on_term="exit", stops=False,
                    sigs=[(1.5, "TSTP"), (7.5, "CONT")]))
    for d, t1 in ((2.5, 1.5), (4.5, 2.5), (3.5, 2.5)):
        scs.append(dict(u=150, period=20, ta=None, grace=2, leak=0.7, dur=d, on_term="exit", stops=False,
                        sigs=[(t1, "TSTP"), (t1 + 5, "CONT")]))
    # a setup script stopped during its timeout grace period
    scs.append(dict(u=150, period=1, ta=2, grace=2, leak=0.7, dur=8.5, on_term="ignore",
                    sigs=[(2.5, "TSTP"), (6.5, "CONT")], as_script=True))
    # stop, continue, then interrupt
    scs.append(dict(u=150, period=20, ta=None, grace=2, leak=0.7, dur=9, on_term="ignore",
                    sigs=[(1.5, "TSTP"), (4.5, "CONT"), (5.5, "INT")]))
    # a shutdown signal sent WHILE nextest is stopped: it stays pending until SIGCONT, then both are handled, in
    # either order (where F3 lived): the signal reaches the test at the continue, the grace period starts there
    scs.append(dict(u=150, period=20, ta=None, grace=2, leak=0.7, dur=12, on_term="ignore",
                    sigs=[(1.5, "TSTP"), (2.5, "INT"), (3.5, "CONT")]))
    scs.append(dict(u=150, period=20, ta=None, grace=2, leak=0.7, dur=12, on_term="exit", bystander=9,
                    sigs=[(1.5, "TSTP"), (2.5, "TERM"), (3.5, "CONT")]))
    # ... followed by a second stop inside the grace period that started at the continue
    scs.append(dict(u=150, period=20, ta=None, grace=3, leak=0.7, dur=14, on_term="ignore",
                    sigs=[(1.5, "TSTP"), (2.5, "TERM"), (3.5, "CONT"), (4.5, "TSTP"), (6.5, "CONT")]))
    # (which of the two is handled first is up to the signal stream map: several runs, each signal)
    for s1, gr in (("HUP", 2), ("QUIT", 3), ("INT", 3), ("TERM", 2), ("HUP", 3), ("QUIT", 2)):
        scs.append(dict(u=150, period=20, ta=None, grace=gr, leak=0.7, dur=14, on_term="ignore",
                        sigs=[(1.5, "TSTP"), (2.5, s1), (3.5, "CONT")] +
                             ([(4.5, "TSTP"), (6.5, "CONT")] if gr == 3 else [])))
    # ... while the unit is being terminated for a timeout: killed at the continue
    scs.append(dict(u=150, period=1, ta=2, grace=4, leak=0.7, dur=12, on_term="ignore",
                    sigs=[(2.5, "TSTP"), (3.5, "INT"), (4.5, "CONT")]))
    # finding F17 (known): stopped inside the grace period of a *signal* termination -- the slow-timeout interval
    # is not owned by terminate_child and runs through the stop
    scs.append(dict(u=150, period=8, ta=None, grace=4, leak=0.7, dur=20, on_term="ignore",
                    sigs=[(1.5, "INT"), (2.5, "TSTP"), (7.5, "CONT")]))
    # two units running: both are stopped before nextest stops itself
    scs.append(dict(u=150, period=20, ta=None, grace=2, leak=0.7, dur=4.5, on_term="exit", bystander=3.5,
                    sigs=[(1.5, "TSTP"), (4.5, "CONT")]))
    while len(scs) < n:
        period = r.choice([1, 2, 20])
        ta = r.choice([None, 2, 3]) if period < 20 else None
        grace = r.choice([1, 2])
        t1 = r.choice([1.5, 2.5, 3.5])
        stop_len = r.choice([3, 4])
        dur = r.choice([3.5, 5.5, 7.5])
        on_term = r.choice(["exit", "ignore"])
        sigs = [(t1, "TSTP"), (t1 + stop_len, "CONT")]
        x = r.random()
        if x < 0.3:
            sigs.append((t1 + stop_len + 1, r.choice(["INT", "TERM"])))
        elif x < 0.5:
            sigs.insert(1, (t1 + 1, r.choice(["INT", "TERM", "HUP", "QUIT"])))   # while stopped
        scs.append(dict(u=150, period=period, ta=ta, grace=grace, leak=0.7, dur=dur, on_term=on_term, sigs=sigs))
    return scs


def info_scenarios():
    return [dict(u=150, period=20, ta=None, grace=2, leak=0.7, dur=4, on_term="exit", sigs=[(1.5, "USR1")]),
            dict(u=150, period=1, ta=1, grace=4, leak=0.7, dur=9, on_term="ignore", sigs=[(2.5, "USR1")])]


def oracle_info(sc, o):
    w = U.oracle_common(sc, o)
    if w or not o.get("started"):
        return w
    resp = [e for e in o["info"] if e["kind"] == "InfoResponse" and e["unit"].get("test", [None, None])[1] == "subject"]
    if len(resp) != 1:
        return f"information request answered {len(resp)} times by the running test: {o['info']}"
    want = "terminating" if sc.get("ta") else "running"
    if resp[0]["state"]["state"] != want:
        return f"information response state {resp[0]['state']['state']}, the unit was {want}"
    return None


def run(tier, seed):
    chk = vlib.Check(PROP, tier, seed)
    ok, msg = U.regen_table()
    if not ok:
        chk.violation("broken-obligation", "pause-table-translator", dict(error=msg), no_input=True)
    gate = vlib.coq_gate(PROP, extra_targets=["Model/UnitEnv.vo", "gen/GenPauseTable.vo"])
    life_gate = U.life_gate(chk) if ok else None
    if not gate["ok"]:
        # the certificate (or another obligation) no longer checks for the regenerated table:
        # look for a concrete failing request sequence on the regenerated model
        path = []
        try:
            path = U.first_bad_path() if ok else []
        except Exception as ex:
            path = []
        if path:
            chk.violation("counterexample", "cert:pause-table",
                          dict(clause="a request sequence the dispatcher can produce makes a unit fail internally or "
                                      "leaves a clock it owns in the wrong pause state",
                               request_sequence=path, table=msg if ok else None, problems=gate["problems"]))
        else:
            vlib.gate_or_violation(chk, gate)
    # DESIGN 11.2e: the GetInfo, Stop and Continue arms of every wait loop are regenerated from the source by a
    # second translator and proved equal to the model's (one response tagged with the loop's state; the job-control
    # arms mean what the pause table means)
    U.arms_gate(chk, PROP, gate)
    # glue code (DESIGN 11.7, third round): DispatcherContext::broadcast_request (through which Stop / Continue reach the
    # units) visits every running unit and skips closed channels, read from the source
    gen_tie.gate(chk, ['broadcast_request'], gate, family="glue")
    try:
        rig = e2e.Rig()
    except RuntimeError as ex:
        chk.violation("broken-obligation", "e2e-build", dict(error=str(ex)[-3000:]), no_input=True)
        return chk.finish(gate, "make -C coq Properties/C12.vo", [])
    r = vlib.rng_for(seed, PROP)
    scs = gen(r, 73 if tier == "thorough" else 30)
    life_scs = []
    if U.check_family(chk, rig, scs, U.oracle_C12, "c12"):
        if U.check_family(chk, rig, info_scenarios(), oracle_info, "c12i"):
            # the whole life of a unit: SIGTSTP / SIGCONT landing in the retry delay (or outstanding at the
            # hand-over from an attempt to its delay), information requests in each of the four wait loops
            life_scs = U.life_stage(chk, rig, [U.life_stop_in_delay, U.life_info], "c12l",
                                    vlib.rng_for(seed, PROP + ":life"), tier == "thorough")
            if tier == "thorough":
                # finding F16 (probabilistic): an attempt with retries left ends between its unit's handling
                # of Stop and nextest stopping itself
                U.handover_race_stage(chk, rig)
    for sc in scs[:3]:
        chk.sample(sc)
    chk.sample(dict(pause_table=msg.splitlines()[3:11] if ok else None))
    for sc in life_scs[:2]:
        chk.sample(sc)
    if life_gate is not None:
        gate = U.merge_gates(gate, life_gate)
    distinct = len({json.dumps([s["period"], s["ta"], s["grace"], s["dur"], s["on_term"], s["sigs"]]) for s in scs})
    chk.assumptions = [
        "the syn translator reads the Stop/Continue arms correctly (an arm it cannot translate is an error)",
        "the leak-drain loop ignores stop/continue by design (known finding F12)",
        "whole-life theorems (Properties/UnitLife.v) exclude the class 'a phase begins, or the leak drain is sent a "
        "Stop, while a Stop is owed its Continue' (refuted inside it by closed examples)",
        "nextest's own stop / continue is what its parent process sees through waitid(WSTOPPED | WCONTINUED)",
        "signals sent while nextest is stopped are handled at the continue in either order: a run must agree "
        "completely with one of the two predictions",
        "timing tolerance 0.45 time units; time-dependent failures must reproduce with the unit doubled"]
    return chk.finish(gate, "pause_table > gen/GenPauseTable.v; make -C coq Properties/C12.vo (re-checks "
                            "Proofs/PauseCert.v by vm_compute over the whole abstract state space) + Print Assumptions",
                      ["Coq 8.16.1 kernel + vm_compute", "harness/src/bin/pause_table.rs (translator)",
                       "Model/UnitTimers.v, Model/AbsTimers.v, Model/UnitEnv.v, Model/UnitLife.v, Model/UnitLifeEnv.v",
                       "lib/units_e2e.py, e2e/puppet.py"],
                      dict(evaluations=chk.counts.get("e2e_runs", 0), distinct_nontrivial=distinct,
                           rule="scenario = (slow-timeout config, duration, reaction, times of SIGTSTP/SIGCONT/"
                                "shutdown/info signals); all contain a stop/continue pair or an info request",
                           traces_validated_against_impl=chk.counts.get("e2e_runs", 0),
                           abstract_states_reachable="see Proofs/PauseCert.v (pause_reach)"))


def replay(path, seed):
    d = json.load(open(path))
    print(json.dumps(d, indent=1)[:4000])
    runs = d.get("runs") or []
    if not runs:
        return 0
    rig = e2e.Rig()
    sc = runs[0]["scenario"]
    o = U.run_scenarios(rig, [sc], par=1)[0]
    why = U.oracle_C12(sc, o)
    print("oracle:", why or "accepts", "| compare:",
          U.compare_any(sc, [U.predict([sc])[0], U.predict_alt([sc])[0]], o)[0])
    return 1 if why else 0
