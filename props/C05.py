"""C05 — filterset expressions denote the documented sets under the documented precedence.
Theorems: Properties/C05.v. Correspondence: Filterset::parse + matches_test / matches_binary of the
real crate against parse -> compile -> eval_test / eval_binary of the Coq model (vm_compute) on
grammar-directed random expressions and on every short operator string over five leaf
predicates. Oracle (independent of the model): a set-semantics evaluator on the tree each text was
rendered from (rendering follows the documented precedence table only), a precedence-climbing
evaluator for the short operator strings, and Kleene soundness of matches_binary on the
implementation's own answers. Regex / glob truth values come from the real engines as per-case
tables."""
import itertools, json, os
import vlib
from vlib import coq_str, coq_list, coq_bool
from props import filterset_common as F

PROP = "C05"
IMPORTS = ["Base.Str", "Model.FiltersetAst", "Model.Filterset", "Model.FiltersetParse"]


def prelude(world, queries):
    pk = coq_list([f"({i}, {coq_str(n)})" for i, n in enumerate(world["names"])])
    dep = coq_list([f"({i}, {j})" for i, row in enumerate(world["depends_on"]) for j, v in enumerate(row) if v])
    names = coq_list([coq_str(n) for n in world["names"]])
    qs = coq_list([
        f"(mkbq {q['pkg']} {coq_str(q['binary_id'])} {coq_str(q['binary_name'])} {coq_str(q['kind'])} "
        f"{'PHost' if q['platform'] == 'host' else 'PTarget'}, {coq_str(q['test'])})" for q in queries])
    return f"""
Definition W0 : world := mkworld {pk} (mem_pair {dep}) {names} {names}.
Definition Q0 : list tquery := {qs}.
Definition enc_k (v : option bool) : N := match v with Some true => 1 | Some false => 0 | None => 2 end.
Definition answers (E : engines) (dt : tquery -> bool) (db : bquery -> option bool) (e : pexpr) : list N :=
  flat_map (fun q => [enc_bool (eval_test E dt (compile E W0 e) q);
                      enc_k (eval_binary E db (compile E W0 e) (fst q))]) Q0.
(* 0 :: _ parse failed; 2 compile failed; 3 default filter rejected; 1 :: answers *)
Definition c05_case (SO : syntax_oracle) (E : engines) (s : str) (d : option str) : list N :=
  match parse SO s with
  | POk e =>
      if compiles E W0 false e then
        match d with
        | None => 1 :: answers E (fun _ => true) (fun _ => Some true) e
        | Some ds =>
            match parse SO ds with
            | POk de => if compiles E W0 true de
                        then 1 :: answers E (ctx_test E (compile E W0 de)) (ctx_binary E (compile E W0 de)) e
                        else [3]
            | PErr _ => [3]
            end
        end
      else [2]
  | PErr _ => [0]
  end.
"""


def coq_tables(trees, tabs):
    ms = [m for t in trees for m in F.matchers_of(t)]
    gl = sorted({(m[3], tabs["gv"].get(m[3], False)) for m in ms if m[1] == 2})
    rx = sorted({(m[3], tabs["ri"].get(m[3], ("nomsg",))) for m in ms if m[1] == 3})
    so = F.coq_syntax_oracle(gl, rx, False)
    gm = [f"({coq_str(g)}, {coq_str(i)}, true)" for (g, _) in gl for i in tabs["inputs"] if tabs["glob"].get((g, i))]
    rm = [f"({coq_str(p)}, {coq_str(i)}, true)" for (p, _) in rx for i in tabs["inputs"] if tabs["regex"].get((p, i))]
    return so, f"(engines_of_tables {coq_list(rm)} {coq_list(gm)})"


def compilable(tree, tabs, world, default_kind=False):
    """does the documentation say this expression is accepted (every package / binary predicate
    selects something, no default() inside a default filter)?"""
    names = world["names"]
    k = tree[0]
    if k == "set":
        idx, m = tree[1], tree[2]
        if idx == 8:
            return not default_kind
        if idx in (0, 4, 5):
            return any(F.py_match(m, n, tabs) for n in names)
        if idx == 1:
            return any(F.py_match(m, names[i], tabs) and world["depends_on"][i][j]
                       for i in range(len(names)) for j in range(len(names)))
        if idx == 2:
            return any(F.py_match(m, names[i], tabs) and world["depends_on"][j][i]
                       for i in range(len(names)) for j in range(len(names)))
        return True
    if k == "parens":
        return compilable(tree[1], tabs, world, default_kind)
    if k == "not":
        return compilable(tree[2], tabs, world, default_kind)
    return compilable(tree[2], tabs, world, default_kind) and compilable(tree[3], tabs, world, default_kind)


def engine_ok(tree, tabs):
    return all((m[1] != 2 or tabs["gv"].get(m[3])) and (m[1] != 3 or tabs["ri"].get(m[3], ("x",))[0] == "ok")
               for m in F.matchers_of(tree))


def gen_queries(r, world):
    bqs = []
    ids = F.PKG_NAMES + ["crate_a::it", "crate_b::bin/x", "other"]
    for i in range(len(world["names"])):
        bqs.append(dict(pkg=i, binary_id=r.choice([world["names"][i], r.choice(ids)]),
                        binary_name=r.choice([world["names"][i], r.choice(F.PKG_NAMES + ["other", "crate_ab"])]),
                        kind=r.choice(F.KINDS), platform=r.choice(["host", "target"])))
    while len(bqs) < 10:
        bqs.append(dict(pkg=r.randrange(len(world["names"])), binary_id=r.choice(ids),
                        binary_name=r.choice(F.PKG_NAMES + ["other"]), kind=r.choice(F.KINDS),
                        platform=r.choice(["host", "target"])))
    qs = []
    for bq in bqs:
        for t in r.sample(F.TEST_NAMES, 4):
            qs.append(dict(bq, test=t))
    return qs


# ---- the short operator strings: tokens, a renderer, and a precedence-climbing evaluator written
#      from the documented table (not < and,&,- < or,|,+; left-associative; parentheses override)

LEAVES = ["test(a)", "test(b)", "kind(lib)", "platform(host)", "package(crate_a)"]


LEAF_TREES = [("set", 7, ("m", 1, True, "a")), ("set", 7, ("m", 1, True, "b")), ("set", 3, ("m", 0, True, "lib")),
              ("set", 6, ("p", 1)), ("set", 0, ("m", 2, True, "crate_a"))]


def leaf_truth(i, q, world):
    return [("a" in q["test"]), ("b" in q["test"]), q["kind"] == "lib", q["platform"] == "host",
            world["names"][q["pkg"]] == "crate_a"][i]


def pc_eval(tokens, truth):
    """tokens: ints (leaf index), 'not', 'and', 'or', 'diff', '(', ')'"""
    pos = 0

    def peek():
        return tokens[pos] if pos < len(tokens) else None

    def atom():
        nonlocal pos
        t = tokens[pos]
        pos += 1
        if t == "not":
            return not atom()
        if t == "(":
            v = level_or()
            assert tokens[pos] == ")"
            pos += 1
            return v
        return truth[t]

    def level_and():
        nonlocal pos
        v = atom()
        while peek() in ("and", "diff"):
            op = tokens[pos]
            pos += 1
            w = atom()
            v = (v and w) if op == "and" else (v and not w)
        return v

    def level_or():
        nonlocal pos
        v = level_and()
        while peek() == "or":
            pos += 1
            w = level_and()
            v = v or w
        return v

    v = level_or()
    assert pos == len(tokens)
    return v


def spell(r, tokens):
    out = []
    for t in tokens:
        if isinstance(t, int):
            out.append(LEAVES[t])
        elif t == "not":
            out.append(r.choice(["not ", "!", "! "]))
        elif t == "and":
            out.append(r.choice([" and ", " & ", "&", " &"]))
        elif t == "or":
            out.append(r.choice([" or ", " | ", "|", " + ", "+"]))
        elif t == "diff":
            out.append(r.choice([" - ", "-", "- "]))
        else:
            out.append(t)
    return "".join(out)


def short_operator_strings():
    """every [not] l0 (op [not] li){0..3} with op in {and, or, diff}, plus the parenthesised
    right-nested variants for two and three operators"""
    out = []
    for k in range(0, 4):
        for ops in itertools.product(["and", "or", "diff"], repeat=k):
            for nots in itertools.product([False, True], repeat=k + 1):
                toks = []
                for i in range(k + 1):
                    if i:
                        toks.append(ops[i - 1])
                    if nots[i]:
                        toks.append("not")
                    toks.append(i)
                out.append(toks)
            if k >= 2:
                # a op (b op c [op d]) and, for k = 3, a op (b op c) op d
                out.append([0, ops[0], "("] + [x for i in range(1, k + 1) for x in ([ops[i - 1]] if i > 1 else []) + [i]] + [")"])
                if k == 3:
                    out.append([0, ops[0], "(", 1, ops[1], 2, ")", ops[2], 3])
                    out.append(["not", "(", 0, ops[0], 1, ")", ops[1], 2, ops[2], 4])
    return out


def graph_ok_disagreements(world):
    """The hypothesis [graph_ok] of C05_eval_is_documented_set, checked for the fixture graph: on
    workspace packages guppy's depends_on(a, b) must be "a = b or a reaches b along the direct
    dependency edges".  The edges are read from the cargo metadata itself (resolve.nodes[].deps, all
    packages, all dependency kinds) and closed here in plain Python -- independent of guppy."""
    meta = json.load(open(os.path.join(vlib.REPO, "fixtures", "tests-workspace-metadata.json")))
    direct = {n["id"]: [d["pkg"] for d in n["deps"]] for n in meta["resolve"]["nodes"]}

    def reach(a):
        seen, todo = {a}, [a]
        while todo:
            x = todo.pop()
            for y in direct.get(x, []):
                if y not in seen:
                    seen.add(y)
                    todo.append(y)
        return seen

    ids, out, strict = world["ids"], [], 0
    for i, a in enumerate(ids):
        ra = reach(a)
        for j, b in enumerate(ids):
            want = b in ra
            strict += want and a != b
            if bool(world["depends_on"][i][j]) != want:
                out.append(dict(a=world["names"][i], b=world["names"][j], depends_on=world["depends_on"][i][j],
                                closure_of_direct_edges=want))
    return out, len(ids) ** 2, strict


def nonmember_stage(chk, binary):
    """deps() / rdeps() over a package graph in which a dependency path between two workspace members runs
    through a package that is NOT a workspace member (the fixture with crate_d turned into a non-member
    path dependency: crate_e -> crate_d -> crate_b -> crate_a, crate_d -> crate_c). Oracle: the documented
    sets, from the closure of the cargo-metadata edges over ALL packages, restricted to workspace members."""
    import subprocess
    meta = json.load(open(os.path.join(vlib.REPO, "fixtures", "tests-workspace-metadata.json")))
    out_id = [m for m in meta["workspace_members"] if m.startswith("crate_d ")]
    if len(out_id) != 1:
        chk.count("nonmember_stage_skipped_fixture_changed")
        return
    for key in ("workspace_members", "workspace_default_members"):
        if key in meta:
            meta[key] = [m for m in meta[key] if m != out_id[0]]
    path = os.path.join(vlib.CACHE, "c05_nonmember_metadata.json")
    json.dump(meta, open(path, "w"))
    env = dict(vlib.ENV, VERIF_GRAPH_JSON=path)

    def harness(cases):
        p = subprocess.run([binary, "filterset"], input="\n".join(json.dumps(c) for c in cases) + "\n",
                           capture_output=True, text=True, env=env, timeout=300)
        lines = [l for l in p.stdout.split("\n") if l.strip()]
        if p.returncode != 0 or len(lines) != len(cases):
            raise RuntimeError(f"harness filterset (non-member graph) failed rc={p.returncode}: {p.stderr[-800:]}")
        return [json.loads(l) for l in lines]

    world = harness([dict(op="graph")])[0]
    direct = {n["id"]: [d["pkg"] for d in n["deps"]] for n in meta["resolve"]["nodes"]}

    def reach(a):
        seen, todo = {a}, [a]
        while todo:
            x = todo.pop()
            for y in direct.get(x, []):
                if y not in seen:
                    seen.add(y)
                    todo.append(y)
        return seen
    ids, names = world["ids"], world["names"]
    if out_id[0] in ids:
        chk.violation("broken-obligation", "nonmember-graph", dict(error="crate_d is still a workspace member"), no_input=True)
        return
    reach_of = {a: reach(a) for a in ids}
    queries = [[ids[j], names[j], names[j], "lib", "target", "t"] for j in range(len(ids))]
    cases, want = [], []
    for i, n in enumerate(names):
        for pred in ("deps", "rdeps"):
            for spell in (f"{pred}(={n})", f"{pred}({n})", f"not {pred}(={n})"):
                cases.append(dict(op="eval", s=spell, default=None, queries=queries))
                row = [(ids[j] in reach_of[ids[i]]) if pred == "deps" else (ids[i] in reach_of[ids[j]])
                       for j in range(len(ids))]
                want.append([not x for x in row] if spell.startswith("not ") else row)
    res = harness(cases)
    through = 0
    for c, io, w in zip(cases, res, want):
        chk.count("nonmember_graph_cases")
        if not io.get("ok"):
            chk.violation("counterexample", "oracle:nonmember-graph",
                          dict(input=c["s"], impl=io, clause="a deps()/rdeps() filterset naming a workspace package was rejected"))
            return
        got = [bool(x[0]) for x in io["res"]]
        if got != w:
            chk.violation("counterexample", "oracle:nonmember-graph", dict(
                input=c["s"], packages=names, impl=got, documented=w,
                clause="deps(x) = x and everything x depends on transitively, rdeps(x) = x and everything depending on it "
                       "transitively -- also along paths that leave the workspace (crate_d is a non-member path dependency)"))
            return
    # non-vacuity: some member pair is connected only through the non-member
    for a in ids:
        for b in reach_of[a]:
            if b in ids and b != a:
                seen, todo = {a}, [a]
                while todo:
                    x = todo.pop()
                    for y in direct.get(x, []):
                        if y not in seen and y in ids:
                            seen.add(y); todo.append(y)
                through += b not in seen
    chk.count("nonmember_graph_pairs_only_through_nonmember", through)
    if through == 0:
        chk.violation("broken-obligation", "nonmember-graph",
                      dict(error="no member pair is connected only through the non-member: the stage tests nothing"), no_input=True)


def run(tier, seed):
    chk = vlib.Check(PROP, tier, seed)
    gate = vlib.coq_gate(PROP)
    vlib.gate_or_violation(chk, gate)
    binary, err = vlib.build_harness()
    if binary is None:
        chk.violation("broken-obligation", "harness-build", dict(error=err), no_input=True)
        return chk.finish(gate, "make -C coq Properties/C05.vo", [])
    r = vlib.rng_for(seed, PROP)
    thorough = tier == "thorough"
    world = F.run_filterset(binary, [dict(op="graph")])[0]
    viols, counters = [], {}

    def bad(kind, name, detail, no_input=False):
        counters[name] = counters.get(name, 0) + 1
        if counters[name] <= 2:
            viols.append((kind, name, detail, no_input))

    nonmember_stage(chk, binary)
    gbad0, gpairs, gstrict = graph_ok_disagreements(world)
    chk.count("graph_ok_pairs", gpairs)
    chk.count("graph_ok_strict_dependencies", gstrict)
    if gstrict == 0:
        bad("broken-obligation", "hyp:graph-ok", dict(error="fixture graph has no dependency edge: orientation not pinned"), True)
    for b in gbad0[:2]:
        bad("counterexample", "hyp:graph-ok", dict(
            input=b, clause="deps(x) = crates x depends on (transitively, x included), rdeps(x) = crates depending on "
                            "x: guppy's depends_on(a, b) must be the reflexive-transitive closure of the direct "
                            "dependency edges of the cargo metadata, in that orientation"))

    def evaluate(tag, cases, queries):
        """cases: dict(text, tree (semantic, may be None), expected_fn(q) -> bool or None, default (text, tree) or None)"""
        inputs = sorted({q[k] for q in queries for k in ("binary_id", "binary_name", "kind", "test")} |
                        set(world["names"]))
        def table_trees(c):
            return [t for t in ([c["tree"]] + ([c["default"][1]] if c.get("default") else []) + c.get("leaf_trees", [])) if t]
        trees = [t for c in cases for t in table_trees(c)]
        ms = [m for t in trees for m in F.matchers_of(t)]
        gv, gm, ri, rm = F.impl_oracle(binary, [m[3] for m in ms if m[1] == 2], [m[3] for m in ms if m[1] == 3], inputs)
        tabs = dict(gv=gv, ri=ri, glob=gm, regex=rm, inputs=inputs)
        # the glob matcher's own answers against the documented glob semantics (subset where it is
        # unambiguous): the engine tables are otherwise taken from the implementation as an oracle
        gbad, gn = F.glob_semantics_disagreements(gv, gm)
        chk.count("glob_semantics_pairs", gn)
        for b in gbad[:2]:
            bad("counterexample", "oracle:glob-semantics", dict(
                input=b, clause="a #glob matcher (or the implicit glob of package/deps/rdeps/binary/binary_id) "
                                "matches exactly the strings its pattern denotes (*, ?, [set], {a,b})"))
        rbad, rn = F.regex_semantics_disagreements(ri, rm)
        chk.count("regex_semantics_pairs", rn)
        for b in rbad[:2]:
            bad("counterexample", "oracle:regex-semantics", dict(
                input=b, clause="a /regex/ matcher matches exactly the strings containing a match of the pattern"))
        qj = [[world["ids"][q["pkg"]], q["binary_id"], q["binary_name"], q["kind"], q["platform"], q["test"]]
              for q in queries]
        impl = F.run_filterset(binary, [dict(op="eval", s=c["text"], default=c["default"][0] if c.get("default") else None,
                                             queries=qj) for c in cases])
        exprs = []
        for c in cases:
            so, eng = coq_tables(table_trees(c), tabs)
            d = f"(Some {coq_str(c['default'][0])})" if c.get("default") else "None"
            exprs.append(f"c05_case {so} {eng} {coq_str(c['text'])} {d}")
        model = vlib.coq_eval(tag, IMPORTS, exprs, prelude(world, queries))
        for c, io, mo in zip(cases, impl, model):
            chk.count("expression_cases")
            if "panic" in io:
                bad("counterexample", "oracle:no-panic", dict(input=c["text"], impl=io))
                continue
            tree = c["tree"]
            # what the documentation says should happen
            accept = c.get("accept")
            if tree is not None:
                dtree = c["default"][1] if c.get("default") else None
                accept = engine_ok(tree, tabs) and compilable(tree, tabs, world) and \
                    (dtree is None or (engine_ok(dtree, tabs) and compilable(dtree, tabs, world, True)))
            impl_ok = io["ok"]
            model_ok = mo[0] == 1
            if impl_ok != model_ok:
                kind = "counterexample" if accept is not None and accept != impl_ok else "broken-obligation"
                bad(kind, "corr:accepts", dict(input=c["text"], default=c.get("default", [None])[0], impl=io, model=mo[:1],
                                               documented_accept=accept,
                                               clause="implementation and model disagree on accepting the filterset"),
                    kind == "broken-obligation")
                continue
            if accept is not None and accept != impl_ok:
                bad("counterexample", "oracle:accepts",
                    dict(input=c["text"], impl=io, documented_accept=accept,
                         clause="a filterset the documentation accepts was rejected (or vice versa)"))
                continue
            if not impl_ok:
                chk.count("outcome_rejected")
                continue
            chk.count("outcome_evaluated")
            if "ast" in c and F.ast_to_json(F.ast_of_dbg_string(io["dbg"])) != F.ast_to_json(c["ast"]):
                bad("counterexample", "oracle:documented-grammar",
                    dict(input=c["text"], parsed=F.ast_of_dbg_string(io["dbg"]), expected=c["ast"],
                         clause="the parsed tree is not the one the documented precedence assigns"))
            ires = [x for pair in io["res"] for x in pair]
            mres = mo[1:]
            dfn = (lambda q: True)
            if c.get("default"):
                dt = c["default"][1]
                dfn = (lambda q, dt=dt: F.member(dt, q, tabs, world, lambda _: True))
            first_bad = None
            for qi, q in enumerate(queries):
                chk.count("evaluations")
                t_impl, b_impl = io["res"][qi]
                want = c["expected"](q, tabs, dfn)
                if want is not None and bool(t_impl) != want and first_bad is None:
                    first_bad = ("oracle:membership", q, f"matches_test = {bool(t_impl)}, the set semantics says {want}")
                if b_impl != 2 and b_impl != t_impl and first_bad is None:
                    first_bad = ("oracle:kleene", q, f"matches_binary = Some({bool(b_impl)}) but matches_test = {bool(t_impl)}")
            if first_bad:
                name, q, why = first_bad
                bad("counterexample", name, dict(input=c["text"], default=c.get("default", [None])[0], query=q,
                                                 clause=why, impl=io["res"], model=mres, rendered_from=c.get("tree"),
                                                 default_rendered_from=c["default"][1] if c.get("default") else None,
                                                 tokens=c.get("tokens")))
            elif ires != mres:
                qi = next(i for i in range(len(ires)) if i >= len(mres) or ires[i] != mres[i]) // 2
                bad("broken-obligation", "corr:eval",
                    dict(input=c["text"], default=c.get("default", [None])[0], query=queries[qi], impl=ires, model=mres,
                         clause="matches_test / matches_binary differ from the model; the set-semantics oracle accepted "
                                "the implementation's answers"), True)
        return tabs

    distinct = set()
    # ---- (ii) every short operator string over five leaf predicates, on all 32 truth assignments
    q2 = []
    for test in ("x", "a", "b", "ab"):
        for kind in ("lib", "bin"):
            for plat in ("host", "target"):
                for pkg in ("crate_a", "crate_b"):
                    q2.append(dict(pkg=world["names"].index(pkg), binary_id=pkg, binary_name=pkg, kind=kind,
                                   platform=plat, test=test))
    cases2 = []
    cp = os.path.join(vlib.VERIF, "corpus", "C05.json")
    extra = json.load(open(cp)) if os.path.exists(cp) else []
    for toks in extra + short_operator_strings():
        text = spell(r, toks)
        cases2.append(dict(text=text, tree=None, tokens=toks, leaf_trees=LEAF_TREES, accept=True,
                           expected=(lambda q, tabs, dfn, toks=toks:
                                     pc_eval(toks, [leaf_truth(i, q, world) for i in range(5)]))))
        chk.count("short_operator_strings")
        distinct.add("S:" + json.dumps(toks))
    evaluate("c05s", cases2, q2)
    chk.sample(dict(short_operator_string=cases2[200]["text"], tokens=cases2[200]["tokens"]))

    # ---- (i) grammar-directed random expressions ------------------------------------------------
    queries = gen_queries(r, world)
    cases = []
    n = 10000 if thorough else 450
    for i in range(n):
        depth = r.choice([0, 1, 1, 2, 2, 3, 3, 4, 5, 6])
        tree = F.gen_tree(r, depth, compilable=r.random() < 0.9, allow_bad=r.random() < 0.05)
        text, ast = F.render(r, tree, noise=r.random() < 0.7)
        c = dict(text=text, tree=tree, ast=ast,
                 expected=(lambda q, tabs, dfn, tree=tree: F.member(tree, q, tabs, world, dfn)))
        if r.random() < 0.3:
            dtree = F.gen_tree(r, r.choice([0, 1, 2]), compilable=True, allow_default=r.random() < 0.1)
            c["default"] = (F.render(r, dtree, noise=False)[0], dtree)
        cases.append(c)
        for k, v in F.tree_ops(ast).items():
            chk.count(k, v)
        chk.count(f"depth={F.tree_depth(tree)}")
        if F.tree_depth(tree) >= 1:
            distinct.add(json.dumps(tree))
    tabs = evaluate("c05g", cases, queries)
    chk.sample(dict(expression=cases[0]["text"], rendered_from=cases[0]["tree"], query=queries[0]))
    chk.sample(dict(expression=cases[1]["text"], default_filter=cases[1].get("default", [None])[0]))

    for kind, name, detail, no_input in viols:
        chk.violation(kind, name, detail, no_input=no_input)
    for k, v in counters.items():
        chk.count("mismatch_" + k, v)
    chk.assumptions = [
        "regex and glob engines, guppy's depends_on are oracles (per-case tables from the real crates / fixture graph)",
        "graph_ok (hypothesis of C05_eval_is_documented_set): guppy's depends_on = reflexive-transitive closure of the "
        "direct dependency edges -- checked on every run for the fixture graph against the cargo metadata (hyp:graph-ok)",
        "package graph: the repository's fixture workspace (7 packages)",
        "EvalContext's default filter is modelled as a pair of functions (test / binary view)",
    ]
    return chk.finish(
        gate, "make -C coq Properties/C05.vo && coqc gen/assump_C05.v (Print Assumptions)",
        ["Coq 8.16.1 kernel + vm_compute",
         "hand-written models Model/Filterset.v, Model/FiltersetParse.v tied by corr:accepts, corr:eval (and C20's corr:parse-*)",
         "Python generators / renderer / oracles in props/filterset_common.py, props/C05.py", "harness/src/filterset.rs"],
        dict(evaluations=chk.counts.get("evaluations", 0), distinct_nontrivial=len(distinct),
             exhaustive=False,
             rule="(i) random semantic trees (all predicates, matcher kinds, operator spellings, depth <= 6) rendered to text "
                  "by the documented precedence table with random redundant parentheses / whitespace / escapes, 30% with a "
                  "default filter, each evaluated on 40 queries (10 binaries x 4 test names) over the fixture graph; (ii) all "
                  "[not] leaf (op [not] leaf){0..3} strings over and/or/diff plus parenthesised variants on all 32 truth "
                  "assignments of five leaf predicates. non-trivial = at least one operator; distinct by tree / token list",
             traces_validated_against_impl=chk.counts.get("expression_cases", 0)))


def replay(path, seed):
    """re-runs the recorded expression and query through the implementation and re-judges it with the
    set-semantics (or precedence-climbing) oracle"""
    d = json.load(open(path))
    print(json.dumps(d, indent=1)[:4000])
    binary, err = vlib.build_harness()
    s, q = d.get("input"), d.get("query")
    if not isinstance(s, str) or not q:
        return 0
    world = F.run_filterset(binary, [dict(op="graph")])[0]
    qj = [[world["ids"][q["pkg"]], q["binary_id"], q["binary_name"], q["kind"], q["platform"], q["test"]]]
    io = F.run_filterset(binary, [dict(op="eval", s=s, default=d.get("default"), queries=qj)])[0]
    print("implementation now:", json.dumps(io)[:1500])
    if not io.get("ok"):
        print("FAILS: the filterset is rejected")
        return 1
    t_impl, b_impl = io["res"][0]
    tree, dtree, toks = d.get("rendered_from"), d.get("default_rendered_from"), d.get("tokens")
    fails = []
    if b_impl != 2 and b_impl != t_impl:
        fails.append(f"matches_binary = Some({bool(b_impl)}) but matches_test = {bool(t_impl)}")
    want = None
    if toks:
        want = pc_eval(toks, [leaf_truth(i, q, world) for i in range(5)])
    elif tree:
        def tup(x):
            return tuple(tup(y) for y in x) if isinstance(x, list) else x
        tree = tup(tree)
        dtree = tup(dtree) if dtree else None
        trees = [tree] + ([dtree] if dtree else [])
        ms = [m for t in trees for m in F.matchers_of(t)]
        inputs = sorted({q[k] for k in ("binary_id", "binary_name", "kind", "test")} | set(world["names"]))
        gv, gm, ri, rm = F.impl_oracle(binary, [m[3] for m in ms if m[1] == 2], [m[3] for m in ms if m[1] == 3], inputs)
        tabs = dict(gv=gv, ri=ri, glob=gm, regex=rm, inputs=inputs)
        dfn = (lambda qq: F.member(dtree, qq, tabs, world, lambda _: True)) if dtree else (lambda qq: True)
        want = F.member(tree, q, tabs, world, dfn)
    if want is not None and bool(t_impl) != want:
        fails.append(f"matches_test = {bool(t_impl)}, the set semantics says {want}")
    for f in fails:
        print("FAILS:", f)
    if not fails:
        print("oracle: accepts")
    return 1 if fails else 0
