"""C17 -- summary counts, run statistics and the JUnit report all tell the same story.

Theorems: Properties/C17.v about Model/Junit.v (RunStats::on_test_finished / on_setup_script_finished,
ExecutionStatuses::describe, MetadataJunit::write_event, the summary line, the xml_safe / XmlString::new
text pipeline), linked to Model/Result.v and Model/Dispatcher.v by Proofs/JunitLink.v. Correspondence: real
nextest runs over the scripted puppet workspace with JUnit enabled; the event tap (hook H1) of each
run is fed to the Coq model (vm_compute) and the model's report / statistics / summary tokens / exit
code are diffed against the JUnit file (strict XML parser), the RunFinished statistics, the summary
line on stderr, the process exit status and (corr:stored-text) the text of every stored system-out of
the text-carrying runs. Oracle: the property's clauses evaluated in plain Python
on what the implementation produced, using the configuration (not the event flags) for the
stored-output clause and the scenario for the selected set."""
import copy, json, os, re, shutil, signal, stat, threading, time
import xml.etree.ElementTree as ET
from concurrent.futures import ThreadPoolExecutor
import vlib, e2e, gen_tie
from vlib import coq_str, coq_list, coq_bool

PROP = "C17"
IMPORTS = ["Base.Str", "Model.Junit"]
PRELUDE = """
Definition enc_kind (k : jkind) : N := match k with KFailure => 0 | KError => 1 end.
Definition enc_rerun (r : jrerun) : list N := [enc_kind (rr_kind r); rr_attempt r; b2n (rr_stored r)].
Definition enc_status (t : tstatus) : N :=
  match t with TSuccess _ => 0 | TNonSuccess KFailure _ => 1 | TNonSuccess KError _ => 2 end.
Definition enc_tc (tc : testcase) :=
  (tc_name tc, (tc_classname tc,
   ([enc_status (tc_status tc); tc_main_attempt tc; b2n (tc_stored tc)], map enc_rerun (tc_reruns tc)))).
Definition enc_counts (c : N * (N * N)) : list N := [fst c; fst (snd c); snd (snd c)].
Definition enc_suite (s : skey * list testcase) :=
  (skey_name (fst s), ([b2n (negb (is_test_key (fst s)))] ++ enc_counts (suite_counts (snd s)),
   map enc_tc (snd s))).
Definition enc_stats (s : stats) : list N :=
  [initial_run_count s; finished_count s; ss_initial_count s; ss_finished_count s; ss_passed s;
   ss_failed s; ss_exec_failed s; ss_timed_out s; passed s; passed_slow s; flaky s; failed s;
   failed_slow s; timed_out s; leaky s; exec_failed s; skipped s].
Definition obs (n : N) (l : list sevent) :=
  let evs := map fst l in
  let s := run_stats n evs in
  let rep := junit_report evs in
  ([match rep with None => 1 | Some _ => 0 end; b2n (attached (initial_stats n) l);
    b2n (forallb wf_event evs); exit_code (summarize_final s)]
     ++ enc_counts (match rep with None => (0, (0, 0)) | Some r => report_counts r end),
   (match rep with None => [] | Some r => map enc_suite r end,
    (enc_stats s, summary_counts s))).
"""
STAT_KEYS = ["initial_run_count", "finished_count", "setup_scripts_initial_count",
             "setup_scripts_finished_count", "setup_scripts_passed", "setup_scripts_failed",
             "setup_scripts_exec_failed", "setup_scripts_timed_out", "passed", "passed_slow", "flaky",
             "failed", "failed_slow", "timed_out", "leaky", "exec_failed", "skipped"]
BINS = ["alpha::t1", "alpha::t2", "beta::t1", "beta::t2"]
MARK = re.compile(r"C17-MARK (\S+) attempt=(\d+)")
NONCHARS = ("￾", "￿")

# ------------------------------------------------------------------------------ hostile payloads
HOSTILE = [
    ("cdata-end", "x ]]> y <![CDATA[ z ]]>"),
    ("markup", "<a href=\"q\">&amp; &lt; &#0; &#x1; <!-- c --> <?pi ?> </testcase></testsuites>"),
    ("c0-controls", "".join(chr(c) for c in range(0, 32))),
    ("del-c1", "\x7f\u0080\u0085\u009f"),
    ("ansi", "\x1b[31mred\x1b[0m \x1b]0;title\x07 \x1b[2K\x1b[1A end"),
    ("esc-incomplete", "tail \x1b"),
    ("esc-bracket", "tail \x1b["),
    ("bom-specials", "﻿�￼  ﷐"),
    ("astral", "\U0001F600 \U0010FFFD \U0001FFFE"),
    ("crlf", "a\r\nb\rc\n\r"),
    ("quotes", "\"double\" 'single' `tick` = \\ %"),
    ("panic-msg", "thread 'main' panicked at src/lib.rs:1:1:\nassertion failed: \"<&>\" ]]> \x01\x1b[1m'q'\n"),
    ("long-line", "L" * 70000),
]
HOSTILE_BYTES = [
    ("invalid-utf8-ff", "ff fe 41"),
    ("overlong", "c0 80 e0 80 80 41"),
    ("truncated", "41 e2 82"),
    ("surrogate", "ed a0 80 ed bf bf 41"),
    ("beyond-max", "f4 90 80 80 f8 88 80 80 80 41"),
    ("panic-invalid", "74 68 72 65 61 64 20 27 6d 27 20 70 61 6e 69 63 6b 65 64 20 61 74 20 ff 3c 26 0a"),
]
# former finding F13 (fixed by a19c0df, xml_safe): the two BMP non-characters survive quick-junit's
# XmlString::new; kept as a regression scenario -- an ill-formed file is a plain violation again
HOSTILE_KNOWN = [("nonchar-ffff", "￿"), ("nonchar-fffe", "mid￾dle"),
                 ("nonchar-panic", "thread 'main' panicked at a.rs:1:1:\nboom ￿\n")]


def hexs(s):
    return s.encode("utf-8", "surrogatepass").hex()


# ------------------------------------------------------------------------------ scenario generator

def mk_attempt(test, k, kind, r, extra_text=None, extra_hex=None, quiet=False):
    """behaviour of attempt k (1-based) of a test; every attempt announces itself on stdout"""
    beh = {}
    head = f"C17-MARK {test} attempt={k}\n"
    if extra_hex is not None:
        beh["stdout"] = {"hex": head.encode().hex() + extra_hex.replace(" ", "")}
    else:
        beh["stdout"] = {"hex": hexs(head + (extra_text or ""))}
    if not quiet and r.random() < 0.3:
        beh["stderr"] = {"text": f"err of {test} attempt={k}\n"}
    if kind == "pass":
        beh["exit"] = 0
    elif kind == "fail":
        beh["exit"] = r.choice([1, 2, 3, 101, 255])
    elif kind == "signal":
        beh["signal"] = r.choice([6, 9, 11, 15])
    elif kind == "leak":
        beh["exit"] = 0
        beh["child"] = {"for": 0.9, "on_term": "exit"}
    elif kind == "leakfail":
        beh["exit"] = 1
        beh["child"] = {"for": 0.9, "on_term": "exit"}
    elif kind == "slow":
        beh["exit"] = 0
        beh["sleep"] = 0.8
    elif kind == "slowfail":
        beh["exit"] = 1
        beh["sleep"] = 0.8
    elif kind == "timeout":
        beh["sleep"] = 30
        beh["on_term"] = r.choice(["die", "exit", "ignore"])
    return beh


KINDS = ["pass", "pass", "pass", "fail", "fail", "signal", "flaky", "flaky", "leak", "slow", "timeout",
         "leakfail", "slowfail", "ignored", "flakyleak", "flakyslow"]


def plan_attempts(kind, retries, r):
    """list of per-attempt kinds the puppet will play (the run may use fewer)"""
    total = retries + 1
    if kind == "flaky":
        k = r.randint(1, 2)
        return [r.choice(["fail", "signal"]) for _ in range(k)] + ["pass"]
    if kind == "flakyleak":
        return ["fail", "leak"]
    if kind == "flakyslow":
        return [r.choice(["fail", "timeout"]), "slow"]
    if kind in ("fail", "signal"):
        return [r.choice(["fail", "signal", kind]) for _ in range(total)]
    return [kind] * total


def gen_scenario(r, idx, family="mixed", force_signal=False):
    retries = r.choice([0, 0, 1, 2])
    ss, sf = r.choice([(True, True), (True, False), (False, True), (False, False)])
    fail_fast = r.random() < 0.3
    nbins = r.choice([1, 2, 2, 3, 4])
    bins = r.sample(BINS, nbins)
    ntests = r.randint(1, 10)
    tests, bin_tests = [], {b: {} for b in bins}
    overrides = []
    for i in range(ntests):
        b = r.choice(bins)
        name = f"t{i:02d}_{r.choice(['a', 'mod::x', 'Z'])}"
        kind = r.choice(KINDS)
        if family == "hostile":
            kind = r.choice(["pass", "fail", "flaky", "fail"])
        t = {"bin": b, "name": name, "kind": kind, "ss": ss, "sf": sf}
        if kind == "ignored":
            bin_tests[b][name] = {"ignored": True, "attempts": [{}]}
            t["selected"] = False
        else:
            plan = plan_attempts(kind, retries, r)
            atts = []
            for k, ak in enumerate(plan, 1):
                text = hexp = None
                if family == "hostile":
                    pick = r.choice(HOSTILE + HOSTILE_BYTES)
                    t.setdefault("payloads", []).append(pick[0])
                    if pick in HOSTILE_BYTES:
                        hexp = pick[1]
                    else:
                        text = pick[1]
                atts.append(mk_attempt(name, k, ak, r, text, hexp))
            bin_tests[b][name] = {"attempts": atts}
            t["selected"] = True
            t["plan"] = plan
            # per-test override of the junit store flags (C06's mechanism; here only as a source of
            # per-test variety in the flags the events carry)
            if r.random() < 0.15:
                t["ss"], t["sf"] = r.choice([(True, True), (True, False), (False, True), (False, False)])
                overrides.append((name, t["ss"], t["sf"]))
        tests.append(t)
    scripts = []
    if family != "hostile" and r.random() < 0.35:
        for j in range(r.choice([1, 1, 2])):
            sk = r.choice(["pass", "pass", "pass", "fail", "execfail", "timeout", "leaky"])
            sss, ssf = r.choice([(True, True), (True, False), (False, True), (False, False), (None, None)])
            scripts.append({"id": f"s{j}_{idx}", "kind": sk, "ss": sss, "sf": ssf,
                            "capture": r.random() < 0.5})
    sc = dict(idx=idx, family=family, retries=retries, ss=ss, sf=sf, fail_fast=fail_fast,
              tests=tests, bin_tests=bin_tests, overrides=overrides, scripts=scripts,
              threads=r.choice([1, 2, 4]),
              double_spawn=not (scripts and r.random() < 0.5))
    if family == "mixed" and (r.random() < SIGNAL_P or force_signal):
        add_signal(sc, r)
    r3 = __import__("random").Random(idx * 7919 + ntests)
    if r3.random() < 0.3 and not any(t["kind"] == "ignored" for t in tests):
        # output configuration: one of the libtest-json message formats (combined capture). Not with ignored
        # tests: that reporter's own counter underflows on them (observation O3, outside this property)
        sc["message_format"] = r3.choice(["libtest-json", "libtest-json-plus"])
    return finish_scenario(sc)


SIGNAL_P = 0.12


def add_signal(sc, r):
    """a run cancelled by a shutdown signal sent to nextest at a random point: SIGINT or SIGTERM once, or
    twice (the second one makes nextest kill what is still running). Every attempt gets a reaction to the
    signal nextest forwards to it: exit 0 (a pass), exit 1, die of the signal, or ignore it (killed after
    the grace period); some passing attempts are lengthened so that the signal finds them running."""
    variant = r.choice(["int", "term", "term", "int", "double"])
    signo = int(signal.SIGINT if variant == "int" else signal.SIGTERM if variant == "term"
                else r.choice([signal.SIGINT, signal.SIGTERM]))
    after = r.choice(["RunStarted", "TestStarted", "TestStarted", "TestFinished"])
    sc["signal_on"] = (after, round(r.uniform(0.0, 0.35), 3), signo)
    if variant == "double":
        sc["signal_again"] = (round(r.uniform(0.01, 0.12), 3), int(r.choice([signal.SIGINT, signal.SIGTERM])))
    sc["signal_variant"] = variant
    for b in sc["bin_tests"].values():
        for t in b.values():
            for beh in t.get("attempts", []):
                if not beh:
                    continue
                react = r.choice(["exit0", "exit0", "exit1", "die", "ignore"])
                if "on_term" not in beh:
                    beh["on_term"] = {"exit0": "exit", "exit1": "exit"}.get(react, react)
                    if react == "exit0":
                        beh["term_exit"] = 0
                if beh.get("exit") == 0 and "sleep" not in beh and "child" not in beh:
                    beh["sleep"] = r.choice([0, 0.2, 0.5, 0.5, 1.0])


def toml_str(s):
    return json.dumps(s)


def finish_scenario(sc):
    """derive the nextest config text and the puppet scenario from the abstract description"""
    p = sc["profile"] = f"c17p{os.getpid()}r{sc['idx']}"
    lines = []
    if sc["scripts"]:
        lines.append('experimental = ["setup-scripts"]')
    lines += [f"[profile.{p}]", f"retries = {sc['retries']}", f"fail-fast = {coq_bool(sc['fail_fast'])}",
              'leak-timeout = "250ms"',
              'slow-timeout = { period = "300ms", terminate-after = 4, grace-period = "150ms" }',
              f"[profile.{p}.junit]", 'path = "junit.xml"',
              f"store-success-output = {coq_bool(sc['ss'])}",
              f"store-failure-output = {coq_bool(sc['sf'])}"]
    for name, ss, sf in sc["overrides"]:
        lines += [f"[[profile.{p}.overrides]]", f"filter = {toml_str('test(=' + name + ')')}",
                  f"junit.store-success-output = {coq_bool(ss)}",
                  f"junit.store-failure-output = {coq_bool(sf)}"]
    if sc["scripts"]:
        lines += [f"[[profile.{p}.scripts]]", "filter = 'all()'",
                  "setup = [" + ", ".join(toml_str(s["id"]) for s in sc["scripts"]) + "]"]
        for s in sc["scripts"]:
            cmd = {"pass": ["/bin/sh", "-c", f"echo C17-MARK {s['id']} attempt=1; exit 0"],
                   "fail": ["/bin/sh", "-c", f"echo C17-MARK {s['id']} attempt=1; echo oops >&2; exit 3"],
                   "execfail": ["/nonexistent/c17-setup-script"],
                   "timeout": ["/bin/sh", "-c", "sleep 30"],
                   # exits 0 while a background child keeps the captured pipes open: a leaky pass
                   "leaky": ["/bin/sh", "-c", f"echo C17-MARK {s['id']} attempt=1; sleep 1 & exit 0"],
                   # shuts down gracefully (status 0) when the run is cancelled by a signal
                   "graceful": ["/bin/sh", "-c", f"trap 'exit 0' TERM INT; echo C17-MARK {s['id']} attempt=1; "
                                                 "sleep 3 & wait"]}[s["kind"]]
            lines += [f"[script.{s['id']}]", "command = [" + ", ".join(toml_str(c) for c in cmd) + "]",
                      'slow-timeout = { period = "300ms", terminate-after = 2, grace-period = "100ms" }',
                      f"capture-stdout = {coq_bool(s['capture'] or s['kind'] == 'leaky')}",
                      f"capture-stderr = {coq_bool(s['capture'] or s['kind'] == 'leaky')}"]
            if s["kind"] == "leaky":
                lines += ['leak-timeout = "100ms"']
            if s["ss"] is not None:
                lines += [f"junit.store-success-output = {coq_bool(s['ss'])}",
                          f"junit.store-failure-output = {coq_bool(s['sf'])}"]
    sc["cfg"] = "\n".join(lines) + "\n"
    sc["puppet"] = {"bins": {b: {"tests": ts} for b, ts in sc["bin_tests"].items()}}
    return sc


def fixed_scenarios():
    """corner cases that are always run, the regression witness of the repaired F13 first"""
    import random
    r = random.Random(0)
    out = []
    # regression of F13 (repaired): outputs containing U+FFFF / U+FFFE, stored
    tests, bt = [], {"alpha::t1": {}}
    for i, (pname, text) in enumerate(HOSTILE_KNOWN):
        name = f"k{i}"
        kind = "fail" if i != 1 else "pass"
        bt["alpha::t1"][name] = {"attempts": [mk_attempt(name, 1, kind, r, text, quiet=True)]}
        tests.append({"bin": "alpha::t1", "name": name, "kind": kind, "ss": True, "sf": True,
                      "selected": True, "plan": [kind], "payloads": [pname]})
    out.append(dict(idx=0, family="regression-F13", retries=0, ss=True, sf=True, fail_fast=False, tests=tests,
                    bin_tests=bt, overrides=[], scripts=[], threads=2))
    # every hostile payload once, stored, as a failing and as a passing test, with one retry
    tests, bt = [], {"alpha::t2": {}, "beta::t1": {}}
    for i, pick in enumerate(HOSTILE + HOSTILE_BYTES):
        b = "alpha::t2" if i % 2 else "beta::t1"
        name = f"h{i:02d}"
        kind = ["fail", "pass", "flaky"][i % 3]
        plan = {"fail": ["fail", "fail"], "pass": ["pass"], "flaky": ["fail", "pass"]}[kind]
        kw = dict(extra_hex=pick[1]) if pick in HOSTILE_BYTES else dict(extra_text=pick[1])
        bt[b][name] = {"attempts": [mk_attempt(name, k, ak, r, quiet=True, **kw) for k, ak in enumerate(plan, 1)]}
        tests.append({"bin": b, "name": name, "kind": kind, "ss": True, "sf": True, "selected": True,
                      "plan": plan, "payloads": [pick[0]]})
    out.append(dict(idx=1, family="hostile", retries=1, ss=True, sf=True, fail_fast=False, tests=tests,
                    bin_tests=bt, overrides=[], scripts=[], threads=4))
    # empty selection; everything ignored
    out.append(dict(idx=2, family="fixed", retries=0, ss=False, sf=True, fail_fast=True,
                    tests=[{"bin": "alpha::t1", "name": "only_ignored", "kind": "ignored", "ss": False,
                            "sf": True, "selected": False}],
                    bin_tests={"alpha::t1": {"only_ignored": {"ignored": True, "attempts": [{}]}}},
                    overrides=[], scripts=[], threads=1))
    # a failing setup script: nothing runs
    bt = {"beta::t2": {"a": {"attempts": [mk_attempt("a", 1, "pass", r)]}}}
    out.append(dict(idx=3, family="fixed", retries=1, ss=True, sf=False, fail_fast=False,
                    tests=[{"bin": "beta::t2", "name": "a", "kind": "pass", "ss": True, "sf": False,
                            "selected": True, "plan": ["pass", "pass"]}], bin_tests=bt, overrides=[],
                    scripts=[{"id": "ok_3", "kind": "pass", "ss": None, "sf": None, "capture": True},
                             {"id": "leaky_3", "kind": "leaky", "ss": True, "sf": True, "capture": True},
                             {"id": "bad_3", "kind": "fail", "ss": False, "sf": True, "capture": True}],
                    threads=1))
    # fail-fast cancellation with several tests after the failing one
    bt = {"alpha::t1": {}}
    tests = []
    for i, kind in enumerate(["fail", "pass", "pass", "slow", "pass", "pass"]):
        name = f"c{i}"
        bt["alpha::t1"][name] = {"attempts": [mk_attempt(name, 1, kind, r)]}
        tests.append({"bin": "alpha::t1", "name": name, "kind": kind, "ss": True, "sf": True,
                      "selected": True, "plan": [kind]})
    out.append(dict(idx=4, family="fixed", retries=0, ss=True, sf=True, fail_fast=True, tests=tests,
                    bin_tests=bt, overrides=[], scripts=[], threads=1))
    # a re-run into a store directory that already holds a (longer) report
    bt = {"alpha::t1": {}}
    tests = []
    for i, kind in enumerate(["pass", "fail"]):
        name = f"r{i}"
        bt["alpha::t1"][name] = {"attempts": [mk_attempt(name, 1, kind, r)]}
        tests.append({"bin": "alpha::t1", "name": name, "kind": kind, "ss": True, "sf": True,
                      "selected": True, "plan": [kind]})
    out.append(dict(idx=6, family="fixed", retries=0, ss=True, sf=True, fail_fast=False, tests=tests,
                    bin_tests=bt, overrides=[], scripts=[], threads=1, prefill_junit=True))
    # a shutdown signal while the (only) setup script runs; the script exits 0: the run is cancelled
    # before any test finished -- "0/3 tests run" in the summary, exit status 100, no testcase but the script's
    bt = {"alpha::t1": {}}
    tests = []
    for i in range(3):
        name = f"g{i}"
        bt["alpha::t1"][name] = {"attempts": [mk_attempt(name, 1, "pass", r)]}
        tests.append({"bin": "alpha::t1", "name": name, "kind": "pass", "ss": True, "sf": True,
                      "selected": True, "plan": ["pass"]})
    out.append(dict(idx=5, family="fixed", retries=0, ss=True, sf=True, fail_fast=False, tests=tests,
                    bin_tests=bt, overrides=[],
                    scripts=[{"id": "grace_5", "kind": "graceful", "ss": True, "sf": True, "capture": True}],
                    threads=2, signal_on=("SetupScriptStarted", 0.4, int(signal.SIGTERM))))
    # two shutdown signals: the second one arrives while a test that ignores the first is still running and
    # after other tests have already finished -- every finished test still has its one testcase in the final report
    bt = {"alpha::t1": {}, "beta::t1": {}}
    tests = []
    for i in range(3):
        name = f"d{i}_quick"
        bt["alpha::t1"][name] = {"attempts": [mk_attempt(name, 1, "pass", r, quiet=True)]}
        tests.append({"bin": "alpha::t1", "name": name, "kind": "pass", "ss": True, "sf": True,
                      "selected": True, "plan": ["pass"]})
    stub = mk_attempt("d9_stubborn", 1, "timeout", r, quiet=True)
    stub.update(sleep=30, on_term="ignore")
    bt["beta::t1"]["d9_stubborn"] = {"attempts": [stub]}
    tests.append({"bin": "beta::t1", "name": "d9_stubborn", "kind": "timeout", "ss": True, "sf": True,
                  "selected": True, "plan": ["timeout"]})
    for k, (s1, s2) in enumerate(((signal.SIGINT, signal.SIGINT), (signal.SIGTERM, signal.SIGINT))):
        out.append(dict(idx=20 + k, family="fixed", retries=0, ss=True, sf=True, fail_fast=False,
                        tests=copy.deepcopy(tests), bin_tests=copy.deepcopy(bt), overrides=[], scripts=[], threads=4,
                        signal_on=("TestFinished", 0.25, int(s1)), signal_again=(0.04, int(s2)),
                        signal_variant="double"))
    # the same two text-carrying scenarios under combined capture (a libtest-json message format)
    import copy as _copy
    for k, fmt in ((0, "libtest-json"), (1, "libtest-json-plus")):
        tw = _copy.deepcopy(out[k])
        tw.update(idx=10 + k, message_format=fmt)
        out.append(tw)
    return [finish_scenario(s) for s in out]


def sabotage_scenario(r, idx, double_spawn):
    """a binary that becomes unexecutable after listing: exec-fail (or FAIL through the double-spawn
    launcher). Serial run; the first test gives the driver time to remove the x bits."""
    retries = r.choice([0, 1])
    ss, sf = r.choice([(True, True), (False, True), (True, False)])
    bt = {"alpha::t1": {"a0_first": {"attempts": [dict(mk_attempt("a0_first", k, "pass", r), sleep=0.6)
                                                  for k in (1, 2)]}},
          "beta::t2": {}}
    tests = [{"bin": "alpha::t1", "name": "a0_first", "kind": "pass", "ss": ss, "sf": sf, "selected": True,
              "plan": ["pass"]}]
    for i in range(r.randint(1, 3)):
        name = f"x{i}"
        bt["beta::t2"][name] = {"attempts": [mk_attempt(name, k, "pass", r) for k in (1, 2)]}
        tests.append({"bin": "beta::t2", "name": name, "kind": "unspawnable", "ss": ss, "sf": sf,
                      "selected": True, "plan": ["unspawnable"] * (retries + 1)})
    sc = dict(idx=idx, family="sabotage", retries=retries, ss=ss, sf=sf, fail_fast=False, tests=tests,
              bin_tests=bt, overrides=[], scripts=[], threads=1, sabotage="beta::t2",
              double_spawn=double_spawn)
    return finish_scenario(sc)


# ------------------------------------------------------------------------------ running

def junit_path(profile):
    return os.path.join(e2e.PUPPET, "target", "nextest", profile, "junit.xml")


def run_one(rig, sc, timeout=90):
    """run nextest on the scenario; returns the raw observation"""
    use = rig
    signals, env_extra = [], {}
    sab_dir = None
    if sc.get("sabotage"):
        sab_dir = os.path.join(e2e.RUNS, f"c17-sab-{os.getpid()}-{sc['idx']}")
        shutil.rmtree(sab_dir, ignore_errors=True)
        os.makedirs(sab_dir)
        meta = json.load(open(os.path.join(rig.meta, "binaries-metadata.json")))
        ent = meta["rust-binaries"][sc["sabotage"]]
        dst = os.path.join(sab_dir, "shim")
        shutil.copy2(ent["binary-path"], dst)
        ent["binary-path"] = dst
        json.dump(meta, open(os.path.join(sab_dir, "binaries-metadata.json"), "w"))
        shutil.copy(os.path.join(rig.meta, "cargo-metadata.json"), os.path.join(sab_dir, "cargo-metadata.json"))
        use = copy.copy(rig)
        use.meta = sab_dir
        done = [False]

        def trigger(ctx):
            if not done[0] and e2e.tap_has("TestStarted")(ctx):
                os.chmod(dst, stat.S_IRUSR | stat.S_IWUSR)
                done[0] = True
            return done[0]
        signals = [(trigger, 0)]
    if sc.get("signal_on"):
        kind, delay, signo = sc["signal_on"]
        seen = [None]

        def sig_trigger(ctx):
            if seen[0] is None and e2e.tap_has(kind)(ctx):
                seen[0] = time.monotonic()
            return seen[0] is not None and time.monotonic() >= seen[0] + delay
        signals = [(sig_trigger, signo)]
        if sc.get("signal_again"):
            delay2, signo2 = sc["signal_again"]
            sent_at = [None]

            def again(ctx):
                if sent_at[0] is None:
                    sent_at[0] = time.monotonic()   # first polled right after the first signal was sent
                return time.monotonic() >= sent_at[0] + delay2
            signals.append((again, signo2))
    if not sc.get("double_spawn", True):
        # without the launcher an unspawnable test / script is an execution failure (with it: exit 70, FAIL)
        env_extra["NEXTEST_DOUBLE_SPAWN"] = "0"
    fmt_args = []
    if sc.get("message_format"):
        # a machine-readable message format: stdout and stderr of each test are captured as ONE stream
        fmt_args = ["--message-format", sc["message_format"]]
        env_extra["NEXTEST_EXPERIMENTAL_LIBTEST_JSON"] = "1"
    jp = junit_path(sc["profile"])
    if os.path.exists(jp):
        os.remove(jp)
    if sc.get("prefill_junit"):
        # an older, much longer report is already at the configured path (a re-run into the same store
        # directory): the new report must replace it completely
        os.makedirs(os.path.dirname(jp), exist_ok=True)
        old_cases = "".join(f'<testcase name="stale{i}" classname="old" time="0.1"><system-out>{"x" * 500}</system-out></testcase>'
                            for i in range(200))
        with open(jp, "w") as f:
            f.write('<?xml version="1.0" encoding="UTF-8"?>\n<testsuites name="old" tests="200" failures="0" errors="0">'
                    f'<testsuite name="old" tests="200" disabled="0" errors="0" failures="0">{old_cases}</testsuite></testsuites>\n')
    res = use.run(sc["puppet"], sc["cfg"],
                  args=["--profile", sc["profile"], "--test-threads", str(sc["threads"])] + fmt_args,
                  signals=signals, timeout=timeout, env_extra=env_extra)
    junit = None
    if os.path.exists(jp):
        junit = open(jp, "rb").read()
    shutil.rmtree(os.path.dirname(jp), ignore_errors=True)
    if sab_dir:
        shutil.rmtree(sab_dir, ignore_errors=True)
    out = dict(rc=res["rc"], stderr=res["stderr"], tap=res["tap"], junit=junit, timed_out=res["timed_out"],
               sent=[(round(t - res["t0"], 3), sg) for t, sg in res["sent"]], wall=round(res["wall"], 3))
    rig.cleanup(res)
    return out


def run_all(rig, scs, par=4):
    with ThreadPoolExecutor(max_workers=par) as ex:
        return list(ex.map(lambda sc: run_one(rig, sc), scs))


# ------------------------------------------------------------------------------ observation: XML

RERUN_TAGS = {"flakyFailure": ("flaky", "failure"), "flakyError": ("flaky", "error"),
              "rerunFailure": ("rerun", "failure"), "rerunError": ("rerun", "error")}


def stored_of(elem, combined=False):
    """(stored?, mixed?, attempt marker) from the system-out / system-err children of an element.
    combined: the run captured stdout and stderr as one stream (the libtest-json message formats); a stored
    output is then one system-out element"""
    so, se = elem.find("system-out"), elem.find("system-err")
    if combined:
        marker = None
        if so is not None and so.text:
            m = MARK.search(so.text)
            if m:
                marker = (m.group(1), int(m.group(2)))
        return so is not None, False, marker
    marker = None
    if so is not None and so.text:
        m = MARK.search(so.text)
        if m:
            marker = (m.group(1), int(m.group(2)))
    return (so is not None and se is not None), ((so is None) != (se is None)), marker


def parse_junit(data, combined=False):
    """strict parse (expat). Returns (report | None, error text | None)"""
    try:
        root = ET.fromstring(data)
    except ET.ParseError as ex:
        return None, str(ex)
    if root.tag != "testsuites":
        return None, f"root element is {root.tag}"
    suites = []
    for s in root:
        if s.tag != "testsuite":
            return None, f"unexpected child {s.tag} of testsuites"
        cases = []
        for c in s:
            if c.tag in ("properties", "system-out", "system-err"):
                continue
            if c.tag != "testcase":
                return None, f"unexpected child {c.tag} of testsuite"
            status, reruns, nstatus = "success", [], 0
            for ch in c:
                if ch.tag in ("failure", "error"):
                    status, nstatus = ch.tag, nstatus + 1
                elif ch.tag in RERUN_TAGS:
                    st, mixed, marker = stored_of(ch, combined and not (s.get("name") or "").startswith("@setup-script:"))
                    rso = ch.find("system-out")
                    reruns.append(dict(family=RERUN_TAGS[ch.tag][0], kind=RERUN_TAGS[ch.tag][1], stored=st,
                                       mixed=mixed, marker=marker,
                                       out=(rso.text or "") if rso is not None else None))
                elif ch.tag not in ("system-out", "system-err", "properties", "skipped"):
                    return None, f"unexpected child {ch.tag} of testcase"
                if ch.tag == "skipped":
                    status = "skipped"
            st, mixed, marker = stored_of(c, combined and not (s.get("name") or "").startswith("@setup-script:"))
            so = c.find("system-out")
            cases.append(dict(name=c.get("name"), classname=c.get("classname"), status=status,
                              nstatus=nstatus, reruns=reruns, stored=st, mixed=mixed, marker=marker,
                              out=(so.text or "") if so is not None else None))
        suites.append(dict(name=s.get("name"), attrs=[int(s.get(k, "-1")) for k in ("tests", "failures", "errors")],
                           cases=cases))
    return dict(attrs=[int(root.get(k, "-1")) for k in ("tests", "failures", "errors")], suites=suites), None


SUMMARY = re.compile(r"^\s*Summary \[\s*[\d.]+s\] (\d+)(?:/(\d+))? tests? run: (\d+) passed(?: \(([^)]*)\))?, (.*)$",
                     re.M)


def parse_summary(stderr):
    """the summary line as (tag, number) tokens in display order (same coding as summary_counts)"""
    ms = SUMMARY.findall(stderr)
    if len(ms) != 1:
        return None
    fin, init, passed, paren, tail = ms[0]
    toks = [[0, int(fin)]]
    if init:
        toks.append([1, int(init)])
    toks.append([2, int(passed)])
    for part in [x.strip() for x in paren.split(",")] if paren else []:
        m = re.fullmatch(r"(\d+) (slow|flaky|leaky)", part)
        if not m:
            return None
        toks.append([{"slow": 3, "flaky": 4, "leaky": 5}[m.group(2)], int(m.group(1))])
    for part in [x.strip() for x in tail.split(",")]:
        m = re.fullmatch(r"(\d+) (failed|exec failed|timed out|skipped)", part)
        if not m:
            return None
        toks.append([{"failed": 6, "exec failed": 7, "timed out": 8, "skipped": 9}[m.group(2)], int(m.group(1))])
    return toks


# ------------------------------------------------------------------------------ model side

def coq_result(res):
    k = res["kind"]
    if k == "pass":
        return "JPass"
    if k == "leak":
        return "JLeak"
    if k == "fail":
        return f"(JFail {coq_bool(res.get('signal') is not None)} {coq_bool(bool(res.get('leaked')))})"
    if k == "exec-fail":
        return "JExecFail"
    if k == "timeout":
        return "JTimeout"
    raise ValueError("unknown result kind " + repr(res))


def coq_stats(s):
    return "(mk_stats " + " ".join(str(s[k]) for k in STAT_KEYS) + ")"


def script_flags(sc, sid, ev):
    """store flags of a setup script event: from the tap when the hook reports them, else from the
    configuration (scripts default to true / true)"""
    if "junit_store_success_output" in ev:
        return ev["junit_store_success_output"], ev["junit_store_failure_output"]
    for s in sc["scripts"]:
        if s["id"] == sid:
            return (True, True) if s["ss"] is None else (s["ss"], s["sf"])
    return True, True


def coq_events(sc, tap):
    """the tap as a list of sevent (events with the snapshots they carry) and the selected count"""
    n, items = 0, []
    for ev in tap:
        k = ev.get("kind")
        if k == "RunStarted":
            n = ev["run_count"]
        elif k == "TestFinished":
            atts = [f"(mk_att {coq_result(s['result'])} {coq_bool(s['is_slow'])})" for s in ev["statuses"]]
            items.append(f"(JTestFinished {coq_str(ev['test'][0])} {coq_str(ev['test'][1])} {atts[0]} "
                         f"{coq_list(atts[1:])} {coq_bool(ev['junit_store_success_output'])} "
                         f"{coq_bool(ev['junit_store_failure_output'])}, Some {coq_stats(ev['stats'])})")
        elif k == "SetupScriptFinished":
            ss, sf = script_flags(sc, ev["script"], ev)
            items.append(f"(JScriptFinished {coq_str(ev['script'])} {coq_result(ev['status']['result'])} "
                         f"{coq_bool(ss)} {coq_bool(sf)}, @None stats)")
        elif k == "TestSkipped":
            items.append("(JTestSkipped, @None stats)")
        elif k in ("TestStarted", "RunFinished"):
            items.append(f"(JOther, Some {coq_stats(ev['stats'])})")
    return n, "[" + "; ".join(items) + "]"


def decode_model(v):
    head, (suites, (stats, toks)) = v[0], v[1]
    out = dict(panic=bool(head[0]), attached=bool(head[1]), wf=bool(head[2]), exit=head[3], attrs=head[4:7],
               stats=stats, summary=[list(t) for t in toks], suites=[])
    for name, (sattrs, cases) in suites:
        cs = []
        for tname, (cls, (st, reruns)) in cases:
            cs.append(dict(name=vlib.decode_str(tname), classname=vlib.decode_str(cls),
                           status=["success", "failure", "error"][st[0]], main=st[1], stored=bool(st[2]),
                           reruns=[dict(kind=["failure", "error"][x[0]], attempt=x[1], stored=bool(x[2]))
                                   for x in reruns]))
        out["suites"].append(dict(name=vlib.decode_str(name), script=bool(sattrs[0]), attrs=sattrs[1:4], cases=cs))
    return out


def compare(sc, o, m, rep):
    """model vs implementation; returns a list of differences (strings)"""
    diffs = []
    fin = [e for e in o["tap"] if e.get("kind") == "RunFinished"]
    if m["panic"]:
        diffs.append("model: the aggregator would panic on this stream (attempt list not produced by the retry loop)")
    if not m["wf"]:
        diffs.append("event stream violates wf_attempts (a non-final attempt is a success)")
    if not m["attached"]:
        diffs.append("a statistics snapshot carried by an event is not the running fold of the events so far")
    if fin:
        got = [fin[-1]["stats"][k] for k in STAT_KEYS]
        if got != m["stats"]:
            diffs.append(f"RunFinished statistics {dict(zip(STAT_KEYS, got))} != recomputed {dict(zip(STAT_KEYS, m['stats']))}")
    else:
        diffs.append("no RunFinished event in the tap")
    summ = parse_summary(o["stderr"])
    if summ != m["summary"]:
        diffs.append(f"summary line tokens {summ} != model summary_counts {m['summary']}")
    if o["rc"] != m["exit"]:
        diffs.append(f"exit status {o['rc']} != model exit_code {m['exit']}")
    if rep is None:
        return diffs
    if rep["attrs"] != m["attrs"]:
        diffs.append(f"testsuites tests/failures/errors {rep['attrs']} != model {m['attrs']}")
    if [s["name"] for s in rep["suites"]] != [s["name"] for s in m["suites"]]:
        diffs.append(f"suites {[s['name'] for s in rep['suites']]} != model {[s['name'] for s in m['suites']]}")
        return diffs
    for xs, ms in zip(rep["suites"], m["suites"]):
        if xs["attrs"] != ms["attrs"]:
            diffs.append(f"suite {xs['name']}: tests/failures/errors {xs['attrs']} != model {ms['attrs']}")
        if [c["name"] for c in xs["cases"]] != [c["name"] for c in ms["cases"]]:
            diffs.append(f"suite {xs['name']}: testcases {[c['name'] for c in xs['cases']]} != model "
                         f"{[c['name'] for c in ms['cases']]}")
            continue
        for xc, mc in zip(xs["cases"], ms["cases"]):
            where = f"{xs['name']} / {xc['name']}"
            if xc["classname"] != mc["classname"]:
                diffs.append(f"{where}: classname {xc['classname']!r} != model {mc['classname']!r}")
            if xc["status"] != mc["status"]:
                diffs.append(f"{where}: status {xc['status']} != model {mc['status']}")
            if xc["stored"] != mc["stored"] or xc["mixed"]:
                diffs.append(f"{where}: output stored={xc['stored']} mixed={xc['mixed']} != model {mc['stored']}")
            if xc["stored"] and xc["marker"] and not ms["script"] and xc["marker"][1] != mc["main"]:
                diffs.append(f"{where}: testcase shows the output of attempt {xc['marker'][1]}, model says {mc['main']}")
            fam = "flaky" if mc["status"] == "success" else "rerun"
            xr = [(r_["family"], r_["kind"], r_["stored"]) for r_ in xc["reruns"]]
            mr = [(fam, r_["kind"], r_["stored"]) for r_ in mc["reruns"]]
            if xr != mr:
                diffs.append(f"{where}: rerun elements {xr} != model {mr}")
            else:
                for r_, q in zip(xc["reruns"], mc["reruns"]):
                    if r_["mixed"]:
                        diffs.append(f"{where}: a rerun element has only one of system-out / system-err")
                    if r_["stored"] and r_["marker"] and r_["marker"][1] != q["attempt"]:
                        diffs.append(f"{where}: rerun shows the output of attempt {r_['marker'][1]}, model says {q['attempt']}")
    return diffs


# ------------------------------------------------------------------------------ oracle

def is_success(res):
    return res["kind"] in ("pass", "leak")


def oracle(sc, o, rep, xml_err):
    """the property's own clauses on what the implementation did. Returns a list of failing clauses."""
    bad = []
    tap = o["tap"]
    fins = [e for e in tap if e.get("kind") == "TestFinished"]
    sfins = [e for e in tap if e.get("kind") == "SetupScriptFinished"]
    runfin = [e for e in tap if e.get("kind") == "RunFinished"]
    if o["timed_out"]:
        return ["nextest did not finish within the driver's timeout"]
    if not runfin:
        return [f"no RunFinished event (exit status {o['rc']}): {o['stderr'][-400:]}"]
    st = runfin[-1]["stats"]
    selected = {(t["bin"], t["name"]) for t in sc["tests"] if t.get("selected")}
    cfg = {(t["bin"], t["name"]): (t["ss"], t["sf"]) for t in sc["tests"]}
    # --- counts
    if st["passed"] + st["failed"] + st["exec_failed"] + st["timed_out"] != st["finished_count"]:
        bad.append(f"passed+failed+exec_failed+timed_out != finished: {st}")
    if st["finished_count"] > st["initial_run_count"] or st["initial_run_count"] != len(selected):
        bad.append(f"finished {st['finished_count']} / initial {st['initial_run_count']} / selected {len(selected)}")
    for sub, sup in (("flaky", "passed"), ("leaky", "passed"), ("passed_slow", "passed"), ("failed_slow", "failed")):
        if st[sub] > st[sup]:
            bad.append(f"{sub} {st[sub]} > {sup} {st[sup]}")
    ids = [tuple(e["test"]) for e in fins]
    if len(set(ids)) != len(ids) or not set(ids) <= selected:
        bad.append(f"finished tests {ids} are not distinct selected tests {sorted(selected)}")
    # the same numbers recomputed from the per-test final results
    last = {tuple(e["test"]): e["statuses"][-1] for e in fins}
    want = dict(finished_count=len(fins),
                passed=sum(is_success(s["result"]) for s in last.values()),
                failed=sum(s["result"]["kind"] == "fail" for s in last.values()),
                exec_failed=sum(s["result"]["kind"] == "exec-fail" for s in last.values()),
                timed_out=sum(s["result"]["kind"] == "timeout" for s in last.values()),
                leaky=sum(s["result"]["kind"] == "leak" for s in last.values()),
                flaky=sum(is_success(e["statuses"][-1]["result"]) and len(e["statuses"]) > 1 for e in fins),
                passed_slow=sum(is_success(s["result"]) and s["is_slow"] for s in last.values()),
                failed_slow=sum(s["result"]["kind"] == "fail" and s["is_slow"] for s in last.values()),
                setup_scripts_finished_count=len(sfins),
                setup_scripts_passed=sum(is_success(e["status"]["result"]) for e in sfins))
    for k, v in want.items():
        if st[k] != v:
            bad.append(f"RunFinished {k} = {st[k]}, per-test results give {v}")
    summ = parse_summary(o["stderr"])
    if summ is None:
        bad.append("no (single, parsable) summary line on stderr")
    else:
        d = {t: v for t, v in summ}
        exp = {0: st["finished_count"], 2: st["passed"], 9: st["skipped"]}
        for tag, key in ((3, "passed_slow"), (4, "flaky"), (5, "leaky"), (6, "failed"), (7, "exec_failed"), (8, "timed_out")):
            if st[key] > 0:
                exp[tag] = st[key]
        if st["finished_count"] != st["initial_run_count"]:
            exp[1] = st["initial_run_count"]
        if d != exp:
            bad.append(f"summary line says {d}, statistics say {exp}")
        if d.get(2, 0) + d.get(6, 0) + d.get(7, 0) + d.get(8, 0) != d.get(0):
            bad.append(f"summary line: passed+failed+exec failed+timed out != tests run: {d}")
    failed_tests = sum(not is_success(s["result"]) for s in last.values())
    failed_scripts = sum(not is_success(e["status"]["result"]) for e in sfins)
    all_ok = failed_tests == 0 and failed_scripts == 0 and len(fins) == len(selected) and len(fins) > 0
    if (o["rc"] == 0) != all_ok:
        bad.append(f"exit status {o['rc']} but failed tests={failed_tests}, failed scripts={failed_scripts}, "
                   f"finished {len(fins)} of {len(selected)} selected")
    if failed_scripts == 0 and len(sfins) == len(sc["scripts"]) and 0 < len(selected) and len(fins) < len(selected) \
            and o["rc"] != 100:
        bad.append(f"the summary counts {len(fins)} of {len(selected)} selected tests as run (a cancelled run), no "
                   f"setup script failed, but the exit status is {o['rc']}, not 100")
    # --- the JUnit file
    if o["junit"] is None:
        bad.append("no JUnit file was written")
        return bad
    if rep is None:
        bad.append(f"JUnit file is not well-formed XML: {xml_err}")
        return bad
    got = {}
    for s in rep["suites"]:
        for c in s["cases"]:
            got.setdefault((s["name"], c["name"]), []).append(c)
    expect_keys = sorted([(e["test"][0], e["test"][1]) for e in fins] +
                         [("@setup-script:" + e["script"], e["script"]) for e in sfins])
    if sorted(k for k, v in got.items() for _ in v) != expect_keys:
        bad.append(f"testcases (suite, name) {sorted(got)} != finished tests and scripts {expect_keys}")
        return bad
    if len({s["name"] for s in rep["suites"]}) != len(rep["suites"]):
        bad.append("a testsuite name occurs twice")
    for e in fins:
        key = (e["test"][0], e["test"][1])
        c = got[key][0]
        sts = e["statuses"]
        ok = is_success(sts[-1]["result"])
        ss, sf = cfg[key]
        if (c["status"] != "success") != (not ok) or c["nstatus"] != (0 if ok else 1):
            bad.append(f"{key}: final result {sts[-1]['result']} but testcase status {c['status']}")
        if len(c["reruns"]) != len(sts) - 1:
            bad.append(f"{key}: {len(sts)} attempts but {len(c['reruns'])} rerun elements")
        if any(r_["family"] != ("flaky" if ok else "rerun") for r_ in c["reruns"]):
            bad.append(f"{key}: rerun element families {[r_['family'] for r_ in c['reruns']]} for a test that "
                       f"ultimately {'passed' if ok else 'failed'}")
        if c["stored"] != ((ss and ok) or (sf and not ok)) or c["mixed"]:
            bad.append(f"{key}: store-success-output={ss} store-failure-output={sf} success={ok} but "
                       f"output stored={c['stored']} (mixed={c['mixed']})")
        if any(r_["stored"] != sf or r_["mixed"] for r_ in c["reruns"]):
            bad.append(f"{key}: store-failure-output={sf} but rerun outputs stored {[r_['stored'] for r_ in c['reruns']]}")
        if c["classname"] != key[0]:
            bad.append(f"{key}: classname {c['classname']!r}")
    for e in sfins:
        key = ("@setup-script:" + e["script"], e["script"])
        c = got[key][0]
        ok = is_success(e["status"]["result"])
        ss, sf = script_flags(sc, e["script"], {})
        if (c["status"] != "success") != (not ok):
            bad.append(f"{key}: script result {e['status']['result']} but testcase status {c['status']}")
        if c["reruns"]:
            bad.append(f"{key}: a setup script testcase has rerun elements")
        if c["stored"] != ((ss and ok) or (sf and not ok)):
            bad.append(f"{key}: script store flags {ss}/{sf}, success={ok}, stored={c['stored']}")
    nfail = sum(c["status"] != "success" for v in got.values() for c in v)
    if nfail != failed_tests + failed_scripts:
        bad.append(f"{nfail} non-success testcases, {failed_tests} failed tests + {failed_scripts} failed scripts")
    if rep["attrs"][0] != len(expect_keys) or rep["attrs"][1] + rep["attrs"][2] != nfail:
        bad.append(f"testsuites attributes tests/failures/errors {rep['attrs']} vs {len(expect_keys)} testcases, {nfail} non-success")
    return bad


# ------------------------------------------------------------------------------ stored text

ESC = 0x1b
# characters whose UTF-8 encoding contains the byte 0x9C (it ends a DCS passthrough even inside a
# character), with a following continuation byte <= 0x9F / > 0x9F, and the C1 controls ST, CSI, DCS, OSC
TRICKY = [0x9c, 0x9b, 0x90, 0x9d, 0x80, 0x85, 0x201c, 0x1700, 0x1720, 0x1c000, 0x1c820, 0x2712f, 0xdc]
TEXT_ALPHABET = ([ESC] * 10 + [ord(c) for c in "[[]]PX^_\\01;;:<?! /mqA~hHKJ#(@`{|}"]
                 + [0x07, 0x18, 0x1a, 0x0a, 0x0a, 0x09, 0x0d, 0x00, 0x7f, 0x1f, 0x19, 0x17]
                 + TRICKY + [0xfffe, 0xffff, 0xfffd, 0xe9, 0x4e2d, 0x1f600, 0x10ffff, 0xa0, 0x9f])


# always run: one text per branch of the escape stripper that the random ones may miss
FIXED_TEXTS = ["a\x1bPq\u1720Az",                  # byte 9C of E1 9C A0 ends the DCS string: orphan A0 -> U+FFFD
               "a\x1bPq\U0001c820Bz",              # F0 9C A0 A0: two orphans -> U+FFFD U+FFFD
               "a\x1bP1;2|\u1700\x9fAz",            # E1 9C 80: orphan 80 is executed, nothing written
               "a\x1b]0;title\x07b\x1b]8;;x\x1b\\c",  # OSC ended by BEL / by ESC \
               "a\x1b[31",                          # unterminated CSI at the end of the string
               "a\x1b[3\n1;\t4mb\x1b(\nB",          # LF executed inside CSI / ESC-intermediate, TAB dropped
               "\x1bX sos \u201c \x9c \n still \x1b\\z",  # SOS/PM/APC: 9C does not end it, LF is not executed
               "\x1b\x1b\x7f[\x7f1\x7fmX",           # ESC ESC, DEL ignored inside sequences
               "x\x1b[?25l\uffff\x1b\ufffe[m\ufffey",  # non-characters inside and outside sequences
               "\x1b[1;2;3;4;5;6;7;8;9;10;11;12;13;14;15;16;17;18;19;20;21;22;23;24;25;26;27;28;29;30;31;32;33mP",
               "\x1b[<u\x1b[>1;2:3 q\x1b[=c\x1b[0 ?x",  # private markers, intermediates, CsiIgnore
               "\x1bP$q\x18after CAN \x1bP0?\x1aafter SUB \x1b_apc\x1b^pm"]


def char_filter_cases(r, thorough):
    cs = list(range(0, 0x30)) + list(range(0x7e, 0xa2)) + [0xff, 0x100, 0x7ff, 0x800, 0x2028, 0xd7ff, 0xe000,
                                                          0xfdd0, 0xfeff, 0xfffc, 0xfffd, 0xfffe, 0xffff,
                                                          0x10000, 0x1fffe, 0x1ffff, 0x10fffe, 0x10ffff]
    for _ in range(60 if thorough else 12):
        c = r.randrange(0x20, 0x110000)
        if not (0xd800 <= c <= 0xdfff):
            cs.append(c)
    # Every scalar value is compared. The only code point left out of the PER-CHARACTER comparison is ESC
    # (0x1b): it is not "a character outside an escape sequence" -- it starts one and swallows what
    # follows, so the [c:A<c>B] frame does not survive. It is covered, like every other code point, by the
    # whole-string comparison of the same outputs (check_stored_text) and by the escape-sequence texts.
    return sorted(set(cs))


def gen_text(r):
    """a short string dense in escape-sequence introducers, terminators, controls and non-characters"""
    shape = r.random()
    if shape < 0.25:      # a well-formed sequence followed by a tail
        intro = r.choice(["[", "]", "P", "X", "^", "_", "(", "#", ""])
        body = "".join(chr(r.choice(TEXT_ALPHABET)) for _ in range(r.randint(0, 6)))
        fin = r.choice(["m", "\x07", "\x1b\\", "\x9c", "“", "ᜠ", "\x18", "", "qᜀ", "qᜠ"])
        tail = "".join(chr(r.choice(TEXT_ALPHABET)) for _ in range(r.randint(0, 8)))
        return "a\x1b" + intro + body + fin + tail + "z"
    return "".join(chr(r.choice(TEXT_ALPHABET)) for _ in range(r.randint(1, 28)))


def text_filter_scenario(chars, texts):
    r_ = __import__("random").Random(1)
    bt = {"alpha::t1": {}, "beta::t1": {}}
    tests = []

    def add(b, name, text, kind):
        plan = {"pass": ["pass"], "fail": ["fail", "fail"], "flaky": ["fail", "pass"]}[kind]
        bt[b][name] = {"attempts": [mk_attempt(name, k, ak, r_, text, quiet=True) for k, ak in enumerate(plan, 1)]}
        tests.append({"bin": b, "name": name, "kind": kind, "ss": True, "sf": True, "selected": True,
                      "plan": plan, "payloads": ["text-filter"]})
    for i in range(0, len(chars), 16):
        add("alpha::t1", f"chars{i // 16:02d}", "".join(f"[{c}:A{chr(c)}B]\n" for c in chars[i:i + 16]), "pass")
    for i, t in enumerate(texts):
        add("beta::t1", f"text{i:03d}", t, ["pass", "pass", "fail", "flaky"][i % 4])
    return finish_scenario(dict(idx=9000, family="text-filter", retries=1, ss=True, sf=True, fail_fast=False,
                                tests=tests, bin_tests=bt, overrides=[], scripts=[], threads=4))


TEXT_FAMILIES = ("text-filter", "regression-F13", "hostile")
TEXT_MAX = 4000


def scripted_stdout(sc, b, name, attempt):
    """what attempt `attempt` of the test writes to stdout, as the Rust string nextest stores
    (String::from_utf8_lossy; Python's 'replace' handler substitutes the same maximal subparts)"""
    try:
        spec = sc["bin_tests"][b][name]["attempts"][attempt - 1].get("stdout") or {}
    except (KeyError, IndexError):
        return None
    data = bytes.fromhex(spec["hex"]) if "hex" in spec else spec.get("text", "").encode()
    return data.decode("utf-8", "replace")


def check_stored_text(chk, scs, reps):
    """corr:stored-text -- the text of every stored system-out (testcase and rerun elements) of the
    text-carrying scenario families is exactly Model/Junit.v's stored_text of the scripted stdout:
    whole strings, escape sequences, C0/C1 controls, U+FFFE/U+FFFF and invalid UTF-8 included"""
    items = []
    for sc, rep in zip(scs, reps):
        if rep is None or sc["family"] not in TEXT_FAMILIES:
            continue
        for s_ in rep["suites"]:
            for c in s_["cases"]:
                for el in [c] + c["reruns"]:
                    if not el.get("stored") or el.get("out") is None or not el.get("marker"):
                        continue
                    src = scripted_stdout(sc, s_["name"], c["name"], el["marker"][1])
                    if src is not None and sc.get("message_format") and \
                            sc["bin_tests"][s_["name"]][c["name"]]["attempts"][el["marker"][1] - 1].get("stderr"):
                        # combined capture: the stored text interleaves both streams; only attempts that are
                        # silent on stderr are compared character by character
                        chk.count("stored_text_skipped_combined_with_stderr")
                        continue
                    if src is None or len(src) > TEXT_MAX:
                        chk.count("stored_text_skipped_long" if src is not None else "stored_text_skipped_unknown")
                        continue
                    items.append((sc, s_["name"], c["name"], el["marker"][1], src, el["out"]))
    if not items:
        return
    want = vlib.coq_eval("c17t", IMPORTS, ["stored_text " + coq_list([str(ord(ch)) for ch in src])
                                           for (_, _, _, _, src, _) in items])
    for (sc, b, name, k, src, got), w in zip(items, want):
        chk.count("stored_text_cases")
        if sc.get("message_format"):
            chk.count("stored_text_cases_combined_capture")
        if any(ord(ch) == ESC for ch in src):
            chk.count("stored_text_with_esc")
        if any(ord(ch) in (0xfffe, 0xffff) for ch in src):
            chk.count("stored_text_with_nonchar")
        if [ord(ch) for ch in got] != list(w):
            chk.violation("broken-obligation", "corr:stored-text",
                          dict(input=dict(test=[b, name], attempt=k, stdout_codepoints=[ord(ch) for ch in src]),
                               impl=[ord(ch) for ch in got], model=list(w),
                               clause="the stored system-out text is stored_text (strip_str, XmlString filter, xml_safe) "
                                      "of the captured stdout"), no_input=True)
            return


def check_char_filter(chk, chars, rep):
    """per character outside escape sequences: the stored text keeps exactly what nextest_keeps keeps,
    and what is kept is an XML 1.0 Char"""
    chars = [c for c in chars if c != ESC]   # reason: see char_filter_cases
    keeps = vlib.coq_eval("c17c", IMPORTS, [f"(b2n (nextest_keeps {c}), b2n (xml_char {c}))" for c in chars])
    text = "".join(c["out"] or "" for s in rep["suites"] for c in s["cases"] if c["name"].startswith("chars"))
    for c, (k, valid) in zip(chars, keeps):
        chk.count("char_filter_cases")
        m = re.search(r"\[%d:A(.*?)B\]" % c, text, re.S)
        got = None if m is None else m.group(1)
        want = chr(c) if k else ""
        if got != want:
            chk.violation("counterexample" if (k and not valid) else "broken-obligation", "corr:xmlstring-filter",
                          dict(input=dict(char=c), impl=repr(got), model=dict(keeps=bool(k), xml_char=bool(valid)),
                               clause="stored output text keeps exactly the characters the repaired pipeline keeps"),
                          no_input=not (k and not valid))
            return
        if k and not valid:
            chk.violation("counterexample", "oracle:xml-char", dict(input=dict(char=c),
                          clause="a kept character is not an XML 1.0 Char"))
            return


# ------------------------------------------------------------------------------ the check

def corpus():
    p = os.path.join(vlib.VERIF, "corpus", "C17.json")
    return json.load(open(p)) if os.path.exists(p) else []


def slim(sc):
    return {k: v for k, v in sc.items() if k not in ("bin_tests",)}


def evaluate(chk, scs, obs, tag="c17"):
    """model evaluation + comparison + oracle for a batch of runs. Returns number of problems."""
    exprs = []
    for sc, o in zip(scs, obs):
        n, evs = coq_events(sc, o["tap"])
        exprs.append(f"obs {n} {evs}")
    models = [decode_model(v) for v in vlib.coq_eval(tag, IMPORTS, exprs, PRELUDE)]
    problems = 0
    reps = []
    for sc, o, m in zip(scs, obs, models):
        chk.count("e2e_runs")
        chk.count(f"family_{sc['family']}")
        chk.count("capture=" + ("combined:" + sc["message_format"] if sc.get("message_format") else "split"))
        rep = err = None
        if o["junit"] is not None:
            rep, err = parse_junit(o["junit"], bool(sc.get("message_format")))
        reps.append(rep)
        bad = oracle(sc, o, rep, err)
        diffs = compare(sc, o, m, rep)
        histogram(chk, sc, o, rep)
        if bad:
            problems += 1
            chk.violation("counterexample", "oracle:" + sc["family"],
                          dict(input=slim(sc), clause=bad, model_differences=diffs, impl=impl_digest(o, rep)))
        elif diffs:
            problems += 1
            chk.violation("broken-obligation", "corr:junit-stream",
                          dict(input=slim(sc), differences=diffs, impl=impl_digest(o, rep),
                               note="model and implementation disagree; the property oracle accepted this run"),
                          no_input=True)
    before = len(chk.violations) if hasattr(chk, "violations") else None
    check_stored_text(chk, scs, reps)
    if before is not None and len(chk.violations) > before:
        problems += 1
    return problems


def impl_digest(o, rep):
    fins = [dict(test=e["test"], results=[s["result"] for s in e["statuses"]],
                 slow=[s["is_slow"] for s in e["statuses"]]) for e in o["tap"] if e.get("kind") == "TestFinished"]
    rf = [e["stats"] for e in o["tap"] if e.get("kind") == "RunFinished"]
    summ = [l for l in o["stderr"].splitlines() if "Summary [" in l]
    return dict(rc=o["rc"], summary=summ, run_finished=rf[-1] if rf else None, finished=fins,
                signals_sent=o.get("sent"), wall=o.get("wall"),
                junit=None if rep is None else [dict(name=s["name"], attrs=s["attrs"], cases=[
                    {k: v for k, v in c.items() if k != "out"} for c in s["cases"]]) for s in rep["suites"]],
                stderr_tail=o["stderr"][-600:] if not rf else None)


def histogram(chk, sc, o, rep):
    for e in o["tap"]:
        if e.get("kind") == "TestFinished":
            sts = e["statuses"]
            last = sts[-1]["result"]["kind"]
            chk.count(f"final_{last}")
            chk.count(f"attempts_{min(len(sts), 3)}")
            if len(sts) > 1 and is_success(sts[-1]["result"]):
                chk.count("flaky_tests")
            if sts[-1]["is_slow"]:
                chk.count("slow_final_attempts")
            if sts[0]["result"]["kind"] != last and not is_success(sts[-1]["result"]):
                chk.count("first_and_last_failure_kinds_differ")
        elif e.get("kind") == "SetupScriptFinished":
            chk.count(f"script_{e['status']['result']['kind']}")
        elif e.get("kind") == "RunBeginCancel":
            chk.count(f"cancelled_{e.get('reason')}")
        elif e.get("kind") == "TestSkipped":
            chk.count("skipped_tests")
    if sc.get("signal_on") and sc["family"] == "mixed":
        chk.count(f"signal_variant_{sc['signal_variant']}")
        chk.count(f"signals_delivered_{len(o.get('sent', []))}")
        fin = sum(1 for e in o["tap"] if e.get("kind") == "TestFinished")
        sel = sum(1 for t in sc["tests"] if t.get("selected"))
        chk.count("signal_runs_all_finished" if fin == sel else "signal_runs_cut_short")
    chk.count(f"store_flags_{int(sc['ss'])}{int(sc['sf'])}")
    chk.count(f"retries_{sc['retries']}")
    chk.count(f"exit_{o['rc']}")
    if rep is not None:
        chk.count("junit_parsed")
        chk.count("testcases", sum(len(s["cases"]) for s in rep["suites"]))
        chk.count("rerun_elements", sum(len(c["reruns"]) for s in rep["suites"] for c in s["cases"]))


def nontrivial_key(sc, o):
    fins = [e for e in o["tap"] if e.get("kind") == "TestFinished"]
    if len(fins) < 2 or all(e["statuses"][-1]["result"]["kind"] == "pass" and len(e["statuses"]) == 1 for e in fins):
        return None
    return json.dumps([sorted((e["test"], [s["result"]["kind"] for s in e["statuses"]]) for e in fins),
                       sc["ss"], sc["sf"], sc["retries"], sc["fail_fast"], [s["kind"] for s in sc["scripts"]]])


def run(tier, seed):
    chk = vlib.Check(PROP, tier, seed)
    gate = vlib.coq_gate(PROP)
    vlib.gate_or_violation(chk, gate)
    # DESIGN 11.7: these decision functions are regenerated from the Rust source and proved equal to the
    # model's for all inputs; a failure is reported when the check finishes unless a stage below finds a
    # concrete failing input
    gen_tie.gate(chk, ['junit_on_test_finished', 'junit_describe', 'junit_summarize_final', 'junit_on_setup_script_finished', 'junit_is_success'], gate)
    # glue code (DESIGN 11.7, third round): the TestFinished and SetupScriptFinished arms of MetadataJunit::write_event
    gen_tie.gate(chk, ['junit_test_case', 'junit_script_case'], gate, family="glue")
    checker = "make -C coq Properties/C17.vo && coqc gen/assump_C17.v (Print Assumptions)"
    try:
        rig = e2e.Rig()
    except RuntimeError as ex:
        chk.violation("broken-obligation", "e2e-build", dict(error=str(ex)[-3000:]), no_input=True)
        return chk.finish(gate, checker, [])
    r = vlib.rng_for(seed, PROP)
    thorough = tier == "thorough"
    scs = fixed_scenarios()
    for c in corpus():
        c = dict(c, idx=100 + len(scs))
        scs.append(finish_scenario(c))
    idx = 1000
    for k in range(4 if thorough else 2):
        scs.append(sabotage_scenario(r, idx, double_spawn=bool(k % 2)))
        idx += 1
    n_mixed, n_hostile = (480, 80) if thorough else (30, 6)
    for _ in range(n_mixed):
        scs.append(gen_scenario(r, idx, "mixed"))
        idx += 1
    for _ in range(8 if thorough else 2):     # at least this many cancelled-by-signal runs whatever the seed
        scs.append(gen_scenario(r, idx, "mixed", force_signal=True))
        idx += 1
    for _ in range(n_hostile):
        scs.append(gen_scenario(r, idx, "hostile"))
        idx += 1
    chars = char_filter_cases(r, thorough)
    texts = FIXED_TEXTS + [gen_text(r) for _ in range(160 if thorough else 24)]
    cf = text_filter_scenario(chars, texts)
    scs.append(cf)
    obs = run_all(rig, scs)
    evaluate(chk, scs, obs)
    # the character filter of stored text against the model of XmlString::new
    o = obs[-1]
    rep, err = parse_junit(o["junit"]) if o["junit"] else (None, "no file")
    if rep is None:
        chk.violation("counterexample", "oracle:char-filter",
                      dict(input=slim(cf), clause=f"JUnit file is not well-formed XML: {err}"))
    else:
        check_char_filter(chk, chars, rep)
    distinct = {k for k in (nontrivial_key(sc, o) for sc, o in zip(scs, obs)) if k}
    for sc, o in list(zip(scs, obs))[5:8]:
        chk.sample(dict(scenario=dict(tests=[(t["bin"], t["name"], t["kind"]) for t in sc["tests"]],
                                      retries=sc["retries"], store=(sc["ss"], sc["sf"]), fail_fast=sc["fail_fast"],
                                      scripts=[(s["id"], s["kind"]) for s in sc["scripts"]]),
                        summary=[l.strip() for l in o["stderr"].splitlines() if "Summary [" in l], rc=o["rc"]))
    chk.assumptions = [
        "the model consumes the emitted event stream (hook H1 tap); that the dispatcher attaches its running statistics to "
        "the events is proved of the dispatcher model (C17_dispatcher_stream_attached) and checked on every tap (attached)",
        "finished <= selected is proved from 'a selected test finishes at most once' (C02), validated on every tap",
        "XML serialisation (quick-xml escaping, attribute quoting) is not modelled beyond the text pipeline xml_safe / "
        "XmlString::new (stored_text); well-formedness of the file is observed with expat on every produced file",
        "the stored-text theorem is over Rust strings (scalar values); lossy UTF-8 decoding of captured bytes is C16's",
        "setup-script store flags are read from the configuration when the tap does not report them",
    ]
    return chk.finish(
        gate, checker,
        ["Coq 8.16.1 kernel + vm_compute", "hand-written model Model/Junit.v tied by corr:junit-stream (event tap H1 "
         "-> model -> JUnit file, RunFinished statistics, summary line, exit status), corr:stored-text (whole stored "
         "strings vs stored_text) and corr:xmlstring-filter (per character)",
         "lib/e2e.py, e2e/puppet.py (scripted test processes), Python's expat as the XML well-formedness judge",
         "generators / parsers / oracle in props/C17.py"],
        dict(evaluations=chk.counts.get("e2e_runs", 0), distinct_nontrivial=len(distinct),
             rule="one evaluation = one real nextest run (1-10 scripted tests over 1-4 binaries, retries 0-2, four "
                  "store-flag combinations, fail-fast on/off, optional setup scripts, hostile outputs, ~12% of the mixed runs "
                  "cancelled by SIGINT/SIGTERM once or twice at a random point) whose event tap "
                  "is replayed through the Coq model; non-trivial = at least two finished tests and not all of them "
                  "plain single-attempt passes; distinct by (per-test attempt result kinds, store flags, retries, "
                  "fail-fast, script kinds)",
             traces_validated_against_impl=chk.counts.get("e2e_runs", 0)))


def replay(path, seed):
    d = json.load(open(path))
    print(json.dumps(d, indent=1)[:5000])
    sc = d.get("input")
    if not isinstance(sc, dict) or "tests" not in sc:
        return 0
    rig = e2e.Rig()
    sc = dict(sc)
    sc["bin_tests"] = {b: v["tests"] for b, v in sc["puppet"]["bins"].items()}
    sc = finish_scenario(sc)
    chk = vlib.Check(PROP, "quick", seed)
    o = run_one(rig, sc)
    n = evaluate(chk, [sc], [o], tag="c17r")
    print("replay:", "property violated / correspondence broken" if n else "accepted")
    return 1 if n else 0
