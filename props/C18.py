"""C18 — setup scripts: theorems (Properties/C18.v) + correspondence of the scripts model with nextest
(SetupScripts::new_with_queries, SetupScript::is_enabled, SetupScriptExecuteData::apply and
parse_env_file through hook H6; RunStats::summarize_final through the public API) + an independent
oracle (plain Python) for the documented rule, evaluated on the implementation's own answers."""
import json, os
import vlib, gen_tie
from vlib import coq_str, coq_list, coq_bool, decode_str

PROP = "C18"
IMPORTS = ["Base.Str", "Model.Scripts"]
PRELUDE = """
From Coq Require Import ZArith.
Definition tbl (l : list bool) : tquery -> bool := fun t => nth (N.to_nat (q_id t)) l false.
Definition b2n (b : bool) : N := if b then 1 else 0.
Definition case_scripts (defs : list sid) (rules : list rule) (queries sel : list tquery)
           (envs : list (sid * envmap)) :=
  let en := enabled defs rules sel in
  let data := flat_map (fun ss => match find (fun e => fst e =? ss_id ss) envs with
                                  | Some e => [(ss, snd e)] | None => [] end) en in
  (map ss_id en,
   map (fun ss => map (fun t => b2n (ss_is_enabled ss t)) queries) en,
   map (fun t => apply_env data t []) queries).
Definition case_parse (c : str) : (N * envmap) :=
  match parse_env_file c with Some m => (1, m) | None => (0, []) end.
Definition res_code (r : exec_result) : N :=
  match r with RPass => 0 | RLeak => 1 | RFail => 2 | RExecFail => 3 | RTimeout => 4 end.
Definition ev_code (e : event) : (N * (N * N)) :=
  match e with
  | EvScriptStarted s => (0, (s, 0))
  | EvScriptFinished s r => (1, (s, res_code r))
  | EvTestStarted t _ => (2, (q_id t, 0))
  end.
Definition case_run (defs : list sid) (rules : list rule) (tests : list tquery)
           (outs : list outcome) :=
  let res := run mini_disp (mkmini false 0) defs rules tests
                 (fun s => nth (N.to_nat s) outs (mkout RExecFail None)) tests in
  (map ev_code (snd res),
   (flat_map (fun e => match e with EvTestStarted _ env => [env] | _ => [] end) (snd res),
    Z.to_N (d_exit mini_disp (fst res)))).
Definition case_finish (r : exec_result) (file : option str) : (N * (N * envmap)) :=
  match finish_script (mkout r file) with
  | (r', Some m) => (res_code r', (1, m))
  | (r', None) => (res_code r', (0, []))
  end.
"""

# ------------------------------------------------------------------------------------ fixture
HOSTS = ["x86_64-unknown-linux-gnu", "x86_64-pc-windows-msvc"]
TARGETS = [None, None, "aarch64-apple-darwin", "x86_64-pc-windows-msvc", "x86_64-unknown-linux-gnu"]
DEPS = {"a": [], "b": ["a"], "c": [], "d": ["b", "c"], "e": ["d"], "f": ["d"], "g": ["f"]}

QUERIES = [
    dict(pkg="a", kind="lib", binary_name="crate_a", binary_id="crate_a", platform="target", test="tests::alpha_one"),
    dict(pkg="a", kind="test", binary_name="integ", binary_id="crate_a::integ", platform="target", test="beta_two"),
    dict(pkg="b", kind="lib", binary_name="crate_b", binary_id="crate_b", platform="target", test="alpha_three"),
    dict(pkg="d", kind="lib", binary_name="crate_d", binary_id="crate_d", platform="host", test="gamma"),
    dict(pkg="e", kind="bin", binary_name="app", binary_id="crate_e::bin/app", platform="target", test="alpha_one"),
    dict(pkg="g", kind="lib", binary_name="crate_g", binary_id="crate_g", platform="host", test="beta_two"),
    dict(pkg="c", kind="lib", binary_name="crate_c", binary_id="crate_c", platform="target", test="script1"),
    dict(pkg="f", kind="lib", binary_name="crate_f", binary_id="crate_f", platform="target", test="tests::deep::alpha"),
]


def trans_deps(p):
    out, todo = set(), [p]
    while todo:
        x = todo.pop()
        if x not in out:
            out.add(x)
            todo.extend(DEPS[x])
    return out


# filter menu: (text, python predicate on a query) -- the predicate is the documented meaning
def _pk(q):
    return "crate_" + q["pkg"]


ATOMS = [
    ("all()", lambda q: True),
    ("none()", lambda q: False),
    ("test(alpha)", lambda q: "alpha" in q["test"]),
    ("test(=beta_two)", lambda q: q["test"] == "beta_two"),
    ("test(/^tests::/)", lambda q: q["test"].startswith("tests::")),
    ("package(crate_a)", lambda q: _pk(q) == "crate_a"),
    ("package(=crate_d)", lambda q: _pk(q) == "crate_d"),
    ("package(crate_*)", lambda q: True),
    ("deps(crate_d)", lambda q: q["pkg"] in trans_deps("d")),
    ("rdeps(crate_b)", lambda q: "b" in trans_deps(q["pkg"])),
    ("kind(lib)", lambda q: q["kind"] == "lib"),
    ("kind(test)", lambda q: q["kind"] == "test"),
    # binary()/binary_id() operands are validated against the package graph at parse time
    ("binary(crate_b)", lambda q: q["binary_name"] == "crate_b"),
    ("binary_id(crate_a)", lambda q: q["binary_id"] == "crate_a"),
    ("platform(host)", lambda q: q["platform"] == "host"),
    ("platform(target)", lambda q: q["platform"] == "target"),
]


def gen_filter(r, depth=0):
    """filter AST (plain JSON): ["atom", i] | ["not", a] | ["and"|"or"|"minus", a, b]"""
    k = r.random()
    if depth >= 2 or k < 0.55:
        return ["atom", r.randrange(len(ATOMS))]
    if k < 0.7:
        return ["not", gen_filter(r, depth + 1)]
    return [r.choice(["and", "or", "minus"]), gen_filter(r, depth + 1), gen_filter(r, depth + 1)]


def flt_text(a):
    if a[0] == "atom":
        return ATOMS[a[1]][0]
    if a[0] == "not":
        return f"not ({flt_text(a[1])})"
    op = {"and": "&", "or": "|", "minus": "-"}[a[0]]
    return f"({flt_text(a[1])}) {op} ({flt_text(a[2])})"


def flt_eval(a, q):
    if a[0] == "atom":
        return ATOMS[a[1]][1](q)
    if a[0] == "not":
        return not flt_eval(a[1], q)
    x, y = flt_eval(a[1], q), flt_eval(a[2], q)
    return {"and": x and y, "or": x or y, "minus": x and not y}[a[0]]


def cfg_eval(spec, triple):
    """documented meaning of the three platform specs used here"""
    if spec is None:
        return True
    win = "windows" in triple
    if spec == "cfg(unix)":
        return not win
    if spec == "cfg(windows)":
        return win
    return spec == triple  # a triple string


SPECS = [None, "cfg(unix)", "cfg(windows)", "x86_64-unknown-linux-gnu"]
NAMES = ["alpha", "beta", "gamma", "delta"]
TOOL = "@tool:my-tool:zeta"
KEYS = ["K1", "K2", "PATH", "é", "", "A=B"]


def gen_scripts_case(r):
    nscripts = r.randint(1, 4)
    names = r.sample(NAMES, nscripts)
    tool = r.random() < 0.2
    nrules = r.choice([0, 1, 2, 2, 3, 3, 4, 5])
    profile = r.choice(["default", "default", "ci"])
    all_names = names + ([TOOL] if tool else [])
    rules = []
    for _ in range(nrules):
        host, target = r.choice(SPECS[:3] + [None, None]), r.choice(SPECS + [None, None])
        form = r.choice(["table", "string"]) if host is None and target is not None else "table"
        flt = gen_filter(r) if (r.random() < 0.8 or (host is None and target is None)) else None
        k = r.choice([1, 1, 1, 2, 2, 3])
        setup = [r.choice(all_names) for _ in range(k)]  # duplicates inside a rule are allowed
        prof = r.choice(["default", "ci"]) if profile == "ci" else r.choice(["default", "default", "ci"])
        rules.append(dict(host=host, target=target, form=form, filter=flt, setup=setup, profile=prof,
                          setup_as_string=(k == 1 and r.random() < 0.5)))
    host = r.choice(HOSTS)
    target = r.choice(TARGETS)
    nq = len(QUERIES)
    sel = [i for i in range(nq) if r.random() < r.choice([0.1, 0.3, 0.6, 0.9])]
    if r.random() < 0.3:
        sel = sel + [r.choice(sel)] if sel else sel
    r.shuffle(sel)
    env_maps = {}
    for nm in all_names:
        if r.random() < 0.75:
            env_maps[nm] = {r.choice(KEYS): r.choice(["1", "", nm, "x=y", "ü "]) for _ in range(r.randint(0, 3))}
    return dict(names=names, tool=tool, rules=rules, profile=profile, host=host, target=target,
                selected=sel, env_maps=env_maps)


def toml_str(s):
    return json.dumps(s, ensure_ascii=False)


def render_toml(sc):
    out = ['experimental = ["setup-scripts"]', ""]
    for nm in sc["names"]:
        out += [f"[script.{nm}]", f'command = "run-{nm}"', ""]
    for ru in sc["rules"]:
        out.append(f"[[profile.{ru['profile']}.scripts]]")
        if ru["form"] == "string":
            out.append(f"platform = {toml_str(ru['target'])}")
        elif ru["host"] is not None or ru["target"] is not None:
            parts = []
            if ru["host"] is not None:
                parts.append(f"host = {toml_str(ru['host'])}")
            if ru["target"] is not None:
                parts.append(f"target = {toml_str(ru['target'])}")
            out.append("platform = { " + ", ".join(parts) + " }")
        if ru["filter"] is not None:
            out.append(f"filter = {toml_str(flt_text(ru['filter']))}")
        if ru["setup_as_string"]:
            out.append(f"setup = {toml_str(ru['setup'][0])}")
        else:
            out.append("setup = [" + ", ".join(toml_str(s) for s in ru["setup"]) + "]")
        out.append("")
    if not any(ru["profile"] == "ci" for ru in sc["rules"]):
        out += ["[profile.ci]", "retries = 0", ""]
    tool = None
    if sc["tool"]:
        tool = f"[script.'{TOOL}']\ncommand = \"tool-cmd\"\n"
    return "\n".join(out), tool


def impl_case(sc):
    toml, tool = render_toml(sc)
    c = dict(op="scripts", toml=toml, profile=sc["profile"], host=sc["host"], target=sc["target"],
             queries=QUERIES, selected=sc["selected"], env_maps=sc["env_maps"])
    if tool:
        c["tool_toml"] = tool
    return c


def def_order(sc):
    """documented definition order: tool-config scripts first, then the repository config's, each
    in file order"""
    return ([TOOL] if sc["tool"] else []) + sc["names"]


def effective_rules(sc):
    """rules of the active profile: its own, then the default profile's"""
    if sc["profile"] == "default":
        return [ru for ru in sc["rules"] if ru["profile"] == "default"]
    return [ru for ru in sc["rules"] if ru["profile"] == "ci"] + \
           [ru for ru in sc["rules"] if ru["profile"] == "default"]


def py_rule_matches(sc, ru, q):
    if not cfg_eval(ru["host"], sc["host"]):
        return False
    triple = sc["host"] if q["platform"] == "host" else (sc["target"] or sc["host"])
    if not cfg_eval(ru["target"], triple):
        return False
    return flt_eval(ru["filter"], q) if ru["filter"] is not None else True


def oracle_scripts(sc, res):
    """independent evaluation of the documented rule on the implementation's answers; returns
    the failing clause or None"""
    rules = effective_rules(sc)
    order = def_order(sc)
    sel = [QUERIES[i] for i in sc["selected"]]

    def listed_and_matches(s, q):
        return any(s in ru["setup"] and py_rule_matches(sc, ru, q) for ru in rules)

    want = [s for s in order if any(listed_and_matches(s, q) for q in sel)]
    if res["enabled"] != want:
        return (f"enabled scripts (run order) are {res['enabled']}; the scripts, in definition order "
                f"{order}, listed by a rule matching a selected test are {want}")
    for s, row in zip(res["enabled"], res["enabled_for"]):
        for qi, q in enumerate(QUERIES):
            if bool(row[qi]) != listed_and_matches(s, q):
                return (f"script {s!r} is {'enabled' if row[qi] else 'not enabled'} for test #{qi} "
                        f"{q['binary_id']} {q['test']} ({q['platform']}), but "
                        f"{'no' if row[qi] else 'some'} rule listing it matches that test")
    for qi, q in enumerate(QUERIES):
        env = {}
        for s in want:
            if s in sc["env_maps"] and listed_and_matches(s, q):
                env.update(sc["env_maps"][s])
        got = {k: v for k, v in res["applied"][qi]}
        if got != env or len(got) != len(res["applied"][qi]):
            return (f"test #{qi} {q['binary_id']} {q['test']} receives {res['applied'][qi]} from the "
                    f"scripts; the variables of the scripts enabled for it (later scripts winning) "
                    f"are {sorted(env.items())}")
    return None


def coq_q(i):
    return f"(mkq {i} {coq_bool(QUERIES[i]['platform'] == 'host')})"


def coq_envmap(m):
    items = sorted(m.items())
    return coq_list([f"({coq_str(k)}, {coq_str(v)})" for k, v in items])


def coq_scripts_case(sc, res):
    """model expression; platform evaluations and filter truth tables are the oracle tables
    returned by the real evaluation"""
    order = def_order(sc)
    ix = {nm: i for i, nm in enumerate(order)}
    rules = []
    for ru in res["rules"]:
        flt = "None" if not ru["has_filter"] else \
            f"(Some (tbl {coq_list([coq_bool(b) for b in ru['filter_matches']])}))"
        rules.append(f"(mkrule {coq_bool(ru['host_eval'])} {coq_bool(ru['host_test_eval'])} "
                     f"{coq_bool(ru['target_eval'])} {flt} "
                     f"{coq_list([str(ix[s]) for s in ru['setup']])})")
    envs = [f"({ix[nm]}, {coq_envmap(m)})" for nm, m in sc["env_maps"].items()]
    return (f"case_scripts {coq_list([str(i) for i in range(len(order))])} {coq_list(rules)} "
            f"{coq_list([coq_q(i) for i in range(len(QUERIES))])} "
            f"{coq_list([coq_q(i) for i in sc['selected']])} {coq_list(envs)}")


def norm_impl_scripts(sc, res):
    ix = {nm: i for i, nm in enumerate(def_order(sc))}
    return [[ix.get(s, 999) for s in res["enabled"]],
            [[int(b) for b in row] for row in res["enabled_for"]],
            [[[[ord(c) for c in k], [ord(c) for c in v]] for k, v in env] for env in res["applied"]]]


# ------------------------------------------------------------------------------------ env files
GOOD_LINES = ["FOO=bar", "K=", "=v", "A=b=c", "é=ü𝄞", " SP =x y ", "nextest_lower=1", "XNEXTEST=1",
              "PATH=/a:/b", "FOO=again", "K=2", "Q==", "TAB\t=\t"]
BAD_LINES = ["NOEQ", "", "NEXTEST=1", "NEXTEST_FOO=bar", "NEXTESTING=1", "NEXTEST", " ", "\r"]


def gen_env_file(r, malformed):
    n = r.randint(0, 5)
    lines = [r.choice(GOOD_LINES) for _ in range(n)]
    if malformed:
        for _ in range(r.choice([1, 1, 2])):
            lines.insert(r.randint(0, len(lines)), r.choice(BAD_LINES))
    eol = r.choice(["\n", "\n", "\r\n", "mixed"])
    out = ""
    for i, l in enumerate(lines):
        if r.random() < 0.08:
            l = l + "\r"  # a stray CR at the end of the line's text
        term = r.choice(["\n", "\r\n"]) if eol == "mixed" else eol
        if i == len(lines) - 1 and r.random() < 0.35:
            term = ""
        out += l + term
    return out


def py_parse_env(data: bytes):
    """the documented format, written independently of the model: one KEY=VALUE per line (LF or
    CRLF line ends, a last line without line end counts), split at the first '=', keys
    beginning with NEXTEST refused, later lines override earlier ones"""
    try:
        text = data.decode("utf-8")
    except UnicodeDecodeError:
        return None
    parts = text.split("\n")
    lines = [p[:-1] if p.endswith("\r") else p for p in parts[:-1]]
    if parts[-1] != "":
        lines.append(parts[-1])
    env = {}
    for l in lines:
        if "=" not in l:
            return None
        k, v = l.split("=", 1)
        if k.startswith("NEXTEST"):
            return None
        env[k] = v
    return env


def norm_impl_env(res):
    if "ok" in res:
        return [1, [[[ord(c) for c in k], [ord(c) for c in v]] for k, v in res["ok"]]]
    return [0, []]


# a leaky pass: exit 0, a background child keeps the captured stdout open past leak-timeout; the
# run must go on and the tests matched by test(alpha) must see the variable, the others must not
LEAK_WITNESS = dict(
    names=["beta"], tool=False, profile="default", host="x86_64-unknown-linux-gnu", target=None,
    rules=[dict(host=None, target=None, form="table", filter=["atom", 2], setup=["beta"],
                profile="default", setup_as_string=False)],
    scripts=[dict(name="beta", kind="leaky", env_bytes=list(b"C18V_FOO=from-leaky\n"),
                  exit=0, sleep_ms=0, hang=False)],
    selected=[0, 1, 2, 3], env_maps={}, test_threads=2)
# a failing script under --no-fail-fast / --max-fail 2: the next script and the tests still must not start
def nff_witness(max_fail):
    return dict(
        names=["alpha", "beta"], tool=False, profile="default", host="x86_64-unknown-linux-gnu", target=None,
        rules=[dict(host=None, target=None, form="table", filter=["atom", 0], setup=["alpha", "beta"],
                    profile="default", setup_as_string=False)],
        scripts=[dict(name="alpha", kind="fail", env_bytes=list(b"C18V_FOO=a\n"), exit=3, sleep_ms=0, hang=False),
                 dict(name="beta", kind="pass_", env_bytes=list(b"C18V_K=b\n"), exit=0, sleep_ms=0, hang=False)],
        selected=[0, 1, 2, 3], env_maps={}, test_threads=2, max_fail=max_fail)


# F5 (DESIGN section 6): exit 0, one valid line and one reserved key
F5_WITNESS = dict(
    names=["alpha"], tool=False, profile="default", host="x86_64-unknown-linux-gnu", target=None,
    rules=[dict(host=None, target=None, form="table", filter=["atom", 0], setup=["alpha"],
                profile="default", setup_as_string=False)],
    scripts=[dict(name="alpha", kind="badenv", env_bytes=list(b"C18V_FOO=bar\nNEXTEST_BAD=1\n"),
                  exit=0, sleep_ms=0, hang=False)],
    selected=[0, 1, 2, 3], env_maps={}, test_threads=2)


# a script sets names nextest itself puts on test commands (package metadata): the matched tests see the
# script's values, the others nextest's
COLLIDE_WITNESS = dict(
    names=["alpha", "beta"], tool=False, profile="default", host="x86_64-unknown-linux-gnu", target=None,
    rules=[dict(host=None, target=None, form="table", filter=["atom", 2], setup=["alpha"],
                profile="default", setup_as_string=False),
           dict(host=None, target=None, form="table", filter=["atom", 0], setup=["beta"],
                profile="default", setup_as_string=False)],
    scripts=[dict(name="alpha", kind="pass_",
                  env_bytes=list(b"CARGO_PKG_DESCRIPTION=c18-alpha\nC18V_FOO=a\nCARGO_PKG_HOMEPAGE=c18-alpha\n"),
                  exit=0, sleep_ms=0, hang=False),
             dict(name="beta", kind="pass_", env_bytes=list(b"C18V_K=b\n"), exit=0, sleep_ms=0, hang=False)],
    selected=[0, 1, 2, 3], env_maps={}, test_threads=2)


def corpus():
    p = os.path.join(vlib.VERIF, "corpus", "C18.json")
    return json.load(open(p)) if os.path.exists(p) else {}



# ------------------------------------------------------------------------------------ real runs
RUN_BINARIES = [dict(pkg="a", binary_id="crate_a", tests=["alpha_one", "beta"]),
                dict(pkg="b", binary_id="crate_b", tests=["gamma", "alpha_two"])]
RUN_QUERIES = [dict(pkg=b["pkg"], kind="lib", binary_name=b["binary_id"], binary_id=b["binary_id"],
                    platform="target", test=t) for b in RUN_BINARIES for t in b["tests"]]
# identifier-shaped names only: the scripted test binaries are /bin/sh scripts, and sh does not
# pass on variables whose names are not identifiers
RUN_KEYS = ["C18V_FOO", "C18V_K", "C18V_e2"]
# names nextest itself puts on every test command (package metadata): a script may set them too -- only names
# beginning with NEXTEST are refused -- and then its value is what the matched tests see
COLLIDING_KEYS = ["CARGO_PKG_DESCRIPTION", "CARGO_PKG_HOMEPAGE"]


def script_written(sc):
    """{colliding key: set of values some script of the scenario writes for it}"""
    out = {}
    for s_ in sc["scripts"]:
        env = py_parse_env(bytes(s_["env_bytes"])) or {}
        for k in COLLIDING_KEYS:
            if k in env:
                out.setdefault(k, set()).add(env[k])
    return out


def observed_env(sc, pairs):
    """the part of a test process's environment the comparison is about: the C18V_ variables, and a colliding
    name when its value is one a script wrote (otherwise it is nextest's own value for an unmatched test)"""
    w = script_written(sc)
    return {k: v for k, v in pairs if k.startswith("C18V_") or (k in w and v in w[k])}
RUN_ATOMS = [0, 2, 5, 8, 9, 10, 15]   # all(), test(alpha), package(crate_a), deps, rdeps, kind(lib), platform(target)
RESULT_CODE = dict(pass_=0, leaky=0, fail=2, badenv=3, execfail=3, timeout=4)


def gen_run_case(r):
    n = r.randint(1, 3)
    names = r.sample(NAMES, n)
    scripts = []
    for nm in names:
        kind = r.choices(["pass_", "leaky", "fail", "badenv", "execfail", "timeout"], [58, 12, 10, 12, 5, 3])[0]
        lines = [f"{r.choice(RUN_KEYS)}={r.choice([nm, nm, nm + '=b', 'x y ' + nm, 'ü', ''])}"
                 for _ in range(r.randint(0, 3))]
        if r.random() < 0.25:
            lines.insert(r.randint(0, len(lines)), f"{r.choice(COLLIDING_KEYS)}=c18-{nm}")
        if kind == "badenv":
            lines.insert(r.randint(0, len(lines)),
                         r.choice(["NEXTEST_BAD=1", "NOEQ", "", "NEXTEST=x", "NEXTESTING=1"]))
        content = "".join(l + r.choice(["\n", "\n", "\r\n"]) for l in lines)
        if lines and r.random() < 0.2 and lines[-1] != "":
            content = content.rstrip("\r\n")
        data = content.encode()
        if kind == "badenv" and r.random() < 0.15:
            data = b"C18V_FOO=ok\n\xff\xfe=1\n"
        if kind == "badenv" and py_parse_env(data) is not None:
            kind = "pass_"
        scripts.append(dict(name=nm, kind=kind, env_bytes=list(data),
                            exit=r.randint(1, 3) if kind == "fail" else 0,
                            sleep_ms=r.choice([0, 0, 20, 40]), hang=(kind == "timeout")))
    rules = []
    for _ in range(r.randint(1, 3)):
        a = ["atom", r.choice(RUN_ATOMS)]
        flt = a if r.random() < 0.7 else ["not", a]
        plat = r.choice([None, None, None, "cfg(unix)", "cfg(windows)"])
        rules.append(dict(host=None, target=plat, form="string" if plat else "table", filter=flt,
                          setup=[r.choice(names) for _ in range(r.choice([1, 1, 2]))],
                          profile="default", setup_as_string=False))
    return dict(names=names, tool=False, rules=rules, profile="default",
                host="x86_64-unknown-linux-gnu", target=None, scripts=scripts,
                selected=list(range(len(RUN_QUERIES))), env_maps={}, test_threads=r.choice([1, 2, 4, 8]), max_fail=r.choice([None, None, 0, 2, 1]))


def render_run_toml(sc):
    toml, _ = render_toml(sc)
    for s_ in sc["scripts"]:
        nm = s_["name"]
        cmd = f'["sh", "@DIR@/script-{nm}.sh"]' if s_["kind"] != "execfail" else '["@DIR@/no-such-program"]'
        extra = '\nslow-timeout = { period = "100ms", terminate-after = 1 }' if s_["kind"] == "timeout" else ""
        if s_["kind"] == "leaky":
            extra = '\ncapture-stdout = true\nleak-timeout = "50ms"'
        toml = toml.replace(f'command = "run-{nm}"', f"command = {cmd}{extra}")
    return toml


def run_impl_case(sc):
    return dict(op="run", toml=render_run_toml(sc), profile="default",
                scripts=[dict(name=s_["name"], exit=s_["exit"], env_bytes=s_["env_bytes"],
                              sleep_ms=s_["sleep_ms"] or None, hang=s_["hang"],
                              leak=(s_["kind"] == "leaky")) for s_ in sc["scripts"]],
                binaries=RUN_BINARIES, test_threads=sc["test_threads"],
                # a failing setup script stops the run whatever the fail-fast setting (--no-fail-fast, --max-fail n)
                max_fail=sc.get("max_fail"))


def oracle_run(sc, res):
    """the property's own statement on a real run; independent of the model"""
    by_name = {s_["name"]: s_ for s_ in sc["scripts"]}
    rules = effective_rules(sc)

    def lm(s_, q):
        return any(s_ in ru["setup"] and py_rule_matches(sc, ru, q) for ru in rules)

    needed = [nm for nm in sc["names"] if any(lm(nm, q) for q in RUN_QUERIES)]
    # (1) executed scripts: the needed ones, in definition order, up to the first non-success
    expect_events, failed = [], False
    parsed = {}
    for nm in needed:
        s_ = by_name[nm]
        env = py_parse_env(bytes(s_["env_bytes"])) if s_["kind"] in ("pass_", "leaky", "badenv") else None
        # a leaky pass (exit 0, a background child keeps the captured stdout open past the leak
        # timeout) is a success like any other pass: the run goes on and its variables count
        ok = s_["kind"] in ("pass_", "leaky") and env is not None
        expect_events += [["script-started", nm], ["script-finished", nm]]
        if ok:
            parsed[nm] = env
        else:
            failed = True
            break
    got_scripts = [e[:2] for e in res["events"] if e[0].startswith("script-")]
    fin = {e[1]: e for e in res["events"] if e[0] == "script-finished"}
    tests_started = [e for e in res["events"] if e[0] == "test-started"]
    for nm, e in fin.items():
        s_ = by_name[nm]
        if s_["kind"] == "badenv" and e[2] in (0, 1):
            return (f"script {nm!r} exits 0 but writes an environment file that is rejected "
                    f"({bytes(s_['env_bytes'])!r}); it is reported as a pass, "
                    f"{len(tests_started)} tests start and the run summary is {res['summary']!r} instead "
                    f"of a setup-script failure (exit status 105)")
        want = RESULT_CODE[s_["kind"]]
        if (e[2] in (0, 1)) != (want == 0):
            return f"script {nm!r} ({s_['kind']}) is reported with result code {e[2]}"
    if got_scripts != expect_events:
        return (f"script events are {got_scripts}; the scripts needed by the selection, in definition "
                f"order up to the first failure, give {expect_events}")
    # (2) strictly one at a time, all before any test (invocation log written by the processes)
    log = res["log"]
    first_t = next((i for i, l in enumerate(log) if l.startswith("T ")), len(log))
    if any(l.startswith("S ") for l in log[first_t:]):
        return f"a setup script was still running when a test process started: log {log}"
    open_ = None
    for l in log[:first_t]:
        _, nm, what = l.split(" ")
        if what == "start":
            if open_ is not None and by_name[open_]["kind"] != "timeout":
                return f"script {nm!r} started while {open_!r} was running: log {log}"
            open_ = nm
        else:
            if open_ != nm:
                return f"script {nm!r} ended while {open_!r} was the running script: log {log}"
            open_ = None
    # (3) failure: no test at all, run reported as a setup-script failure (exit status 105)
    if failed:
        if tests_started or first_t != len(log):
            return f"a setup script failed, yet tests started: {tests_started} log {log}"
        if res["summary"] != "failed-setup-script":
            return f"a setup script failed but the run summary is {res['summary']!r} (not exit status 105)"
        return None
    if res["summary"] != "success" or len(tests_started) != len(RUN_QUERIES):
        return f"all scripts passed, yet summary {res['summary']!r}, tests started {tests_started}"
    # (4) variables reach exactly the tests matched by a rule listing the script (later wins)
    for q in RUN_QUERIES:
        env = {}
        for nm in needed:
            if lm(nm, q):
                env.update(parsed[nm])
        got = observed_env(sc, res["test_envs"].get(f"{q['binary_id']} {q['test']}", []))
        for k in COLLIDING_KEYS:
            if k in env and k not in got:
                # the matched test still sees nextest's own value for a name a script set
                got[k] = dict(res["test_envs"].get(f"{q['binary_id']} {q['test']}", [])).get(k)
        if got != env:
            leaky = [nm for nm in needed if lm(nm, q) and by_name[nm]["kind"] == "leaky"]
            hint = (f" (script(s) {leaky} exit 0 with a background child holding the captured stdout: "
                    f"reported as result code {[fin[nm][2] for nm in leaky if nm in fin]}, 1 = leak, a "
                    f"success whose variables must be applied)") if leaky else ""
            return (f"test process {q['binary_id']} {q['test']} sees {sorted(got.items())}; the scripts "
                    f"enabled for it wrote {sorted(env.items())}{hint}")
    return None


def coq_run_case(sc, tables):
    ix = {nm: i for i, nm in enumerate(sc["names"])}
    rules = []
    for ru in tables["rules"]:
        flt = "None" if not ru["has_filter"] else \
            f"(Some (tbl {coq_list([coq_bool(b) for b in ru['filter_matches']])}))"
        rules.append(f"(mkrule {coq_bool(ru['host_eval'])} {coq_bool(ru['host_test_eval'])} "
                     f"{coq_bool(ru['target_eval'])} {flt} {coq_list([str(ix[s]) for s in ru['setup']])})")
    outs = []
    for nm in sc["names"]:
        s_ = next(x for x in sc["scripts"] if x["name"] == nm)
        if s_["kind"] in ("pass_", "leaky", "badenv"):
            res0 = "RLeak" if s_["kind"] == "leaky" else "RPass"
            try:
                outs.append(f"(mkout {res0} (Some {coq_str(bytes(s_['env_bytes']).decode())}))")
            except UnicodeDecodeError:
                outs.append("(mkout RPass None)")
        else:
            outs.append("(mkout %s None)" % dict(fail="RFail", execfail="RExecFail", timeout="RTimeout")[s_["kind"]])
    tests = coq_list([f"(mkq {i} false)" for i in range(len(RUN_QUERIES))])
    return (f"case_run {coq_list([str(i) for i in range(len(sc['names']))])} {coq_list(rules)} {tests} "
            f"{coq_list(outs)}")


def check_runs(chk, binary, scenarios, tag):
    tables = vlib.run_impl(binary, "scripts", [
        dict(op="scripts", toml=render_toml(sc)[0], profile="default", host=sc["host"], target=None,
             queries=RUN_QUERIES, selected=sc["selected"], env_maps={}) for sc in scenarios])
    impl = vlib.run_impl(binary, "scripts", [run_impl_case(sc) for sc in scenarios], shards=4)
    model = vlib.coq_eval(tag, IMPORTS, [coq_run_case(sc, t) for sc, t in zip(scenarios, tables)], PRELUDE)
    oracle_fail, mismatch = None, None
    for sc, res, mo in zip(scenarios, impl, model):
        chk.count("real_run_cases")
        if "events" not in res:
            chk.violation("broken-obligation", "real-run", dict(input=sc, impl=res), no_input=True)
            return
        for s_ in sc["scripts"]:
            chk.count(f"real_run_script_{s_['kind'].rstrip('_')}")
        chk.count(f"real_run_summary={res['summary']}")
        why = oracle_run(sc, res)
        if why and oracle_fail is None:
            oracle_fail = (sc, res, why)
        # model: script events exactly; started tests as a set with their script-provided variables
        ix = {nm: i for i, nm in enumerate(sc["names"])}
        # Pass (0) and Leak (1) are both successes: whether the leak detector fires depends on
        # timing, the property does not distinguish them
        succ = lambda c: 0 if c == 1 else c
        i_scripts = [[0, [ix[e[1]], 0]] if e[0] == "script-started" else [1, [ix[e[1]], succ(e[2])]]
                     for e in res["events"] if e[0].startswith("script-")]
        for e in res["events"]:
            if e[0] == "script-finished" and e[2] == 1:
                chk.count("real_run_results_classified_leak")
        m_events = [[e[0], list(e[1])] for e in mo[0]]
        m_scripts = [[e[0], [e[1][0], succ(e[1][1]) if e[0] == 1 else e[1][1]]] for e in m_events if e[0] != 2]
        m_tests = {e[1][0]: {decode_str(k): decode_str(v) for k, v in env}
                   for e, env in zip([e for e in m_events if e[0] == 2], mo[1][0])}
        qix = {(q["binary_id"], q["test"]): i for i, q in enumerate(RUN_QUERIES)}
        i_tests = {}
        for e in res["events"]:
            if e[0] == "test-started":
                envl = res["test_envs"].get(f"{e[1]} {e[2]}", [])
                i_tests[qix[(e[1], e[2])]] = observed_env(sc, envl)
        i_exit = 105 if res["summary"] == "failed-setup-script" else 0
        if (i_scripts != m_scripts or i_tests != m_tests or i_exit != mo[1][1]) and mismatch is None:
            mismatch = (sc, res, dict(script_events=m_scripts, tests={str(k): v for k, v in m_tests.items()},
                                      exit=mo[1][1]))
    if oracle_fail:
        sc, res, why = oracle_fail
        chk.violation("counterexample", "oracle:real-run",
                      dict(input=sc, toml=render_run_toml(sc), clause=why,
                           impl=dict(events=res["events"], log=res["log"], summary=res["summary"],
                                     test_envs={k: [kv for kv in v if kv[0].startswith("C18V_")]
                                                for k, v in res["test_envs"].items()})))
    elif mismatch:
        sc, res, mo = mismatch
        chk.violation("broken-obligation", "corr:real-run",
                      dict(input=sc, toml=render_run_toml(sc), model=mo,
                           impl=dict(events=res["events"], log=res["log"], summary=res["summary"])),
                      no_input=True)
    chk.sample(dict(real_run=dict(toml=render_run_toml(scenarios[0]), scripts=[
        dict(name=s_["name"], kind=s_["kind"], env=bytes(s_["env_bytes"]).decode("utf-8", "replace"))
        for s_ in scenarios[0]["scripts"]]), events=impl[0].get("events"), log=impl[0].get("log"),
        summary=impl[0].get("summary")))


# ------------------------------------------------------------------------------------ the check
def check_scripts(chk, binary, scenarios, tag):
    impl = vlib.run_impl(binary, "scripts", [impl_case(sc) for sc in scenarios])
    ok, exprs = [], []
    distinct = set()
    for sc, res in zip(scenarios, impl):
        chk.count("scripts_cases")
        if "config_error" in res or "panic" in res or "error" in res:
            chk.violation("counterexample", "corr:scripts-config",
                          dict(input=sc, toml=render_toml(sc)[0], impl=res,
                               clause="a well-formed configuration (defined scripts, rules with a "
                                      "platform or a filter) must be accepted"))
            return distinct
        if res["defined"] != def_order(sc):
            chk.violation("counterexample", "oracle:definition-order",
                          dict(input=sc, toml=render_toml(sc)[0], impl=res["defined"],
                               documented=def_order(sc),
                               clause="scripts are ordered as defined (tool configs first, then file order)"))
            return distinct
        ok.append((sc, res))
        exprs.append(coq_scripts_case(sc, res))
    model = vlib.coq_eval(tag, IMPORTS, exprs, PRELUDE)
    mismatch, oracle_fail = None, None
    for (sc, res), mo in zip(ok, model):
        chk.count(f"scripts_profile={sc['profile']}")
        chk.count(f"scripts_rules={len(effective_rules(sc))}")
        chk.count(f"scripts_enabled={len(res['enabled'])}_of_{len(def_order(sc))}")
        chk.count(f"scripts_target={'none' if sc['target'] is None else ('windows' if 'windows' in sc['target'] else 'unix')}")
        if len(res["enabled"]) >= 1 and len(effective_rules(sc)) >= 1:
            distinct.add(json.dumps([sc["rules"], sc["names"], sc["selected"], sc["host"],
                                     sc["target"], sc["profile"]], sort_keys=True))
        why = oracle_scripts(sc, res)
        if why and oracle_fail is None:
            oracle_fail = (sc, res, why)
        mo = [list(mo[0]), [list(x) for x in mo[1]], [[[list(k), list(v)] for k, v in e] for e in mo[2]]]
        if norm_impl_scripts(sc, res) != mo and mismatch is None:
            mismatch = (sc, res, mo)
    if oracle_fail:
        sc, res, why = oracle_fail
        chk.violation("counterexample", "oracle:scripts",
                      dict(input=sc, toml=render_toml(sc)[0], clause=why,
                           impl=dict(enabled=res["enabled"], enabled_for=res["enabled_for"],
                                     applied=res["applied"])))
    elif mismatch:
        sc, res, mo = mismatch
        chk.violation("broken-obligation", "corr:scripts",
                      dict(input=sc, toml=render_toml(sc)[0],
                           impl=norm_impl_scripts(sc, res), model=mo,
                           note="implementation and model disagree; the oracle accepted every explored "
                                "scenario"), no_input=True)
    if ok:
        sc, res = ok[min(1, len(ok) - 1)]
        chk.sample(dict(scripts_case=dict(toml=render_toml(sc)[0], profile=sc["profile"], host=sc["host"],
                                          target=sc["target"], selected=sc["selected"]),
                        enabled=res["enabled"], applied=res["applied"]))
    return distinct


def check_env_files(chk, binary, files, tag):
    impl = vlib.run_impl(binary, "scripts", [dict(op="parse_env", bytes=list(b)) for b in files])
    valid = []
    for b in files:
        try:
            valid.append(b.decode("utf-8"))
        except UnicodeDecodeError:
            valid.append(None)
    exprs = [f"case_parse {coq_str(t)}" for t in valid if t is not None]
    model = iter(vlib.coq_eval(tag, IMPORTS, exprs, PRELUDE))
    for b, t, i in zip(files, valid, impl):
        chk.count("env_file_cases")
        want = py_parse_env(b)
        got = norm_impl_env(i)
        chk.count("env_file_" + ("accepted" if got[0] else "rejected:" + i.get("err", "?")))
        want_n = [1, [[[ord(c) for c in k], [ord(c) for c in v]] for k, v in sorted(want.items())]] \
            if want is not None else [0, []]
        mo = None
        if t is not None:
            m = next(model)
            mo = [m[0], [[list(k), list(v)] for k, v in m[1]]]
        if got != want_n:
            chk.violation("counterexample", "oracle:env-file",
                          dict(input=dict(bytes=list(b), text=t), impl=i,
                               documented=want if want is None else sorted(want.items()),
                               clause="$NEXTEST_ENV holds KEY=VALUE lines, split at the first '=', keys "
                                      "beginning with NEXTEST and lines without '=' rejected, last "
                                      "assignment wins"))
            return
        if mo is not None and mo != got:
            chk.violation("broken-obligation", "corr:env-file",
                          dict(input=dict(bytes=list(b), text=t), impl=i, model=mo), no_input=True)
            return
    chk.sample(dict(env_file=valid[3] if len(valid) > 3 else valid[0], parsed=impl[min(3, len(impl) - 1)]))


def run(tier, seed):
    chk = vlib.Check(PROP, tier, seed)
    gate = vlib.coq_gate(PROP)
    vlib.gate_or_violation(chk, gate)
    # DESIGN 11.7 (second round): these decisions are regenerated from the Rust source and proved equal to the
    # model's for all inputs; a failure is reported when the check finishes unless a stage below finds a
    # concrete failing input
    gen_tie.gate(chk, ['script_platform_guard'], gate)
    # fourth round: one turn of the loop of parse_env_file (split at the first '=', reserved-key rule) regenerated from
    # the source and proved equal to Model/EnvFileLine.v's line_step, the step of Model/Scripts.v's parse_lines
    gen_tie.gate(chk, ['env_file_line'], gate, family="glue")
    # fifth round: SetupScriptExecuteData::apply hands EVERY (key, value) of every script whose rule matches to
    # Command::env, unconditionally (no key is skipped because the command already carries a value for it)
    gen_tie.gate(chk, ['apply_env_unconditional'], gate, family="glue")
    checker = "make -C coq Properties/C18.vo && coqc gen/assump_C18.v (Print Assumptions)"
    binary, err = vlib.build_harness()
    if binary is None:
        chk.violation("broken-obligation", "harness-build", dict(error=err), no_input=True)
        return chk.finish(gate, checker, [])
    r = vlib.rng_for(seed, PROP)
    thorough = tier == "thorough"
    cp = corpus()

    # ---- corr:scripts + oracle (hook H6) --------------------------------------------------------
    scenarios = []
    scenarios.extend(cp.get("scripts", []))
    while len(scenarios) < (3000 if thorough else 220):
        scenarios.append(gen_scripts_case(r))
    distinct = check_scripts(chk, binary, scenarios, "c18s")

    # ---- corr:env-file + oracle (hook H6) -------------------------------------------------------
    files = [b"", b"\n", b"FOO=bar\n", b"FOO=bar", b"FOO=bar\nNEXTEST_BAD=1\n", b"A=1\n\nB=2\n",
             b"A=1\r\nB=2\r\n", b"A=1\r", b"\r\n", b"=\n", b"A=1\nA=2\nA=3", b"\xff=1\n", b"A=\xc3\n",
             b"OK=1\nBAD=\xe2\x82\n", b"NEXTEST=1", b"nextest=1\n", b" NEXTEST=1\n"]
    files += [bytes(x) for x in cp.get("env_files", [])]
    nfiles = 6000 if thorough else 400
    while len(files) < nfiles:
        files.append(gen_env_file(r, malformed=r.random() < 0.45).encode("utf-8"))
    check_env_files(chk, binary, files, "c18e")

    # ---- real runs of the real runner over scripted scripts and scripted test binaries ---------
    runs = [F5_WITNESS, LEAK_WITNESS, nff_witness(0), nff_witness(2), COLLIDE_WITNESS] + list(cp.get("runs", []))
    while len(runs) < (240 if thorough else 36):
        runs.append(gen_run_case(r))
    check_runs(chk, binary, runs, "c18r")

    # ---- corr:final-stats (public API) -----------------------------------------------------------
    stats_cases = []
    for initial in range(0, 4):
        for finished in range(0, initial + 1):
            for failed in range(0, finished + 1):
                for exec_failed in range(0, finished - failed + 1):
                    for timed_out in range(0, finished - failed - exec_failed + 1):
                        stats_cases.append(dict(op="final_stats", initial=initial, finished=finished,
                                                passed=finished - failed - exec_failed - timed_out,
                                                failed=failed, exec_failed=exec_failed,
                                                timed_out=timed_out, tests_initial=2, tests_finished=2))
    impl = vlib.run_impl(binary, "scripts", stats_cases + [dict(op="exit_code")])
    model = vlib.coq_eval("c18f", IMPORTS, [
        f"summarize_scripts {c['initial']} {c['finished']} {c['failed']} {c['exec_failed']} {c['timed_out']}"
        for c in stats_cases])
    for c, i, mo in zip(stats_cases, impl, model):
        chk.count("final_stats_cases")
        bad = c["failed"] + c["exec_failed"] + c["timed_out"] > 0
        if bad and i != 1:
            chk.violation("counterexample", "oracle:final-stats",
                          dict(input=c, impl=i, clause="a failed setup script makes the run a setup-script "
                                                       "failure (exit status 105)"))
            break
        if i != mo:
            chk.violation("broken-obligation", "corr:final-stats", dict(input=c, impl=i, model=mo),
                          no_input=True)
            break
    if impl[-1] != 105:
        chk.violation("counterexample", "oracle:exit-code",
                      dict(impl=impl[-1], clause="NextestExitCode::SETUP_SCRIPT_FAILED is 105"))

    chk.assumptions = [
        "target-spec platform evaluation and filterset evaluation enter the model as oracle tables "
        "returned by the real evaluation (the Python oracle re-derives them independently for the "
        "menu of platform specs and filters used)",
        "the dispatcher is an abstract interface (disp_laws / disp_live); C10_no_new_units, "
        "C10_monotone and C01_codes of the dispatcher model discharge the laws",
        "serial execution before the tests is structural in the model (run_setup_scripts awaits each "
        "script; script_rx.blocking_recv precedes the test stream); real ordering, the environment "
        "seen by test processes and exit status 105 await the end-to-end rig",
        "env files that are not valid UTF-8 are outside the model's string type (modelled as an "
        "unreadable file); the implementation's rejection of them is checked by the oracle only",
    ]
    return chk.finish(
        gate, checker,
        ["Coq 8.16.1 kernel + vm_compute",
         "hand-written model Model/Scripts.v tied by corr:scripts, corr:env-file (hook H6), "
         "corr:final-stats (public RunStats::summarize_final)",
         "Python generators/canonicalisers/oracles in props/C18.py", "harness/src/scripts.rs",
         "TOML/serde/config crates, target-spec, nextest-filtering (oracle tables)"],
        dict(evaluations=sum(v for k, v in chk.counts.items() if k.endswith("_cases")),
             distinct_nontrivial=len(distinct),
             rule="scripts scenario = (script definitions in order, optional tool-config script, rules "
                  "of default/ci profiles with platform spec + filter + script list, build platforms, "
                  "selection, per-script env maps), evaluated on 8 fixture queries; non-trivial = at "
                  "least one effective rule and one enabled script; distinct by that tuple",
             traces_validated_against_impl=chk.counts.get("scripts_cases", 0) + chk.counts.get("env_file_cases", 0)))


def replay(path, seed):
    d = json.load(open(path))
    print(json.dumps(d, indent=1, ensure_ascii=False)[:4000])
    binary, err = vlib.build_harness()
    if binary is None:
        print(err)
        return 1
    inp = d.get("input")
    if isinstance(inp, dict) and "bytes" in inp:
        b = bytes(inp["bytes"])
        i = vlib.run_impl(binary, "scripts", [dict(op="parse_env", bytes=list(b))])[0]
        want = py_parse_env(b)
        okay = norm_impl_env(i) == ([1, [[[ord(c) for c in k], [ord(c) for c in v]]
                                         for k, v in sorted(want.items())]] if want is not None else [0, []])
        print("impl:", i, "documented:", want, "->", "accepts" if okay else "FAILS")
        return 0 if okay else 1
    if isinstance(inp, dict) and "scripts" in inp and "rules" in inp:
        res = vlib.run_impl(binary, "scripts", [run_impl_case(inp)])[0]
        why = oracle_run(inp, res) if "events" in res else str(res)
        print("impl:", json.dumps(dict(events=res.get("events"), log=res.get("log"), summary=res.get("summary")),
                                  ensure_ascii=False))
        print("oracle:", why or "accepts")
        return 1 if why else 0
    if isinstance(inp, dict) and "rules" in inp:
        res = vlib.run_impl(binary, "scripts", [impl_case(inp)])[0]
        why = oracle_scripts(inp, res) if "enabled" in res else str(res)
        print("oracle:", why or "accepts")
        return 1 if why else 0
    return 2   # not a kind of record this function knows how to replay (the driver then re-runs the check)
