"""C14 — slot numbers: theorems (Properties/C14.v) + corr:future-queue (model vs the real
future_queue_grouped stream: same slots at every start, poll by poll; own seeded schedules) + the
environment rendering of the model against the documented format + an independent oracle that
replays the implementation's own log and checks uniqueness, least-free and the bounds directly."""
import json, os
import vlib, gen_tie
from vlib import coq_str
from props import fq_common as fq

PROP = "C14"
TAGS = ("unique", "least", "bounded", "shape", "protocol")
PRELUDE_E = """
Definition enc_env (l : list (str * str)) : list (list N) :=
  flat_map (fun kv : str * str => [fst kv; snd kv]) l.
"""
GROUP_NAMES = ["g", "serial", "db-tests", "é"]
# the naming of the model's numbered groups used by test_env (a function of the record alone)
PRELUDE_E += "Definition gnames (k : N) : str := nth (N.to_nat (k mod %d)) [%s] [].\n" % (
    len(GROUP_NAMES), "; ".join(coq_str(n) for n in GROUP_NAMES))


def corpus():
    p = os.path.join(vlib.VERIF, "corpus", PROP + ".json")
    return json.load(open(p)) if os.path.exists(p) else []


def env_check(chk, rows, r, thorough):
    """the three variables as the model renders them for contexts the REAL queue handed out,
    against the documented format (plain Python)"""
    ctxs = []
    for row in rows:
        if "log" not in row["impl"]:
            continue
        for e in row["impl"]["log"]:
            if e[0] == "s":
                g = row["case"]["items"][e[1]][1]
                ctxs.append((e[2], g, e[3]))
    ctxs = sorted(set(ctxs), key=lambda c: (c[0], -1 if c[1] is None else c[1], c[2]))
    ctxs += [(10, None, -1), (12345678901234567890, 0, 18446744073709551615), (0, 1, 9), (99, 2, 100)]
    r.shuffle(ctxs)
    ctxs = ctxs[:400 if thorough else 80]
    exprs, want = [], []
    for gs, g, grs in ctxs:
        name = None if g is None else GROUP_NAMES[g % len(GROUP_NAMES)]
        grp = "None" if g is None else f"(Some ({g}, {grs}))"
        gopt = "None" if g is None else f"(Some {g})"
        # group name from the item's group, slots from the context (C14_env_of_record)
        exprs.append(f"enc_env (test_env gnames (mkrun (mkitem 0 1 {gopt}) {gs} {grp}))")
        want.append({"NEXTEST_TEST_GLOBAL_SLOT": str(gs),
                     "NEXTEST_TEST_GROUP": name if name is not None else "@global",
                     "NEXTEST_TEST_GROUP_SLOT": str(grs) if g is not None else "none"})
    model = vlib.coq_eval("c14e", fq.IMPORTS, exprs, PRELUDE_E)
    for c, m, w in zip(ctxs, model, want):
        chk.count("env_cases")
        got = {vlib.decode_str(m[k]): vlib.decode_str(m[k + 1]) for k in range(0, len(m), 2)}
        if got != w:
            chk.violation("broken-obligation", "corr:slot-env",
                          dict(input=dict(global_slot=c[0], group=c[1], group_slot=c[2]), model=got, documented=w),
                          no_input=True)
            return
    chk.sample(dict(env_for=dict(global_slot=ctxs[0][0], group=ctxs[0][1], group_slot=ctxs[0][2]), rendered=want[0]))


def run(tier, seed):
    chk = vlib.Check(PROP, tier, seed)
    gate = vlib.coq_gate(PROP)
    vlib.gate_or_violation(chk, gate)
    # glue code (DESIGN 11.7, third round): only selected tests reach the scheduler (and so get a slot): the filter_map
    # stage of TestRunnerInner::execute, read from the source
    gen_tie.gate(chk, ['execute_filter_stage'], gate, family="glue")
    binary, err = vlib.build_harness()
    if binary is None:
        chk.violation("broken-obligation", "harness-build", dict(error=err), no_input=True)
        return chk.finish(gate, "make -C coq Properties/C14.vo", [])
    r = vlib.rng_for(seed, PROP)
    thorough = tier == "thorough"

    cases = fq.schedule_cases(r, thorough, corpus())
    rows = fq.run_schedules(chk, binary, cases, "c14s")
    distinct, validated = fq.judge(chk, binary, r, rows, TAGS, thorough, liveness=False)
    # distribution of what the slot clauses saw
    for row in rows:
        log = row["impl"].get("log", [])
        slots = [e[2] for e in log if e[0] == "s"]
        if slots:
            chk.count(f"max_global_slot={min(max(slots), 6)}")
        reused = len(slots) - len(set(slots))
        chk.count("schedules_with_slot_reuse" if reused else "schedules_without_slot_reuse")
    chk.sample(dict(schedule=fq.describe(rows[4]["case"]), impl_log=rows[4]["impl"].get("log")))
    env_check(chk, rows, r, thorough)
    validated += fq.run_runner_scenarios(chk, binary, r, thorough, TAGS + ("stable",), PROP, with_f7=False)

    chk.assumptions = [
        "slots as seen by real test processes (NEXTEST_TEST_* in the child's environment, alive intervals, "
        "equality across retry attempts) are observed only by the end-to-end rig (not part of this check); here "
        "the slots are those the real queue hands to the future's closure, which nextest passes unchanged to every attempt",
        "a poll of the real stream is explained as one of fill / pop+drain+fill / pop+drain (Model/FutureQueue.v header)",
        "threads-required >= 1 and limits >= 1 for the bound clause (validated by nextest's config parser)",
    ]
    # end-to-end stage: generated multi-test runs of the real cargo-nextest over the scripted puppet
    # workspace, judged by this property's oracle (lib/e2e_general.py)
    try:
        import e2e_general
        e2e_general.stage(chk, PROP, tier, seed)
    except RuntimeError as ex:
        chk.violation("broken-obligation", "e2e-build", dict(error=str(ex)[-3000:]), no_input=True)
    return chk.finish(
        gate, "make -C coq Properties/C14.vo && coqc gen/assump_C14.v (Print Assumptions)",
        ["Coq 8.16.1 kernel + vm_compute",
         "hand-written model Model/FutureQueue.v (future-queue 0.4.0 slots.rs, future_queue_grouped.rs) tied by corr:future-queue",
         "Python generators / log-to-operations translation / oracle in props/fq_common.py, props/C14.py",
         "harness/src/fq.rs (hand-rolled single-threaded poll loop, oneshot-completed futures)"],
        dict(evaluations=sum(v for k, v in chk.counts.items() if k.endswith("_cases")),
             distinct_nontrivial=len(distinct),
             rule="schedule = (limit, groups, items (weight, group), observed completion order); non-trivial = at "
                  "least 2 items; distinct by that tuple",
             traces_validated_against_impl=validated))


def replay(path, seed):
    d = json.load(open(path))
    print(json.dumps(d, indent=1)[:3000])
    binary, err = vlib.build_harness()
    inp = d.get("input")
    if isinstance(inp, dict) and "items" in inp:
        case = dict(op="run", gmax=inp["gmax"], groups=inp["groups"], items=inp["items"], script=inp["script"])
        chk = vlib.Check(PROP, "quick", seed)
        row = fq.run_schedules(chk, binary, [case], "c14r")[0]
        fails = fq.oracle(case, row["impl"])
        print("impl:", json.dumps(row["impl"]))
        print("model:", row.get("model"))
        print("disagreement:", row["problem"] or row["diff"])
        print("oracle:", fails or "accepts")
        bad = [f for f in fails if f[0] in TAGS]
        return 1 if (bad or row["problem"] or row["diff"]) else 0
    if isinstance(inp, dict) and "binaries" in inp:
        sc = {k: v for k, v in inp.items() if k != "tag"}
        res = vlib.run_impl(binary, "fq", [sc], timeout=600)[0]
        fails = fq.runner_oracle(inp, res)
        print("impl:", json.dumps(res)[:3000])
        print("oracle:", fails or "accepts")
        bad = [f for f in fails if f[0] in TAGS + ("stable",)]
        if "liveness" in [f[0] for f in fails] and not fq.runner_f7_shape(inp, res):
            bad.append(("liveness", "stranded outside the known class"))
        return 1 if bad else 0
    return 2   # not a kind of record this function knows how to replay (the driver then re-runs the check)
